//go:build verif

package verifharness

// C16 workload: the SAME seeded multi-module history (lend / borrow, vault create / deposit / draw
// / repay, liquidity pool deposits and many limit orders at equal prices - the pro-rata fill loop
// ranges over a Go map -, a price drop that triggers V2 liquidations and auctions, every wired
// block hook at every block) is executed block by block on fresh applications.  After every block
// the SHA-256 of an ordered dump of every DeFi module store, the balances of all accounts the
// workload touches and the supply of its denoms, plus the result class of every transaction, are
// written.  One invocation replays VERIF_C16_REPLAYS times in process; harness/c16_replay.sh adds
// fresh processes with different GOMAXPROCS (Go randomises map iteration per process and per map).

import (
	"crypto/sha256"
	"encoding/hex"
	"fmt"
	"os"
	"sort"
	"testing"
	"time"

	abci "github.com/cometbft/cometbft/abci/types"
	sdk "github.com/cosmos/cosmos-sdk/types"

	chain "github.com/comdex-official/comdex/app"
	"github.com/comdex-official/comdex/x/auctionsV2"
	"github.com/comdex-official/comdex/x/bandoracle"
	"github.com/comdex-official/comdex/x/esm"
	"github.com/comdex-official/comdex/x/lend"
	"github.com/comdex-official/comdex/x/liquidationsV2"
	"github.com/comdex-official/comdex/x/liquidity"
	liquiditytypes "github.com/comdex-official/comdex/x/liquidity/types"
	"github.com/comdex-official/comdex/x/market"
	"github.com/comdex-official/comdex/x/rewards"
	vaulttypes "github.com/comdex-official/comdex/x/vault/types"
)

var c16Stores = []string{"assetv1", "vaultV1", "lockerV1", "collectorV1", "liquidationV1", "auctionV1", "tokenmint", "rewardsV1",
	"esmV1", "lendV2", "marketV1", "liquidityV1", "liquidationsV2", "auctionsV2", "bandoracleV1"}

var c16Denoms = []string{"uasset1", "uasset2", "uasset3", "uasset4", "ucasset1", "ucasset2", "ucasset3", "ucasset4", "pool1-1", "ucmdx", "stake"}

func c16StoreDigest(a *chain.App, ctx sdk.Context, name string) string {
	h := sha256.New()
	it := ctx.KVStore(a.GetKey(name)).Iterator(nil, nil)
	defer it.Close()
	for ; it.Valid(); it.Next() {
		h.Write(it.Key())
		h.Write([]byte{0})
		h.Write(it.Value())
		h.Write([]byte{1})
	}
	return hex.EncodeToString(h.Sum(nil))
}

// balances of every account the workload touches (users, module accounts) and supplies, ordered
func c16BankDigest(a *chain.App, ctx sdk.Context, accts []sdk.AccAddress) string {
	h := sha256.New()
	for i, ac := range accts {
		bals := a.BankKeeper.GetAllBalances(ctx, ac)
		fmt.Fprintf(h, "%d:%s;", i, bals.String())
	}
	var sup []string
	a.BankKeeper.IterateTotalSupply(ctx, func(c sdk.Coin) bool {
		if c.Denom != "stake" && c.Denom != "ucmdx" {
			sup = append(sup, c.String())
		}
		return false
	})
	sort.Strings(sup)
	for _, s := range sup {
		fmt.Fprintf(h, "S%s;", s)
	}
	return hex.EncodeToString(h.Sum(nil))
}

func c16Block(a *chain.App, ctx sdk.Context, begin bool) {
	if begin {
		market.BeginBlocker(ctx, abci.RequestBeginBlock{}, a.MarketKeeper, a.BandoracleKeeper, a.AssetKeeper)
		bandoracle.BeginBlocker(ctx, abci.RequestBeginBlock{}, a.BandoracleKeeper)
		esm.BeginBlocker(ctx, abci.RequestBeginBlock{}, a.EsmKeeper, a.AssetKeeper)
		lend.BeginBlocker(ctx, abci.RequestBeginBlock{}, a.LendKeeper)
		rewards.BeginBlocker(ctx, abci.RequestBeginBlock{}, a.Rewardskeeper)
		liquidity.BeginBlocker(ctx, a.LiquidityKeeper, a.AssetKeeper)
		auctionsV2.BeginBlocker(ctx, a.NewaucKeeper)
		liquidationsV2.BeginBlocker(ctx, abci.RequestBeginBlock{}, a.NewliqKeeper)
	} else {
		liquidity.EndBlocker(ctx, a.LiquidityKeeper, a.AssetKeeper)
	}
}

// one replay of the seeded history; every random choice comes from newRng(seed()) in a fixed order
func c16Replay(t *testing.T, tr *tracer, label string, blocks int) {
	a, ctx := newApp(t)
	r := newRng(seed())
	tr.p("replay %s", label)
	ctx = ctx.WithBlockHeight(1).WithBlockTime(baseTime)
	e := c15Fixture(t, a, ctx)
	users := []sdk.AccAddress{e.user1, e.user2}
	for i := 0; i < 12; i++ {
		users = append(users, addrN(200+i))
	}
	accts := append([]sdk.AccAddress{}, users...)
	for _, m := range []string{"vaultV1", "auctionV1", "auctionsV2", "liquidationV1", "liquidationsV2", "collectorV1", "liquidityV1", "rewardsV1", "lockerV1",
		"cmdx", "osmo", "lendV2", "esmV1", "tokenmint"} {
		accts = append(accts, modAddr(m))
	}
	dump := func(block int, classes []string) {
		tr.p("case %d", block)
		for i, c := range classes {
			tr.p("tx %d %s", i, c)
		}
		for _, s := range c16Stores {
			tr.p("d %s %s", s, c16StoreDigest(a, ctx, s))
		}
		tr.p("d bank %s", c16BankDigest(a, ctx, accts))
	}
	dump(0, e.log)
	prices := []string{"0.99", "1.00", "1.00", "1.01", "1.01", "1.02", "0.98"}
	for b := 1; b <= blocks; b++ {
		ctx = ctx.WithBlockHeight(int64(1 + b)).WithBlockTime(baseTime.Add(time.Duration(b) * 6 * time.Second))
		if b == blocks*2/3 {
			e.dropPrices(a, ctx) // oracle update: vaults and borrows become liquidatable
		}
		c16Block(a, ctx, true)
		var classes []string
		ntx := 6 + r.intn(10)
		for i := 0; i < ntx; i++ {
			who := users[r.intn(len(users))]
			switch r.intn(10) {
			case 0, 1, 2, 3, 4, 5: // limit orders, many at equal prices
				classes = append(classes, e.order(t, a, ctx, who, r.chance(50), prices[r.intn(len(prices))], int64(100000+r.intn(40)*50000)))
			case 6:
				amt := sdk.NewInt(int64(1000000 + r.intn(5)*1000000))
				fund(t, a, ctx, who, sdk.NewCoins(sdk.NewCoin("uasset1", amt), sdk.NewCoin("uasset4", amt)))
				classes = append(classes, e.msg(t, a, ctx, false, liquiditytypes.NewMsgDeposit(e.appSwap, who, e.liqPool,
					sdk.NewCoins(sdk.NewCoin("uasset1", amt), sdk.NewCoin("uasset4", amt)))))
			case 7:
				v := uint64(1 + r.intn(2))
				owner := users[v-1]
				classes = append(classes, e.msg(t, a, ctx, false, vaulttypes.NewMsgDepositRequest(owner, e.appHarbor, e.extPair, v, sdk.NewInt(int64(1000+r.intn(100000))))))
			case 8:
				v := uint64(1 + r.intn(2))
				owner := users[v-1]
				classes = append(classes, e.msg(t, a, ctx, false, vaulttypes.NewMsgDrawRequest(owner, e.appHarbor, e.extPair, v, sdk.NewInt(int64(1000+r.intn(400000))))))
			case 9:
				amt := sdk.NewInt(int64(1000000 + r.intn(3)*1000000))
				fund(t, a, ctx, who, sdk.NewCoins(sdk.NewCoin("uasset2", amt)))
				classes = append(classes, e.msg(t, a, ctx, false, &vaulttypes.MsgCreateRequest{From: who.String(), AppId: e.appHarbor,
					ExtendedPairVaultId: e.extPair, AmountIn: amt, AmountOut: amt.QuoRaw(2)}))
			}
		}
		c16Block(a, ctx, false)
		dump(b, classes)
	}
}

func TestC16(t *testing.T) {
	tr := newTracer(t, "c16.trace")
	defer tr.close()
	n := envInt("VERIF_C16_REPLAYS", 2)
	blocks := envInt("VERIF_CASES", 24)
	label := os.Getenv("VERIF_C16_LABEL")
	if label == "" {
		label = "inproc"
	}
	for i := 0; i < n; i++ {
		c16Replay(t, tr, fmt.Sprintf("%s-%d", label, i), blocks)
	}
}
