//go:build verif

package verifharness

// C16 workload: the SAME seeded multi-module history (lend / borrow, vault create / deposit / draw
// / repay, liquidity pool deposits and many limit orders at equal prices - the pro-rata fill loop
// ranges over a Go map -, a price drop that triggers V2 liquidations and auctions, every wired
// block hook at every block) is executed block by block on fresh applications.  After every block
// the SHA-256 of an ordered dump of every DeFi module store, the balances of all accounts the
// workload touches and the supply of its denoms, plus the result class of every transaction, are
// written.  One invocation replays VERIF_C16_REPLAYS times in process; harness/c16_replay.sh adds
// fresh processes with different GOMAXPROCS (Go randomises map iteration per process and per map)
// and different TZ settings (the zone of the process must not show in the state: the block times
// cross the US daylight-saving switch of 2024-03-10 and several midnights of every zone used, and an
// external vault-reward program pays once a day), and one process that interleaves every
// transaction with DISCARDED dry runs (VERIF_C16_DRYRUN=1): the same message on a cache context
// that is never written, and the same message again on a second discarded branch after the
// parameters, prices and switches of every module were changed there and a block two days in the
// future was run there - what simulation / CheckTx / a failed multi-message transaction do to a
// node.  Memory that survives the discarded branch shows as a digest difference.

import (
	"crypto/sha256"
	"encoding/hex"
	"fmt"
	"os"
	"sort"
	"testing"
	"time"
	_ "time/tzdata" // the zones of c16_replay.sh resolve whatever the host has installed

	abci "github.com/cometbft/cometbft/abci/types"
	sdk "github.com/cosmos/cosmos-sdk/types"

	chain "github.com/comdex-official/comdex/app"
	"github.com/comdex-official/comdex/app/wasm/bindings"
	"github.com/comdex-official/comdex/x/auctionsV2"
	"github.com/comdex-official/comdex/x/bandoracle"
	"github.com/comdex-official/comdex/x/esm"
	"github.com/comdex-official/comdex/x/lend"
	"github.com/comdex-official/comdex/x/liquidationsV2"
	"github.com/comdex-official/comdex/x/liquidity"
	"github.com/comdex-official/comdex/x/liquidity/amm"
	esmtypes "github.com/comdex-official/comdex/x/esm/types"
	liquiditytypes "github.com/comdex-official/comdex/x/liquidity/types"
	lockertypes "github.com/comdex-official/comdex/x/locker/types"
	"github.com/comdex-official/comdex/x/market"
	"github.com/comdex-official/comdex/x/rewards"
	rewardstypes "github.com/comdex-official/comdex/x/rewards/types"
	vaulttypes "github.com/comdex-official/comdex/x/vault/types"
)

var c16Stores = []string{"assetv1", "vaultV1", "lockerV1", "collectorV1", "liquidationV1", "auctionV1", "tokenmint", "rewardsV1",
	"esmV1", "lendV2", "marketV1", "liquidityV1", "liquidationsV2", "auctionsV2", "bandoracleV1"}

var c16Denoms = []string{"uasset1", "uasset2", "uasset3", "uasset4", "ucasset1", "ucasset2", "ucasset3", "ucasset4", "pool1-1", "ucmdx", "stake"}

func c16StoreDigest(a *chain.App, ctx sdk.Context, name string) string {
	h := sha256.New()
	it := ctx.KVStore(a.GetKey(name)).Iterator(nil, nil)
	defer it.Close()
	for ; it.Valid(); it.Next() {
		h.Write(it.Key())
		h.Write([]byte{0})
		h.Write(it.Value())
		h.Write([]byte{1})
	}
	return hex.EncodeToString(h.Sum(nil))
}

// balances of every account the workload touches (users, module accounts) and supplies, ordered
func c16BankDigest(a *chain.App, ctx sdk.Context, accts []sdk.AccAddress) string {
	h := sha256.New()
	for i, ac := range accts {
		bals := a.BankKeeper.GetAllBalances(ctx, ac)
		fmt.Fprintf(h, "%d:%s;", i, bals.String())
	}
	var sup []string
	a.BankKeeper.IterateTotalSupply(ctx, func(c sdk.Coin) bool {
		if c.Denom != "stake" && c.Denom != "ucmdx" {
			sup = append(sup, c.String())
		}
		return false
	})
	sort.Strings(sup)
	for _, s := range sup {
		fmt.Fprintf(h, "S%s;", s)
	}
	return hex.EncodeToString(h.Sum(nil))
}

func c16Block(a *chain.App, ctx sdk.Context, begin bool) {
	if begin {
		market.BeginBlocker(ctx, abci.RequestBeginBlock{}, a.MarketKeeper, a.BandoracleKeeper, a.AssetKeeper)
		bandoracle.BeginBlocker(ctx, abci.RequestBeginBlock{}, a.BandoracleKeeper)
		esm.BeginBlocker(ctx, abci.RequestBeginBlock{}, a.EsmKeeper, a.AssetKeeper)
		lend.BeginBlocker(ctx, abci.RequestBeginBlock{}, a.LendKeeper)
		rewards.BeginBlocker(ctx, abci.RequestBeginBlock{}, a.Rewardskeeper)
		liquidity.BeginBlocker(ctx, a.LiquidityKeeper, a.AssetKeeper)
		auctionsV2.BeginBlocker(ctx, a.NewaucKeeper)
		liquidationsV2.BeginBlocker(ctx, abci.RequestBeginBlock{}, a.NewliqKeeper)
	} else {
		liquidity.EndBlocker(ctx, a.LiquidityKeeper, a.AssetKeeper)
	}
}

// Friday 2024-03-08 12:00 UTC; the United States switch to daylight-saving time on Sunday 2024-03-10
// 07:00 UTC.  Two blocks out of three follow the previous one after 6 s, the third after 9 h 17 min:
// 24 blocks span three days (thorough: 120 blocks, fifteen days).
var c16Start = time.Date(2024, 3, 8, 12, 0, 0, 0, time.UTC)

func c16BlockTime(b int) time.Time {
	t := c16Start
	for i := 1; i <= b; i++ {
		if i%3 == 0 {
			t = t.Add(9*time.Hour + 17*time.Minute)
		} else {
			t = t.Add(6 * time.Second)
		}
	}
	return t
}

// the discarded branches run before a transaction (VERIF_C16_DRYRUN=1).  Nothing here may touch the
// real context, the PRNG of the workload or the result log.
func c16DryRun(t *testing.T, a *chain.App, ctx sdk.Context, e *c15Env, m sdk.Msg, n int) {
	h := a.MsgServiceRouter().Handler(m)
	if h == nil {
		return
	}
	c16DryRunDo(t, a, ctx, e, m.GetSigners(), func(c sdk.Context) { _, _ = h(c, m) }, n)
}

// the same for any action (a message through the router, a governance proposal handler, a contract
// binding): do runs on dropped branches only
func c16DryRunDo(t *testing.T, a *chain.App, ctx sdk.Context, e *c15Env, signers []sdk.AccAddress, do func(c sdk.Context), n int) {
	// on the dropped branches the signer can afford anything
	rich := func(c sdk.Context) {
		for _, who := range signers {
			for _, d := range []string{"uasset1", "uasset2", "uasset3", "uasset4", "ucmdx"} {
				fund(t, a, c, who, sdk.NewCoins(sdk.NewCoin(d, sdk.NewInt(1000000000000))))
			}
		}
	}
	// 1. the same action, as simulation / CheckTx run it: on a branch that is dropped
	c1, _ := ctx.CacheContext()
	rich(c1)
	safely(func() { do(c1) })
	// 2. a branch on which the parameters, prices and switches of the modules are changed, a later
	// block runs, and the message runs again; dropped as well
	c2, _ := ctx.CacheContext()
	rich(c2)
	safely(func() {
		fee := []string{"0.05", "0.000001", "0.9"}[n%3]
		_ = a.LiquidityKeeper.UpdateGenericParams(c2, e.appSwap, []string{"SwapFeeRate", "WithdrawFeeRate", "SwapFeeBurnRate", "BatchSize"},
			[]string{fee, "0.5", "0.7", "3"})
		if gp, err := a.LiquidityKeeper.GetGenericParams(c2, e.appSwap); err == nil {
			gp.MaxPriceLimitRatio = c15Dec("0.5")
			gp.MinInitialDepositAmount = sdk.NewInt(7)
			a.LiquidityKeeper.SetGenericParams(c2, gp)
		}
		for i, id := range e.assets {
			c15SetPrice(a, c2, id, uint64(500000+((n+i)%5)*700000), true)
		}
		if pv, ok := a.AssetKeeper.GetPairsVault(c2, e.extPair); ok {
			pv.StabilityFee = c15Dec("0.35")
			pv.MinCr = c15Dec("1.1")
			pv.DrawDownFee = c15Dec("0.2")
			pv.DebtCeiling = sdk.NewInt(5000000)
			a.AssetKeeper.SetPairsVault(c2, pv)
		}
		if ap, ok := a.NewaucKeeper.GetAuctionParams(c2); ok {
			ap.AuctionDurationSeconds = 7
			ap.Step = c15Dec("0.5")
			ap.BidFactor = c15Dec("0.9")
			a.NewaucKeeper.SetAuctionParams(c2, ap)
		}
		if ap, ok := a.AuctionKeeper.GetAuctionParams(c2, e.appHarbor); ok {
			ap.AuctionDurationSeconds = 5
			ap.Buffer = c15Dec("3.0")
			a.AuctionKeeper.SetAuctionParams(c2, ap)
		}
		for _, app := range []uint64{e.appHarbor, e.appCommodo} {
			if wl, ok := a.NewliqKeeper.GetLiquidationWhiteListing(c2, app); ok {
				wl.KeeeperIncentive = c15Dec("0.9")
				a.NewliqKeeper.SetLiquidationWhiteListing(c2, wl)
			}
		}
		for _, id := range e.assets[:4] {
			if rp, ok := a.LendKeeper.GetAssetRatesParams(c2, id); ok {
				rp.Base = c15Dec("0.5")
				rp.Ltv = c15Dec("0.1")
				rp.ReserveFactor = c15Dec("0.9")
				a.LendKeeper.SetAssetRatesParams(c2, rp)
			}
		}
		for _, v := range a.Rewardskeeper.GetExternalRewardVaults(c2) {
			if ep, ok := a.Rewardskeeper.GetEpochTime(c2, v.EpochId); ok {
				ep.StartingTime -= 86400 * 3
				ep.Count += 2
				a.Rewardskeeper.SetEpochTime(c2, ep)
			}
		}
		if n%4 == 3 {
			_ = a.EsmKeeper.SetKillSwitchData(c2, esmtypes.KillSwitchParams{AppId: e.appSwap, BreakerEnable: true})
		}
	})
	c2 = c2.WithBlockHeight(ctx.BlockHeight() + 1000).WithBlockTime(ctx.BlockTime().Add(49 * time.Hour))
	safely(func() { c16Block(a, c2, true) })
	safely(func() { do(c2) })
	safely(func() { c16Block(a, c2, false) })
}

// one replay of the seeded history; every random choice comes from newRng(seed()) in a fixed order
func c16Replay(t *testing.T, tr *tracer, label string, blocks int) {
	a, ctx := newApp(t)
	r := newRng(seed())
	dry := os.Getenv("VERIF_C16_DRYRUN") == "1"
	tr.p("replay %s", label)
	// what this process would answer for "local" time at an instant after the US switch: the runner
	// checks that the replays really ran in different zones
	_, off := time.Unix(c16Start.Unix()+3*86400, 0).Zone()
	_, off2 := time.Unix(c16Start.Unix(), 0).Zone()
	tr.p("zone %d_%d", off2, off)
	if dry {
		tr.p("mode dryrun")
	} else {
		tr.p("mode plain")
	}
	ctx = ctx.WithBlockHeight(1).WithBlockTime(c16Start)
	e := c15Fixture(t, a, ctx)
	// an external reward program for the vaults of the extended pair: paid once a day for 12 days
	e.msg(t, a, ctx, true, rewardstypes.NewMsgActivateExternalRewardsVault(e.appHarbor, e.extPair, sdk.NewCoin("uasset3", sdk.NewInt(600000000)), 12, 1, e.user1))
	// two lockers of the vault app on uasset3 and an external locker-reward program, also daily
	if _, err := a.LockerKeeper.AddWhiteListedAsset(ctx, &lockertypes.MsgAddWhiteListedAssetRequest{From: e.user1.String(), AppId: e.appHarbor, AssetId: e.assets[2]}); err != nil {
		t.Fatalf("locker whitelist: %v", err)
	}
	if err := a.CollectorKeeper.WasmSetCollectorLookupTable(ctx, &bindings.MsgSetCollectorLookupTable{AppID: e.appHarbor, CollectorAssetID: e.assets[2],
		SecondaryAssetID: e.assets[1], SurplusThreshold: sdk.NewInt(10000000), DebtThreshold: sdk.NewInt(5000000), LockerSavingRate: sdk.NewDecWithPrec(5, 2),
		LotSize: sdk.NewInt(2000000), BidFactor: sdk.NewDecWithPrec(1, 2), DebtLotSize: sdk.NewInt(2000000)}); err != nil {
		t.Fatalf("collector lookup: %v", err)
	}
	fund(t, a, ctx, e.user2, sdk.NewCoins(sdk.NewCoin("uasset3", sdk.NewInt(900000000))))
	e.msg(t, a, ctx, true, lockertypes.NewMsgCreateLockerRequest(e.user1.String(), sdk.NewInt(500000000), e.assets[2], e.appHarbor))
	e.msg(t, a, ctx, true, lockertypes.NewMsgCreateLockerRequest(e.user2.String(), sdk.NewInt(300000000), e.assets[2], e.appHarbor))
	e.msg(t, a, ctx, true, rewardstypes.NewMsgActivateExternalRewardsLockers(e.appHarbor, e.assets[2], sdk.NewCoin("uasset4", sdk.NewInt(700000000)), 12, 1, e.user1))
	users := []sdk.AccAddress{e.user1, e.user2}
	for i := 0; i < 12; i++ {
		users = append(users, addrN(200+i))
	}
	accts := append([]sdk.AccAddress{}, users...)
	for _, m := range []string{"vaultV1", "auctionV1", "auctionsV2", "liquidationV1", "liquidationsV2", "collectorV1", "liquidityV1", "rewardsV1", "lockerV1",
		"cmdx", "osmo", "lendV2", "esmV1", "tokenmint"} {
		accts = append(accts, modAddr(m))
	}
	// one app gets its own parameters in every module (governance proposals, contract bindings)
	g := c16Govern(t, a, ctx, e)
	accts = append(accts, liquiditytypes.DeriveFeeCollectorAddress(e.appSwap), liquiditytypes.DeriveFeeCollectorAddress(g.govx))
	dump := func(block int, classes []string) {
		tr.p("case %d", block)
		for i, c := range classes {
			tr.p("tx %d %s", i, c)
		}
		for _, s := range c16Stores {
			tr.p("d %s %s", s, c16StoreDigest(a, ctx, s))
		}
		tr.p("d bank %s", c16BankDigest(a, ctx, accts))
		// what the node answers to parameter queries after the block; the app with its own parameters is
		// the last one whose parameters this process decodes before the next block (or the next replay)
		qh := sha256.Sum256([]byte(g.queries(a, ctx, e)))
		tr.p("d queries %s", hex.EncodeToString(qh[:]))
	}
	dump(0, e.log)
	ndry := 0
	exec := func(m sdk.Msg) string {
		if dry {
			ndry++
			c16DryRun(t, a, ctx, e, m, ndry)
		}
		class, err, _ := execMsg(a, ctx, m)
		e.log = append(e.log, class)
		if class != "ok" && os.Getenv("VERIF_C16_DEBUG") == "1" {
			fmt.Fprintf(os.Stderr, "c16 block %d %T: %s %v\n", ctx.BlockHeight()-1, m, class, err)
		}
		return class
	}
	prices := []string{"0.99", "1.00", "1.00", "1.01", "1.01", "1.02", "0.98"}
	for b := 1; b <= blocks; b++ {
		ctx = ctx.WithBlockHeight(int64(1 + b)).WithBlockTime(c16BlockTime(b))
		if b == blocks*2/3 {
			e.dropPrices(a, ctx) // oracle update: vaults and borrows become liquidatable
		}
		c16Block(a, ctx, true)
		var classes []string
		if b == (blocks+2)/3 {
			// governance and the contracts re-parametrise the running apps
			classes = append(classes, g.reparam(a, ctx, e)...)
		}
		newApp := false
		ntx := 6 + r.intn(10)
		for i := 0; i < ntx; i++ {
			who := users[r.intn(len(users))]
			kind := r.intn(12)
			if kind == 11 && (newApp || g.nNew >= 4+blocks/4) {
				kind = 10 // at most one new app per block
			}
			switch kind {
			case 10: // an order in the pair of the app with its own parameters
				buy, amt := r.chance(50), int64(200000+r.intn(20)*50000)
				fund(t, a, ctx, who, sdk.NewCoins(sdk.NewCoin("uasset1", sdk.NewInt(amt*3)), sdk.NewCoin("uasset4", sdk.NewInt(amt*3))))
				classes = append(classes, exec(g.orderMsg(who, buy, amt)))
			case 11: // a new app that takes the default parameters
				newApp = true
				g.nNew++
				do := g.newDefaultApp(t, a, e, who, g.nNew)
				if dry {
					ndry++
					c16DryRunDo(t, a, ctx, e, []sdk.AccAddress{who}, func(c sdk.Context) { do(c) }, ndry)
				}
				classes = append(classes, do(ctx)...)
			case 0, 1, 2, 3, 4, 5: // limit orders, many at equal prices
				buy, price, amt := r.chance(50), prices[r.intn(len(prices))], int64(100000+r.intn(40)*50000)
				if dry {
					// the order message is built from the CURRENT fee parameter: dry-run the same order first
					ndry++
					c16DryRun(t, a, ctx, e, c16OrderMsg(a, ctx, e, who, buy, price, amt), ndry)
				}
				classes = append(classes, e.order(t, a, ctx, who, buy, price, amt))
			case 6:
				amt := sdk.NewInt(int64(1000000 + r.intn(5)*1000000))
				fund(t, a, ctx, who, sdk.NewCoins(sdk.NewCoin("uasset1", amt), sdk.NewCoin("uasset4", amt)))
				classes = append(classes, exec(liquiditytypes.NewMsgDeposit(e.appSwap, who, e.liqPool,
					sdk.NewCoins(sdk.NewCoin("uasset1", amt), sdk.NewCoin("uasset4", amt)))))
			case 7:
				v := uint64(1 + r.intn(2))
				owner := users[v-1]
				classes = append(classes, exec(vaulttypes.NewMsgDepositRequest(owner, e.appHarbor, e.extPair, v, sdk.NewInt(int64(1000+r.intn(100000))))))
			case 8:
				v := uint64(1 + r.intn(2))
				owner := users[v-1]
				classes = append(classes, exec(vaulttypes.NewMsgDrawRequest(owner, e.appHarbor, e.extPair, v, sdk.NewInt(int64(1000+r.intn(400000))))))
			case 9:
				amt := sdk.NewInt(int64(1000000 + r.intn(3)*1000000))
				fund(t, a, ctx, who, sdk.NewCoins(sdk.NewCoin("uasset2", amt)))
				classes = append(classes, exec(&vaulttypes.MsgCreateRequest{From: who.String(), AppId: e.appHarbor,
					ExtendedPairVaultId: e.extPair, AmountIn: amt, AmountOut: amt.QuoRaw(2)}))
			}
		}
		c16Block(a, ctx, false)
		dump(b, classes)
	}
}

// the limit-order message e.order is about to send (same construction, without funding or sending)
func c16OrderMsg(a *chain.App, ctx sdk.Context, e *c15Env, who sdk.AccAddress, buy bool, price string, amt int64) sdk.Msg {
	p := c15Dec(price)
	dir, ammDir := liquiditytypes.OrderDirectionSell, amm.Sell
	offer, demand := "uasset1", "uasset4"
	if buy {
		dir, ammDir = liquiditytypes.OrderDirectionBuy, amm.Buy
		offer, demand = "uasset4", "uasset1"
	}
	oc := sdk.NewCoin(offer, amm.OfferCoinAmount(ammDir, p, sdk.NewInt(amt)).MulRaw(2))
	return liquiditytypes.NewMsgLimitOrder(e.appSwap, who, e.liqPair, dir, oc, demand, p, sdk.NewInt(amt), 10*time.Second)
}

func TestC16(t *testing.T) {
	tr := newTracer(t, "c16.trace")
	defer tr.close()
	n := envInt("VERIF_C16_REPLAYS", 2)
	blocks := envInt("VERIF_CASES", 24)
	label := os.Getenv("VERIF_C16_LABEL")
	if label == "" {
		label = "inproc"
	}
	for i := 0; i < n; i++ {
		c16Replay(t, tr, fmt.Sprintf("%s-%d", label, i), blocks)
	}
}
