//go:build verif

package verifharness

import (
	"math"
	"testing"
	"time"

	sdk "github.com/cosmos/cosmos-sdk/types"

	collectortypes "github.com/comdex-official/comdex/x/collector/types"
	lendtypes "github.com/comdex-official/comdex/x/lend/types"
	lockertypes "github.com/comdex-official/comdex/x/locker/types"
	rewardstypes "github.com/comdex-official/comdex/x/rewards/types"
	vaulttypes "github.com/comdex-official/comdex/x/vault/types"
)

// TestC18Sites drives the REAL accrual sites, i.e. the keeper functions that pick principal, rate and
// time base from the stored records, call the accrual function, carry the fraction in a tracker and
// add the whole units to the position record:
//   V   rewards.CalculateVaultInterest        stability fee of one vault, 1-4 consecutive calls
//   VI  asset.VaultIterateRewards             the copy of it run when a pair's stability fee changes
//   K   rewards.CalculateLockerRewards        savings of one locker, 1-4 consecutive calls
//   IL  lend.IterateLends                     lend reward, tracker, payout
//   IB  lend.IterateBorrow                    borrow interest (variable / stable-rate), reserve share,
//                                             GetAverageBorrowRate / GetReserveRate
// The records are written with the keepers' own setters (collector lookup: raw store write, its
// setter drops BlockTime), the function is called, the records are read back.  For the float
// sites CalculationOfRewards is also called directly on the operands the site must select, and
// x, y, math.Pow(x, y) are printed as IEEE bit patterns.

func c18Bits(now, bt int64, lsr sdk.Dec) (uint64, uint64, uint64) {
	var x, y, f float64
	secs := now - bt
	if secs >= 0 {
		x = c18One.Add(lsr).MustFloat64()
		y = sdk.NewDec(secs).QuoInt64(c18Year).MustFloat64()
		f = math.Pow(x, y)
	}
	return math.Float64bits(x), math.Float64bits(y), math.Float64bits(f)
}

func c18DecStr(d sdk.Dec) string {
	if d.IsNil() {
		return "0"
	}
	return d.BigInt().String()
}

func TestC18Sites(t *testing.T) {
	a, base := newApp(t)
	tr := newTracer(t, "c18sites.trace")
	defer tr.close()
	r := newRng(newRng(seed()).next() ^ 0xC18517E5)
	g := c18Gen{r}
	ncases := envInt("VERIF_CASES", 300)
	only := envInt("VERIF_CASE", -1)
	z := sdk.ZeroDec()
	cls := func(p bool, err error) string {
		if p {
			return "panic"
		}
		if err != nil {
			return "err"
		}
		return "ok"
	}
	at := func(ctx sdk.Context, now, h int64) sdk.Context {
		return ctx.WithBlockTime(time.Unix(now, 0).UTC()).WithBlockHeight(h)
	}
	const now0 = int64(1700000000)

	// ---------- fixture on the base context ----------
	app := addAppRecord(t, a, base, "ceight")
	coll := addAsset(t, a, base, "CEIGHTC", "uc18c", 1000000, false, false)
	debt := addAsset(t, a, base, "CEIGHTD", "uc18d", 1000000, false, true)
	gov := addAsset(t, a, base, "CEIGHTG", "uc18g", 1000000, false, false)
	cas := addAsset(t, a, base, "CEIGHTX", "uc18x", 1000000, false, false)
	_ = gov
	pair := addPair(t, a, base, coll, debt)
	ext := addExtPair(t, a, base, extPairCfg{Name: "CEIGHT-A", App: app, Pair: pair, StabilityFee: sdk.MustNewDecFromStr("0.05"),
		ClosingFee: z, LiqPenalty: sdk.MustNewDecFromStr("0.1"), DrawDownFee: z, MinCr: sdk.MustNewDecFromStr("1.5"),
		DebtCeiling: sdk.NewInt(1000000000000000000), DebtFloor: sdk.NewInt(1), Stable: false, Active: true, OraclePrice: false,
		AssetOutPrice: 1000000, MinUsdValLeft: 1})
	// module accounts must exist as such before coins are sent to their addresses
	for _, m := range []string{"cmdx", lendtypes.ModuleName, collectortypes.ModuleName, lockertypes.ModuleName} {
		a.AccountKeeper.GetModuleAccount(base, m)
	}
	user := addrN(7)
	const vaultID, lockerID = uint64(1), uint64(1)
	const lendID, borrowID, poolID, lpairID = uint64(1), uint64(1), uint64(1), uint64(1)
	collKey := a.GetKey(collectortypes.StoreKey)
	cdc := a.AppCodec()

	for ci := 0; ci < ncases; ci++ {
		kind := []string{"V", "V", "VI", "K", "K", "IL", "IB", "IB"}[r.intn(8)]
		// draw everything first (VERIF_CASE replays exactly)
		amt, rate, gi, rgi := g.amt(), g.rate(), g.index(), g.index()
		var secs [4]int64
		for i := range secs {
			secs[i] = g.secs()
			if r.chance(25) {
				secs[i] = 0
			}
			if secs[i] > 20*c18Year {
				secs[i] %= 20 * c18Year
			}
		}
		ncalls := 1 + r.intn(4)
		appOK, pairFound, stableMint, rewardOK, collFound := !r.chance(6), !r.chance(6), r.chance(6), !r.chance(6), !r.chance(6)
		feeZero := r.chance(6)
		bhZero := r.chance(35)
		trFound := r.chance(60)
		tr0 := r.next() % 1000000000000000000
		intacc0 := int64(r.next() % 1000000)
		if r.chance(30) {
			intacc0 = 0
		}
		pairBtOff, negTime := int64(r.intn(100000)), r.chance(5)
		netfeeFound, netfeeBig, collFunded := !r.chance(6), !r.chance(10), !r.chance(6)
		change := r.chance(50)
		stable := r.chance(50)
		stableRate := g.rate()
		util := r.next() % 1000000000000000001
		if r.chance(20) {
			util = []uint64{0, 1000000000000000000, 800000000000000000}[r.intn(3)]
		}
		sbShare := r.intn(101)
		tia := int64(r.next() % 2000000)
		res0 := r.next() % 5000000000000000000
		resFound := r.chance(60)
		ia0 := r.next() % 9000000000000000000
		if only >= 0 && ci != only {
			continue
		}
		if amt > 1<<55 && (kind == "V" || kind == "K" || kind == "VI") {
			amt = amt >> 8 // keep AmountOut + InterestAccumulated + paid interest inside int64 over the history
		}
		tr.p("case %d %s", ci, kind)
		ctx, _ := base.CacheContext()
		fee := c18DecU(rate)
		if feeZero {
			fee = z
		}
		switch kind {
		case "V", "VI":
			if appOK {
				a.Rewardskeeper.SetAppByAppID(ctx, app)
			}
			ep, _ := a.AssetKeeper.GetPairsVault(ctx, ext)
			ep.StabilityFee, ep.IsStableMintVault, ep.BlockTime = fee, stableMint, time.Unix(now0-pairBtOff, 0).UTC()
			a.AssetKeeper.SetPairsVault(ctx, ep)
			v := vaulttypes.Vault{Id: vaultID, AppId: app, ExtendedPairVaultID: ext, Owner: user.String(), AmountIn: sdk.NewInt(amt),
				AmountOut: sdk.NewInt(amt), CreatedAt: time.Unix(now0, 0).UTC(), InterestAccumulated: sdk.NewInt(intacc0),
				ClosingFeeAccumulated: sdk.ZeroInt(), BlockHeight: 77, BlockTime: time.Unix(now0, 0).UTC()}
			if bhZero {
				v.BlockHeight = 0
			}
			if negTime {
				v.BlockTime = time.Unix(now0+1000000000, 0).UTC()
				v.BlockHeight = 77
			}
			a.VaultKeeper.SetVault(ctx, v)
			if kind == "VI" {
				a.VaultKeeper.SetAppExtendedPairVaultMappingData(ctx, vaulttypes.AppExtendedPairVaultMappingData{AppId: app, ExtendedPairId: ext,
					VaultIds: []uint64{vaultID}, TokenMintedAmount: sdk.NewInt(amt), CollateralLockedAmount: sdk.NewInt(amt)})
			}
			if trFound {
				a.Rewardskeeper.SetVaultInterestTracker(ctx, rewardstypes.VaultInterestTracker{VaultId: vaultID, AppMappingId: app, InterestAccumulated: c18DecU(tr0)})
			}
			now := now0
			for c := 0; c < ncalls; c++ {
				now += secs[c]
				h := int64(100 + c)
				cctx := at(ctx, now, h)
				vb, _ := a.VaultKeeper.GetVault(cctx, vaultID)
				t0, f0 := a.Rewardskeeper.GetVaultInterestTracker(cctx, vaultID, app)
				if kind == "V" {
					extID := ext
					if !pairFound {
						extID = 999
					}
					totalDebt := vb.AmountOut.Add(vb.InterestAccumulated)
					bt := vb.BlockTime.Unix()
					if vb.BlockHeight == 0 || ep.BlockTime.Unix() > bt {
						bt = ep.BlockTime.Unix()
					}
					var direct sdk.Dec = z
					var derr error
					dp, _ := safely(func() { direct, derr = a.Rewardskeeper.CalculationOfRewards(cctx, totalDebt, fee, bt) })
					dc := cls(dp, derr)
					if dc != "ok" {
						direct = z
					}
					var err error
					p, _ := safely(func() {
						err = a.Rewardskeeper.CalculateVaultInterest(cctx, app, extID, vaultID, totalDebt, vb.BlockHeight, vb.BlockTime.Unix())
					})
					va, _ := a.VaultKeeper.GetVault(cctx, vaultID)
					t1, f1 := a.Rewardskeeper.GetVaultInterestTracker(cctx, vaultID, app)
					xb, yb, fb := c18Bits(now, bt, fee)
					tr.p("o V %d %d %d %d %s %d %d %d %d %s %d %s %s %s %s %s %d %s %s %d %d %d %d %d", now, h, c18b2i(appOK), c18b2i(pairFound), fee.BigInt(),
						c18b2i(stableMint), ep.BlockTime.Unix(), vb.BlockHeight, vb.BlockTime.Unix(), totalDebt, c18b2i(f0), c18DecStr(t0.InterestAccumulated),
						vb.InterestAccumulated, cls(p, err), dc, direct.BigInt(), c18b2i(f1), c18DecStr(t1.InterestAccumulated), va.InterestAccumulated,
						va.BlockTime.Unix(), va.BlockHeight, xb, yb, fb)
				} else {
					// the caller (WasmUpdatePairsVault) passes the pair's old stability fee and block time
					bt := vb.BlockTime.Unix()
					if vb.BlockHeight == 0 || ep.BlockTime.Unix() > bt {
						bt = ep.BlockTime.Unix()
					}
					var direct sdk.Dec = z
					var derr error
					dp, _ := safely(func() { direct, derr = a.Rewardskeeper.CalculationOfRewards(cctx, vb.AmountOut, fee, bt) })
					dc := cls(dp, derr)
					if dc != "ok" {
						direct = z
					}
					p, _ := safely(func() {
						a.AssetKeeper.VaultIterateRewards(cctx, fee, ep.BlockHeight, ep.BlockTime.Unix(), app, ext, change)
					})
					va, _ := a.VaultKeeper.GetVault(cctx, vaultID)
					t1, f1 := a.Rewardskeeper.GetVaultInterestTracker(cctx, vaultID, app)
					// the caller (WasmUpdatePairsVault) then moves the pair's time base to now
					if change {
						ep.BlockHeight = h
					} else {
						ep.BlockHeight = 0
					}
					oldPairBt := ep.BlockTime.Unix()
					ep.BlockTime = cctx.BlockTime()
					a.AssetKeeper.SetPairsVault(ctx, ep)
					xb, yb, fb := c18Bits(now, bt, fee)
					tr.p("o VI %d %d %s %d %d %d %d %s %d %s %s %s %s %s %d %s %s %d %d %d %d %d", now, h, fee.BigInt(), oldPairBt, c18b2i(change),
						vb.BlockHeight, vb.BlockTime.Unix(), vb.AmountOut, c18b2i(f0), c18DecStr(t0.InterestAccumulated), vb.InterestAccumulated,
						cls(p, nil), dc, direct.BigInt(), c18b2i(f1), c18DecStr(t1.InterestAccumulated), va.InterestAccumulated,
						va.BlockTime.Unix(), va.BlockHeight, xb, yb, fb)
				}
			}
		case "K":
			if rewardOK {
				a.Rewardskeeper.SetReward(ctx, rewardstypes.InternalRewards{AppMappingId: app, AssetId: debt})
			}
			collBt := now0 - pairBtOff
			if collFound {
				rec := collectortypes.CollectorLookupTableData{AppId: app, CollectorAssetId: debt, SecondaryAssetId: gov, SurplusThreshold: sdk.NewInt(1),
					DebtThreshold: sdk.NewInt(1), LockerSavingRate: fee, LotSize: sdk.NewInt(1), BidFactor: sdk.MustNewDecFromStr("0.01"),
					DebtLotSize: sdk.NewInt(1), BlockHeight: 5, BlockTime: time.Unix(collBt, 0).UTC()}
				ctx.KVStore(collKey).Set(collectortypes.CollectorLookupTableMappingKey(app, debt), cdc.MustMarshal(&rec))
			}
			l := lockertypes.Locker{LockerId: lockerID, Depositor: user.String(), ReturnsAccumulated: sdk.NewInt(intacc0), NetBalance: sdk.NewInt(amt),
				CreatedAt: time.Unix(now0, 0).UTC(), AssetDepositId: debt, IsLocked: false, AppId: app, BlockHeight: 77, BlockTime: time.Unix(now0, 0).UTC()}
			if bhZero {
				l.BlockHeight = 0
			}
			if negTime {
				l.BlockTime, l.BlockHeight = time.Unix(now0+1000000000, 0).UTC(), 77
			}
			a.LockerKeeper.SetLocker(ctx, l)
			a.LockerKeeper.SetLockerLookupTable(ctx, lockertypes.LockerLookupTableData{AppId: app, AssetId: debt, LockerIds: []uint64{lockerID}, DepositedAmount: sdk.NewInt(amt)})
			if trFound {
				a.Rewardskeeper.SetLockerRewardTracker(ctx, rewardstypes.LockerRewardsTracker{LockerId: lockerID, AppMappingId: app, RewardsAccumulated: c18DecU(tr0)})
			}
			if netfeeFound {
				nf := sdk.NewInt(3)
				if netfeeBig {
					nf = sdk.NewIntFromUint64(1 << 62)
				}
				if err := a.CollectorKeeper.SetNetFeeCollectedData(ctx, app, debt, nf); err != nil {
					t.Fatalf("SetNetFeeCollectedData: %v", err)
				}
			}
			if collFunded {
				fund(t, a, ctx, modAddr(collectortypes.ModuleName), sdk.NewCoins(sdk.NewCoin("uc18d", sdk.NewIntFromUint64(1<<62))))
			} else {
				fund(t, a, ctx, modAddr(collectortypes.ModuleName), sdk.NewCoins(sdk.NewCoin("uc18d", sdk.NewInt(2))))
			}
			now := now0
			for c := 0; c < ncalls; c++ {
				now += secs[c]
				h := int64(100 + c)
				cctx := at(ctx, now, h)
				lb, _ := a.LockerKeeper.GetLocker(cctx, lockerID)
				t0, f0 := a.Rewardskeeper.GetLockerRewardTracker(cctx, lockerID, app)
				nf0, nff0 := a.CollectorKeeper.GetNetFeeCollectedData(cctx, app, debt)
				cb0 := bal(a, cctx, modAddr(collectortypes.ModuleName), "uc18d")
				lm0 := bal(a, cctx, modAddr(lockertypes.ModuleName), "uc18d")
				lk0, _ := a.LockerKeeper.GetLockerLookupTable(cctx, app, debt)
				bt := lb.BlockTime.Unix()
				if lb.BlockHeight == 0 {
					bt = collBt
				}
				var direct sdk.Dec = z
				var derr error
				dp, _ := safely(func() { direct, derr = a.Rewardskeeper.CalculationOfRewards(cctx, lb.NetBalance, fee, bt) })
				dc := cls(dp, derr)
				if dc != "ok" {
					direct = z
				}
				// the message handlers run on a branch of the store that is dropped on error: do the same
				bctx, write := cctx.CacheContext()
				var err error
				p, _ := safely(func() {
					err = a.Rewardskeeper.CalculateLockerRewards(bctx, app, debt, lockerID, user.String(), lb.NetBalance, lb.BlockHeight, lb.BlockTime.Unix())
				})
				if !p && err == nil {
					write()
				}
				la, _ := a.LockerKeeper.GetLocker(cctx, lockerID)
				t1, f1 := a.Rewardskeeper.GetLockerRewardTracker(cctx, lockerID, app)
				nf1, _ := a.CollectorKeeper.GetNetFeeCollectedData(cctx, app, debt)
				lm1 := bal(a, cctx, modAddr(lockertypes.ModuleName), "uc18d")
				lk1, _ := a.LockerKeeper.GetLockerLookupTable(cctx, app, debt)
				tot, _ := a.LockerKeeper.GetLockerTotalRewardsByAssetAppWise(cctx, app, debt)
				totS := "0"
				if !tot.TotalRewards.IsNil() {
					totS = tot.TotalRewards.String()
				}
				nfs := func(d collectortypes.AppAssetIdToFeeCollectedData) string {
					if d.NetFeesCollected.IsNil() {
						return "0"
					}
					return d.NetFeesCollected.String()
				}
				xb, yb, fb := c18Bits(now, bt, fee)
				tr.p("o K %d %d %d %d %s %d %d %d %s %d %s %s %s %d %s %s %s %s %s %d %s %s %s %s %d %d %s %s %s %d %d %d", now, h, c18b2i(rewardOK), c18b2i(collFound),
					fee.BigInt(), collBt, lb.BlockHeight, lb.BlockTime.Unix(), lb.NetBalance, c18b2i(f0), c18DecStr(t0.RewardsAccumulated), lb.NetBalance,
					lb.ReturnsAccumulated, c18b2i(nff0), nfs(nf0), cb0, cls(p, err), dc, direct.BigInt(), c18b2i(f1), c18DecStr(t1.RewardsAccumulated),
					la.NetBalance, la.ReturnsAccumulated, nfs(nf1), la.BlockTime.Unix(), la.BlockHeight, lk1.DepositedAmount.Sub(lk0.DepositedAmount), totS,
					lm1.Sub(lm0), xb, yb, fb)
			}
		case "IL", "IB":
			// lend fixture: asset `debt` in pool 1 (module "cmdx"), cAsset `cas`
			B := util
			M := 1000000000000000000 - B
			SB := B / 100 * uint64(sbShare)
			if M > 0 {
				fund(t, a, ctx, modAddr("cmdx"), sdk.NewCoins(sdk.NewCoin("uc18d", sdk.NewIntFromUint64(M))))
			}
			fund(t, a, ctx, modAddr("cmdx"), sdk.NewCoins(sdk.NewCoin("uc18x", sdk.NewIntFromUint64(1<<62))))
			fund(t, a, ctx, modAddr(lendtypes.ModuleName), sdk.NewCoins(sdk.NewCoin("uc18d", sdk.NewIntFromUint64(1<<62))))
			a.LendKeeper.SetPool(ctx, lendtypes.Pool{PoolID: poolID, ModuleName: "cmdx", CPoolName: "C18"})
			a.LendKeeper.SetAssetStatsByPoolIDAndAssetID(ctx, lendtypes.PoolAssetLBMapping{PoolID: poolID, AssetID: debt,
				TotalBorrowed: sdk.NewIntFromUint64(B - SB), TotalStableBorrowed: sdk.NewIntFromUint64(SB), TotalLend: sdk.ZeroInt(),
				TotalInterestAccumulated: sdk.NewInt(tia), LendApr: z, BorrowApr: z, StableBorrowApr: z, UtilisationRatio: z})
			rp := [14]uint64{debt, 800000000000000000, 2000000000000000, 80000000000000000, 1500000000000000000, 30000000000000000, 50000000000000000,
				500000000000000000, 700000000000000000, 75000000000000000, 75000000000000000, 650000000000000000, 200000000000000000, cas}
			rp[1] = []uint64{800000000000000000, 500000000000000000, 650000000000000000}[int(rate%3)]
			rp[12] = []uint64{200000000000000000, 100000000000000000, 1000000000000000000, 1}[int(gi%4)]
			d := c18DecU
			a.LendKeeper.SetAssetRatesParams(ctx, lendtypes.AssetRatesParams{AssetID: rp[0], UOptimal: d(rp[1]), Base: d(rp[2]), Slope1: d(rp[3]),
				Slope2: d(rp[4]), EnableStableBorrow: true, StableBase: d(rp[5]), StableSlope1: d(rp[6]), StableSlope2: d(rp[7]), Ltv: d(rp[11]),
				LiquidationThreshold: d(rp[8]), LiquidationPenalty: d(rp[10]), LiquidationBonus: d(rp[9]), ReserveFactor: d(rp[12]), CAssetID: rp[13]})
			tr.p("params %d %d %d %d %d %d %d %d %d %d %d %d %d %d", rp[0], rp[1], rp[2], rp[3], rp[4], rp[5], rp[6], rp[7], rp[8], rp[9], rp[10], rp[11], rp[12], rp[13])
			tr.p("stats %d %d %d", M, B-SB, SB)
			if amt > 1<<53 {
				amt = amt >> 10
			}
			if kind == "IL" {
				last := now0
				if negTime {
					last = now0 + 1000000000
				}
				a.LendKeeper.SetLend(ctx, lendtypes.LendAsset{ID: lendID, AssetID: debt, PoolID: poolID, Owner: user.String(), AmountIn: sdk.NewCoin("uc18d", sdk.NewInt(amt)),
					LendingTime: time.Unix(now0, 0).UTC(), AvailableToBorrow: sdk.NewInt(amt), AppID: app, GlobalIndex: c18DecU(gi),
					LastInteractionTime: time.Unix(last, 0).UTC(), CPoolName: "C18", TotalRewards: sdk.NewInt(intacc0)})
				if trFound {
					a.LendKeeper.SetLendRewardTracker(ctx, lendtypes.LendRewardsTracker{LendingId: lendID, RewardsAccumulated: c18DecU(tr0)})
				}
				now := now0
				for c := 0; c < ncalls; c++ {
					now += secs[c]
					cctx := at(ctx, now, int64(100+c))
					lb, _ := a.LendKeeper.GetLend(cctx, lendID)
					t0, f0 := a.LendKeeper.GetLendRewardTracker(cctx, lendID)
					st0, _ := a.LendKeeper.GetAssetStatsByPoolIDAndAssetID(cctx, poolID, debt)
					mb0 := a.LendKeeper.ModuleBalance(cctx, "cmdx", "uc18d")
					// the accrual the site must add, by the real functions on the operands it must select
					var dnew sdk.Dec = z
					var derr error
					dp, _ := safely(func() {
						apr, _ := a.LendKeeper.GetLendAPRByAssetIDAndPoolID(cctx, poolID, debt)
						dnew, _, derr = a.LendKeeper.CalculateLendReward(cctx, lb.AmountIn.Amount.String(), apr, lb)
					})
					dc := cls(dp, derr)
					if dc != "ok" {
						dnew = z
					}
					var idx sdk.Dec = z
					var err error
					bctx, write := cctx.CacheContext()
					p, pmsg := safely(func() { idx, err = a.LendKeeper.IterateLends(bctx, lendID) })
					c1 := cls(p, err)
					if p {
						tr.p("# IterateLends panic: %.200s", pmsg)
					} else if err != nil {
						tr.p("# IterateLends error: %.200s", err.Error())
					}
					if c1 == "ok" {
						write()
					} else {
						idx = z
					}
					la, _ := a.LendKeeper.GetLend(cctx, lendID)
					t1, f1 := a.LendKeeper.GetLendRewardTracker(cctx, lendID)
					tr.p("o IL %d %s %s %s %d %s %s %d %s %s %s %s %s %s %d %s %s %s %s %s", now, mb0, st0.TotalBorrowed, st0.TotalStableBorrowed,
						lb.LastInteractionTime.Unix(), lb.AmountIn.Amount, lb.GlobalIndex.BigInt(),
						c18b2i(f0), c18DecStr(t0.RewardsAccumulated), lb.AvailableToBorrow, lb.TotalRewards, st0.TotalInterestAccumulated,
						c1, c18DecStr(idx), c18b2i(f1), c18DecStr(t1.RewardsAccumulated), la.AvailableToBorrow, la.TotalRewards, dc, c18DecStr(dnew))
					// the callers store the returned index and the interaction time (keeper.go UpdateLendStats & co.)
					if c1 == "ok" && !idx.IsNil() && idx.IsPositive() {
						la.GlobalIndex = idx
					}
					if c1 == "ok" {
						la.LastInteractionTime = cctx.BlockTime()
						a.LendKeeper.SetLend(ctx, la)
					}
				}
			} else {
				a.LendKeeper.SetLendPair(ctx, lendtypes.Extended_Pair{Id: lpairID, AssetIn: coll, AssetOut: debt, IsInterPool: false, AssetOutPoolID: poolID, MinUsdValueLeft: 1})
				last := now0
				if negTime {
					last = now0 + 1000000000
				}
				a.LendKeeper.SetBorrow(ctx, lendtypes.BorrowAsset{ID: borrowID, LendingID: lendID, IsStableBorrow: stable, PairID: lpairID,
					AmountIn: sdk.NewCoin("uc18c", sdk.NewInt(amt)), AmountOut: sdk.NewCoin("uc18d", sdk.NewInt(amt)), BridgedAssetAmount: sdk.NewCoin("uc18d", sdk.ZeroInt()),
					BorrowingTime: time.Unix(now0, 0).UTC(), StableBorrowRate: c18DecU(stableRate), InterestAccumulated: c18DecU(ia0), GlobalIndex: c18DecU(gi),
					ReserveGlobalIndex: c18DecU(rgi), LastInteractionTime: time.Unix(last, 0).UTC(), CPoolName: "C18"})
				if resFound {
					a.LendKeeper.SetBorrowInterestTracker(ctx, lendtypes.BorrowInterestTracker{BorrowingId: borrowID, ReservePoolInterest: c18DecU(res0)})
				}
				now := now0
				for c := 0; c < ncalls; c++ {
					now += secs[c]
					cctx := at(ctx, now, int64(100+c))
					bb, _ := a.LendKeeper.GetBorrow(cctx, borrowID)
					r0, rf0 := a.LendKeeper.GetBorrowInterestTracker(cctx, borrowID)
					st0, _ := a.LendKeeper.GetAssetStatsByPoolIDAndAssetID(cctx, poolID, debt)
					mb0 := a.LendKeeper.ModuleBalance(cctx, "cmdx", "uc18d")
					var avg, rr, apr sdk.Dec = z, z, z
					var e1, e2, e3 error
					p1, _ := safely(func() { avg, e1 = a.LendKeeper.GetAverageBorrowRate(cctx, poolID, debt) })
					p2, _ := safely(func() { rr, e2 = a.LendKeeper.GetReserveRate(cctx, poolID, debt) })
					p3, _ := safely(func() { apr, e3 = a.LendKeeper.GetBorrowAPRByAssetID(cctx, poolID, debt, bb.IsStableBorrow) })
					fix := func(c string, d sdk.Dec) string {
						if c != "ok" || d.IsNil() {
							return "0"
						}
						return d.BigInt().String()
					}
					ca, cr, cp := cls(p1, e1), cls(p2, e2), cls(p3, e3)
					var i1, i2 sdk.Dec = z, z
					var err error
					bctx, write := cctx.CacheContext()
					p, _ := safely(func() { i1, i2, err = a.LendKeeper.IterateBorrow(bctx, borrowID) })
					c1 := cls(p, err)
					if c1 == "ok" {
						write()
					} else {
						i1, i2 = z, z
					}
					ba, _ := a.LendKeeper.GetBorrow(cctx, borrowID)
					r1, rf1 := a.LendKeeper.GetBorrowInterestTracker(cctx, borrowID)
					tr.p("o IB %d %s %s %s %d %d %s %s %s %s %s %d %s %s %s %s %s %s %s %s %s %s %s %d %s", now, mb0, st0.TotalBorrowed, st0.TotalStableBorrowed,
						bb.LastInteractionTime.Unix(), c18b2i(bb.IsStableBorrow), bb.AmountOut.Amount,
						bb.StableBorrowRate.BigInt(), bb.GlobalIndex.BigInt(), bb.ReserveGlobalIndex.BigInt(), bb.InterestAccumulated.BigInt(), c18b2i(rf0), c18DecStr(r0.ReservePoolInterest),
						ca, fix(ca, avg), cr, fix(cr, rr), cp, fix(cp, apr), c1, c18DecStr(i1), c18DecStr(i2), ba.InterestAccumulated.BigInt(), c18b2i(rf1), c18DecStr(r1.ReservePoolInterest))
					// the callers store the returned indices and the interaction time
					if c1 == "ok" {
						if !i1.IsNil() && i1.IsPositive() {
							ba.GlobalIndex = i1
						}
						if !i2.IsNil() && i2.IsPositive() {
							ba.ReserveGlobalIndex = i2
						}
						ba.LastInteractionTime = cctx.BlockTime()
						a.LendKeeper.SetBorrow(ctx, ba)
					}
				}
			}
		}
	}
}
