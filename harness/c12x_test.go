//go:build verif

package verifharness

import (
	"crypto/sha256"
	"encoding/hex"
	"fmt"
	"os"
	"strings"
	"testing"

	sdk "github.com/cosmos/cosmos-sdk/types"

	chain "github.com/comdex-official/comdex/app"
)

// c12xOwnerDigest: c12VictimDigest plus the records the extended messages can touch for a user: his
// shutdown deposit and his external reward / gauge bookkeeping is keyed by id, not by user, so only the
// deposit is added.
func c12xOwnerDigest(a *chain.App, ctx sdk.Context, v *c12World) string {
	h := sha256.New()
	fmt.Fprintln(h, c12VictimDigest(a, ctx, v))
	d, f := a.EsmKeeper.GetUserDepositByApp(ctx, v.Owner.String(), v.VaultApp)
	fmt.Fprintln(h, "esmdep", f, d.String())
	return hex.EncodeToString(h.Sum(nil))[:24]
}

// messages of a history that would take the work away from the case's own message
func c12xKeepsWork(m c12xMsg) bool {
	switch m.Handler {
	case "liquidation.MsgLiquidateVault", "liquidation.MsgLiquidateBorrow", "liquidationsV2.MsgLiquidateInternalKeeper",
		"esm.ExecuteESM", "auctionsV2.MsgCancelLimitBid", "tokenmint.MsgMintNewTokens", "collector.Deposit":
		return false
	}
	return true
}

// TestC12X: the messages the plain authority matrix does not send (liquidation of both generations,
// bids on running auctions of both generations, reserve funds, external-keeper liquidation, shutdown
// deposit / execution / redemption, reward programmes, the collector's refund deposit, the genesis
// mint) plus the four auctionsV2 messages on the state with unhealthy positions and running auctions:
// every message, naming (where it names anything of a user) the positions of EVERY one of the three
// owners, signed by the owner, by each of the two other owners, by a funded account that owns nothing
// and by a fresh funded account.  Observed: result class, digest of all DeFi stores + bank, digest of the
// named owner's balances and records, digest of the balances and records of the position owners that
// are neither the signer nor the named owner (bystanders).
func TestC12X(t *testing.T) {
	c12SetPrefixes()
	a, base := newApp(t)
	tr := newTracer(t, "c12x.trace")
	defer tr.close()
	only := envInt("VERIF_CASE", -1)
	hist := envInt("VERIF_HIST", 1)
	x := c12xSetup(t, a, base)
	for _, n := range x.Notes {
		tr.p("# fixture-note %s", strings.ReplaceAll(n, "\n", " "))
	}
	tr.p("# auctions v2-dutch-vault %d v2-dutch-borrow %d v2-surplus %d v2-debt %d v1-dutch %d v1-lend-dutch %d v1-surplus %d v1-debt %d shutdown-state %s",
		x.V2DutchVault, x.V2DutchBorrow, x.V2Surplus, x.V2Debt, x.V1Dutch, x.V1LendDutch, x.V1Surplus, x.V1Debt, b2s(x.HasE))
	views := x.Views
	const histMax = 16
	if hist > histMax {
		hist = histMax
	}
	focus := map[string]bool{}
	for _, h := range strings.Split(os.Getenv("VERIF_FOCUS"), ",") {
		if h = strings.TrimSpace(h); h != "" {
			focus[h] = true
		}
	}
	if len(focus) > 0 && only < 0 {
		tr.p("# focus %s", os.Getenv("VERIF_FOCUS"))
	}
	nmsgs := len(c12xMessages(x, views[0], views[0].Owner))
	nsig := len(views) + 2
	for oi, v := range views {
		for mi := 0; mi < nmsgs; mi++ {
			proto := c12xMessages(x, v, v.Owner)[mi]
			if len(focus) > 0 && only < 0 && !focus[proto.Handler] {
				continue
			}
			for si := 0; si < nsig; si++ {
				for hv := 0; hv < histMax; hv++ {
					id := ((oi*nmsgs+mi)*nsig+si)*histMax + hv
					if only >= 0 && id != only {
						continue
					}
					if only < 0 && hv >= hist {
						break
					}
					cr := newRng(seed()*1000003 + uint64(id))
					third := addrN(100 + cr.intn(50))
					hlen := 0
					if hv > 0 {
						hlen = 1 + cr.intn(3)
					}
					type hstep struct{ mi, who int }
					hsteps := make([]hstep, hlen)
					for i := range hsteps {
						hsteps[i] = hstep{cr.intn(nmsgs), cr.intn(len(views) + 1)}
					}
					ctx := x.c12xBranch(proto)
					signer := v.Owner
					var sview *c12World
					switch {
					case si == 0:
						sview = v
					case si < len(views):
						sview = views[(oi+si)%len(views)]
						signer = sview.Owner
					case si == len(views):
						signer = v.Other1
					default:
						signer = third
						fund(t, a, ctx, third, a.BankKeeper.GetAllBalances(ctx, v.Other2))
					}
					// a reachable state: a short history of other messages of this list (on the same state) by the owners / the keeper
					nok := 0
					var hnames []string
					for _, hs := range hsteps {
						who := x.Keeper
						if hs.who < len(views) {
							who = views[hs.who].Owner
						}
						hm := c12xMessages(x, v, who)[hs.mi]
						if hm.State != proto.State || !c12xKeepsWork(hm) {
							continue
						}
						hnames = append(hnames, hm.Handler+"/"+hm.Variant)
						if cls, _, _ := execMsg(a, ctx, hm.Msg); cls == "ok" {
							nok++
						}
					}
					m := c12xMessages(x, v, signer)[mi]
					refCtx, _ := ctx.CacheContext()
					ownerCls, _, _ := execMsg(a, refCtx, c12xMessages(x, v, v.Owner)[mi].Msg)
					vb := c12xOwnerDigest(a, ctx, v)
					var by []*c12World
					for _, o := range views {
						if o != v && !o.Owner.Equals(signer) {
							by = append(by, o)
						}
					}
					bb := ""
					for _, o := range by {
						bb += c12xOwnerDigest(a, ctx, o)
					}
					cls, kind, changed := c12RunMsg(a, ctx, m.Msg)
					victimChanged := si != 0 && vb != c12xOwnerDigest(a, ctx, v)
					ba := ""
					for _, o := range by {
						ba += c12xOwnerDigest(a, ctx, o)
					}
					tr.p("case %d posx %s %s %s %d %d %s %s %s %s %d %s %s %s", id, m.Handler, m.Variant, m.State, si, nok, ownerCls, cls, kind, b2s(changed),
						oi, b2s(sview != nil), b2s(victimChanged), b2s(bb != ba))
					tr.p("  msg %T %s", m.Msg, m.Msg.String())
					tr.p("  named-owner %d %s: vault %d borrow %d (on lend %d) limit bid (debt %d collateral %d premium %s)", oi, v.Owner, v.VaultID, v.BorrowID, v.BorrowLendID,
						v.BidDebtAsset, v.BidCollateralAsset, v.BidPremium)
					if si != 0 {
						tr.p("  signer %s (signer class %d: 1,2 = another position owner, 3 = funded account owning nothing, 4 = fresh funded account)", signer, si)
					}
					for _, hn := range hnames {
						tr.p("  history %s", hn)
					}
				}
			}
		}
	}
	// ---------- custom wasm messages with payloads that have an effect on this state ----------
	c12xWasmCases(t, a, x, tr, len(views)*nmsgs*nsig*histMax, only)
}
