//go:build verif

package verifharness

import (
	"fmt"
	"strings"
	"testing"
	"time"

	sdk "github.com/cosmos/cosmos-sdk/types"

	chain "github.com/comdex-official/comdex/app"
	auctypes "github.com/comdex-official/comdex/x/auctionsV2/types"
	liqtypes "github.com/comdex-official/comdex/x/liquidationsV2/types"
	vaulttypes "github.com/comdex-official/comdex/x/vault/types"
)

// ---------------------------------------------------------------------------------------------
// shared pieces

func c10Dec(s string) sdk.Dec { return sdk.MustNewDecFromStr(s) }

type c10Params struct {
	premium, disc, ki, vaultPenalty, extPenalty, extBonus sdk.Dec
	dur, minUsd                                           uint64
	dc, dd                                                int64 // asset Decimals (10^6 ...)
}

// c10Fixture creates app, two assets, pair, extended pair, whitelisting and auction params
type c10Fixture struct {
	app, assetC, assetD, pair, extPair uint64
	denomC, denomD                     string
}

func c10Setup(t *testing.T, a *chain.App, ctx sdk.Context, p c10Params, withVaultPair bool) c10Fixture {
	var f c10Fixture
	f.app = addAppRecord(t, a, ctx, "harbor")
	f.denomC, f.denomD = "ucoll", "udebt"
	f.assetC = addAsset(t, a, ctx, "COLL", f.denomC, p.dc, true, false)
	f.assetD = addAsset(t, a, ctx, "DEBT", f.denomD, p.dd, true, true)
	if withVaultPair {
		f.pair = addPair(t, a, ctx, f.assetC, f.assetD)
		f.extPair = addExtPair(t, a, ctx, extPairCfg{Name: "COLL-A", App: f.app, Pair: f.pair, StabilityFee: sdk.ZeroDec(), ClosingFee: sdk.ZeroDec(),
			LiqPenalty: p.vaultPenalty, DrawDownFee: sdk.ZeroDec(), MinCr: sdk.NewDecWithPrec(15, 1),
			DebtCeiling: sdk.NewIntFromUint64(1 << 62), DebtFloor: sdk.NewInt(1), Active: true, OraclePrice: true, AssetOutPrice: 1000000, MinUsdValLeft: 0})
	}
	dp := liqtypes.DutchAuctionParam{Premium: p.premium, Discount: p.disc, DecrementFactor: sdk.NewInt(1)}
	ep := liqtypes.EnglishAuctionParam{DecrementFactor: sdk.NewInt(1)}
	a.NewliqKeeper.SetLiquidationWhiteListing(ctx, liqtypes.LiquidationWhiteListing{AppId: f.app, Initiator: true, IsDutchActivated: true,
		DutchAuctionParam: &dp, IsEnglishActivated: true, EnglishAuctionParam: &ep, KeeeperIncentive: p.ki})
	a.NewaucKeeper.SetAuctionParams(ctx, auctypes.AuctionParams{AuctionDurationSeconds: p.dur, Step: c10Dec("0.1"), WithdrawalFee: sdk.ZeroDec(),
		ClosingFee: sdk.ZeroDec(), MinUsdValueLeft: p.minUsd, BidFactor: c10Dec("0.1"), LiquidationPenalty: p.extPenalty, AuctionBonus: p.extBonus})
	return f
}

func c10At(ctx sdk.Context, sec int64) sdk.Context {
	return ctx.WithBlockTime(baseTime.Add(time.Duration(sec) * time.Second)).WithBlockHeight(10 + sec)
}

func c10Unix(tm time.Time) int64 { return tm.Unix() - baseTime.Unix() }

// the whole-percent discount of a Dutch auction's posted price against the oracle price in its record, as
// LimitOrderBid computes it; ok = the posted price is below the oracle price
func c10Discount(au auctypes.Auction) (sdk.Int, bool) {
	if !au.AuctionType || au.CollateralTokenOraclePrice.IsNil() || au.CollateralTokenAuctionPrice.IsNil() ||
		!au.CollateralTokenOraclePrice.GT(au.CollateralTokenAuctionPrice) {
		return sdk.ZeroInt(), false
	}
	return au.CollateralTokenOraclePrice.Sub(au.CollateralTokenAuctionPrice).Quo(au.CollateralTokenOraclePrice).
		Mul(sdk.NewDecFromInt(sdk.NewInt(100))).TruncateInt(), true
}

// ---------------------------------------------------------------------------------------------
// workload 1: the price function, directly and through UpdateDutchAuction

func TestC10Price(t *testing.T) {
	a, base := newApp(t)
	tr := newTracer(t, "c10price.trace")
	defer tr.close()
	r := newRng(seed())
	ncases := envInt("VERIF_CASES", 200)
	only := envInt("VERIF_CASE", -1)

	premiums := []string{"1.2", "1.0", "1.5", "1.15", "1.333333333333333333", "2.0"}
	discs := []string{"0.7", "0.65", "0.5", "0.9", "0.833333333333333333", "0.99", "0.01", "0.333333333333333333", "0.75"}
	durs := []uint64{10, 60, 77, 3600, 1000, 1, 7, 21600, 86400, 33}
	twas := []uint64{2000000, 1500000, 12345678, 3, 1000000, 1, 999999, 65000000000, 7}

	for ci := 0; ci < ncases; ci++ {
		var p c10Params
		if ci == 0 { // the witness of Properties/C10.v:c10_end_price_refuted
			p.premium, p.disc, p.dur = c10Dec("1.2"), c10Dec("0.7"), 10
		} else {
			p.premium, p.disc, p.dur = c10Dec(premiums[r.intn(len(premiums))]), c10Dec(discs[r.intn(len(discs))]), durs[r.intn(len(durs))]
		}
		twa := twas[r.intn(len(twas))]
		if ci == 0 {
			twa = 1000000
		}
		if r.chance(15) {
			p.dur = uint64(1 + r.intn(5000))
		}
		if r.chance(10) {
			p.disc = sdk.NewDecWithPrec(int64(1+r.intn(999)), 3)
		}
		nt := 4 + r.intn(8)
		ts := []int64{0, 1, int64(p.dur) - 1, int64(p.dur)}
		for i := 0; i < nt; i++ {
			ts = append(ts, int64(r.intn(int(p.dur)+1)))
		}
		// a few direct calls with arbitrary (tau, t)
		type direct struct{ tau, t int64 }
		var ds []direct
		for i := 0; i < 3; i++ {
			tau := int64(1 + r.intn(100000))
			ds = append(ds, direct{tau, int64(r.intn(int(tau) + 1))})
		}
		if only >= 0 && ci != only {
			continue
		}
		p.ki, p.vaultPenalty, p.extPenalty, p.extBonus = sdk.ZeroDec(), sdk.ZeroDec(), sdk.ZeroDec(), sdk.ZeroDec()
		p.dc, p.dd = 1000000, 1000000
		ctx, _ := base.CacheContext()
		f := c10Setup(t, a, ctx, p, false)
		setPrice(a, ctx, f.assetC, twa, true)
		setPrice(a, ctx, f.assetD, 1000000, true)
		var init sdk.Dec
		if pn, _ := safely(func() { init = a.NewaucKeeper.GetCollalteralTokenInitialPrice(sdk.NewIntFromUint64(twa), p.premium) }); pn {
			continue
		}
		endp := a.NewaucKeeper.GetCollateralTokenEndPrice(init, p.disc)
		tr.p("case %d %s %s %d %s %d %s", ci, p.premium.BigInt(), p.disc.BigInt(), p.dur, init.BigInt(), twa, endp.BigInt())
		// sort times ascending (simple insertion sort, small)
		for i := 1; i < len(ts); i++ {
			for j := i; j > 0 && ts[j] < ts[j-1]; j-- {
				ts[j], ts[j-1] = ts[j-1], ts[j]
			}
		}
		for _, el := range ts {
			if el < 0 {
				continue
			}
			au := auctypes.Auction{AuctionId: 1, AppId: f.app, AuctionType: true, CollateralAssetId: f.assetC, DebtAssetId: f.assetD,
				CollateralToken: sdk.NewCoin(f.denomC, sdk.NewInt(1000)), DebtToken: sdk.NewCoin(f.denomD, sdk.NewInt(1000)),
				CollateralTokenAuctionPrice: init, CollateralTokenInitialPrice: init, CollateralTokenOraclePrice: sdk.ZeroDec(), DebtTokenOraclePrice: sdk.ZeroDec(),
				BonusAmount: sdk.ZeroInt(), LockedVaultId: 99, StartTime: baseTime, EndTime: baseTime.Add(time.Duration(p.dur) * time.Second)}
			var err error
			pn, _ := safely(func() { err = a.NewaucKeeper.UpdateDutchAuction(c10At(ctx, el), au) })
			class, price := "ok", "0"
			if pn {
				class = "panic"
			} else if err != nil {
				class = "err"
			} else {
				got, _ := a.NewaucKeeper.GetAuction(ctx, 1)
				price = got.CollateralTokenAuctionPrice.BigInt().String()
			}
			tr.p("p %d %s %s", el, class, price)
		}
		for _, d := range ds {
			var pr sdk.Dec
			pn, _ := safely(func() {
				pr = a.NewaucKeeper.GetPriceFromLinearDecreaseFunction(init, sdk.NewInt(d.tau), sdk.NewInt(d.t))
			})
			if pn {
				tr.p("f %d %d panic 0", d.tau, d.t)
			} else {
				tr.p("f %d %d ok %s", d.tau, d.t, pr.BigInt())
			}
		}
	}
}

// ---------------------------------------------------------------------------------------------
// workload 2: seized positions, bids, block ticks through the real keepers

type c10Auction struct {
	id     uint64
	locked uint64
}

type c10PlanOp struct {
	kind                int // 0 bid, 1 tick, 2 start second, 3 limit-bid deposit
	who, class          int
	f1, f2              int
	dtClass, priceClass int
	lit                 bool  // corpus cases: literal values instead of classes
	v1, v2              int64 // lit: kind 0: amount = v1; kind 1: dt = v1, prices unchanged; kind 3: premium = v1, amount = v2
}

// everything that defines one TestC10 case
type c10Case struct {
	p                          c10Params
	kinds                      [2]int // 0 vault via keeper msg, 1 vault (no keeper), 2 external
	twaC0, twaD                uint64
	collUnits                  [2]int64 // in thousandths of a whole token
	crCreate, dropTo, extRatio [2]int64 // % CR at creation / after the price drop (vault kinds); external: debt value / collateral value, %
	reserveClass               int      // 0 none, 1 tiny (1000), 2/3 big
	plan                       []c10PlanOp
}

func c10Draw(r *rng) c10Case {
	premiums := []string{"1.2", "1.0", "1.5", "1.15"}
	discs := []string{"0.7", "0.65", "0.5", "0.9", "0.833333333333333333"}
	durs := []uint64{10, 60, 77, 3600, 1000}
	var cs c10Case
	p := &cs.p
	p.premium, p.disc, p.dur = c10Dec(premiums[r.intn(len(premiums))]), c10Dec(discs[r.intn(len(discs))]), durs[r.intn(len(durs))]
	p.minUsd = r.pickU(0, 100000, 1000000, 100000)
	p.ki = c10Dec([]string{"0", "0.1", "0.005", "0.1"}[r.intn(4)])
	p.vaultPenalty = c10Dec([]string{"0.12", "0", "0.05", "0.15"}[r.intn(4)])
	p.extPenalty = c10Dec([]string{"0.1", "0", "0.03"}[r.intn(3)])
	p.extBonus = c10Dec([]string{"0", "0.05", "0.1", "0.05"}[r.intn(4)])
	cs.kinds = [2]int{r.intn(3), r.intn(3)}
	p.dc, p.dd = 1000000, 1000000
	allExternal := cs.kinds[0] == 2 && cs.kinds[1] == 2
	if allExternal && r.chance(50) {
		p.dc = r.pickI(1000000, 100000000, 1000000000000000000)
		p.dd = r.pickI(1000000, 1000000000000000000, 1000000)
	}
	cs.twaC0 = r.pickU(2000000, 1500000, 12345678, 1000000, 250000)
	cs.twaD = r.pickU(1000000, 1000000, 990000, 1013000)
	cs.collUnits = [2]int64{int64(1 + r.intn(5000)), int64(1 + r.intn(5000))}
	cs.crCreate = [2]int64{int64(160 + r.intn(90)), int64(160 + r.intn(90))}
	cs.dropTo = [2]int64{int64(90 + r.intn(58)), int64(90 + r.intn(58))}
	cs.extRatio = [2]int64{int64(40 + r.intn(100)), int64(40 + r.intn(100))}
	cs.reserveClass = r.intn(4)
	nops := 4 + r.intn(12)
	cs.plan = make([]c10PlanOp, nops)
	for i := range cs.plan {
		x := r.intn(100)
		switch {
		case x < 38:
			cs.plan[i] = c10PlanOp{kind: 0, who: r.intn(3), class: r.intn(12), f1: 1 + r.intn(99), f2: 1 + r.intn(1000)}
		case x < 56:
			cs.plan[i] = c10PlanOp{kind: 3, who: r.intn(3), class: r.intn(8), f1: 1 + r.intn(99), f2: 1 + r.intn(1000)}
		case x < 91:
			cs.plan[i] = c10PlanOp{kind: 1, dtClass: r.intn(13), priceClass: r.intn(20), f1: 70 + r.intn(60)}
		default:
			cs.plan[i] = c10PlanOp{kind: 2}
		}
		cs.plan[i].f2 += r.intn(2) // keep the stream aligned
	}
	return cs
}

// golit prints the case as a Go literal (VERIF_DEBUG=1), to move a generated case into the corpus
func (cs c10Case) golit() string {
	var sb strings.Builder
	p := cs.p
	fmt.Fprintf(&sb, "{p: c10Params{premium: c10Dec(%q), disc: c10Dec(%q), ki: c10Dec(%q), vaultPenalty: c10Dec(%q), extPenalty: c10Dec(%q), extBonus: c10Dec(%q), dur: %d, minUsd: %d, dc: %d, dd: %d}, ",
		p.premium, p.disc, p.ki, p.vaultPenalty, p.extPenalty, p.extBonus, p.dur, p.minUsd, p.dc, p.dd)
	fmt.Fprintf(&sb, "kinds: %#v, twaC0: %d, twaD: %d, collUnits: %#v, crCreate: %#v, dropTo: %#v, extRatio: %#v, reserveClass: %d, plan: []c10PlanOp{",
		cs.kinds, cs.twaC0, cs.twaD, cs.collUnits, cs.crCreate, cs.dropTo, cs.extRatio, cs.reserveClass)
	for _, o := range cs.plan {
		if o.lit {
			fmt.Fprintf(&sb, "{kind: %d, who: %d, lit: true, v1: %d, v2: %d, f2: %d}, ", o.kind, o.who, o.v1, o.v2, o.f2)
			continue
		}
		fmt.Fprintf(&sb, "{kind: %d, who: %d, class: %d, f1: %d, f2: %d, dtClass: %d, priceClass: %d}, ", o.kind, o.who, o.class, o.f1, o.f2, o.dtClass, o.priceClass)
	}
	sb.WriteString("}}")
	return sb.String()
}

// corpus: regression inputs of repaired defects, always run first (cases 0 ..); they consume no
// randomness, so VERIF_CASE replays them under every seed
var c10Corpus = []c10Case{
	// C10-F3 (fixed): external auction, KeeeperIncentive 0.1 - the closing bids (493593, 3x) used to panic on the
	// empty InternalKeeperAddress (first build: VERIF_SEED=1 case 0 step 7)
	{p: c10Params{premium: c10Dec("1.500000000000000000"), disc: c10Dec("0.700000000000000000"), ki: c10Dec("0.100000000000000000"), vaultPenalty: c10Dec("0.150000000000000000"), extPenalty: c10Dec("0.100000000000000000"), extBonus: c10Dec("0.000000000000000000"), dur: 3600, minUsd: 1000000, dc: 1000000, dd: 1000000}, kinds: [2]int{2, 1}, twaC0: 1000000, twaD: 1000000, collUnits: [2]int64{568, 4352}, crCreate: [2]int64{164, 213}, dropTo: [2]int64{141, 130}, extRatio: [2]int64{79, 103}, reserveClass: 3, plan: []c10PlanOp{{kind: 1, who: 0, class: 0, f1: 70, f2: 0, dtClass: 7, priceClass: 18}, {kind: 1, who: 0, class: 0, f1: 104, f2: 1, dtClass: 7, priceClass: 0}, {kind: 0, who: 0, class: 4, f1: 45, f2: 652, dtClass: 0, priceClass: 0}, {kind: 1, who: 0, class: 0, f1: 120, f2: 0, dtClass: 0, priceClass: 11}, {kind: 0, who: 2, class: 1, f1: 98, f2: 568, dtClass: 0, priceClass: 0}, {kind: 0, who: 0, class: 7, f1: 86, f2: 206, dtClass: 0, priceClass: 0}, {kind: 1, who: 0, class: 0, f1: 127, f2: 1, dtClass: 5, priceClass: 18}, {kind: 1, who: 0, class: 0, f1: 102, f2: 0, dtClass: 5, priceClass: 9}, {kind: 1, who: 0, class: 0, f1: 70, f2: 1, dtClass: 1, priceClass: 10}, {kind: 0, who: 1, class: 8, f1: 56, f2: 815, dtClass: 0, priceClass: 0}, {kind: 0, who: 1, class: 0, f1: 37, f2: 730, dtClass: 0, priceClass: 0}, {kind: 2, who: 0, class: 0, f1: 0, f2: 1, dtClass: 0, priceClass: 0}}},
	// C10-F2 (fixed): external auction, reserve 1000, exhausted close with shortfall 440072 used to succeed with
	// nothing transferred and a reserve record of -439072 (first build: VERIF_SEED=1 case 92 step 12)
	{p: c10Params{premium: c10Dec("1.500000000000000000"), disc: c10Dec("0.650000000000000000"), ki: c10Dec("0.000000000000000000"), vaultPenalty: c10Dec("0.120000000000000000"), extPenalty: c10Dec("0.100000000000000000"), extBonus: c10Dec("0.100000000000000000"), dur: 1000, minUsd: 0, dc: 1000000, dd: 1000000}, kinds: [2]int{2, 0}, twaC0: 2000000, twaD: 1000000, collUnits: [2]int64{4890, 1688}, crCreate: [2]int64{222, 179}, dropTo: [2]int64{102, 132}, extRatio: [2]int64{85, 81}, reserveClass: 1, plan: []c10PlanOp{{kind: 0, who: 2, class: 7, f1: 31, f2: 885, dtClass: 0, priceClass: 0}, {kind: 1, who: 0, class: 0, f1: 110, f2: 0, dtClass: 3, priceClass: 10}, {kind: 1, who: 0, class: 0, f1: 87, f2: 0, dtClass: 8, priceClass: 14}, {kind: 0, who: 0, class: 0, f1: 35, f2: 754, dtClass: 0, priceClass: 0}, {kind: 0, who: 1, class: 0, f1: 11, f2: 936, dtClass: 0, priceClass: 0}, {kind: 0, who: 0, class: 1, f1: 43, f2: 105, dtClass: 0, priceClass: 0}, {kind: 0, who: 2, class: 1, f1: 86, f2: 878, dtClass: 0, priceClass: 0}, {kind: 1, who: 0, class: 0, f1: 117, f2: 0, dtClass: 4, priceClass: 15}, {kind: 0, who: 2, class: 7, f1: 74, f2: 902, dtClass: 0, priceClass: 0}, {kind: 1, who: 0, class: 0, f1: 119, f2: 0, dtClass: 5, priceClass: 2}, {kind: 0, who: 0, class: 8, f1: 72, f2: 245, dtClass: 0, priceClass: 0}, {kind: 1, who: 0, class: 0, f1: 73, f2: 1, dtClass: 4, priceClass: 15}, {kind: 0, who: 2, class: 6, f1: 34, f2: 418, dtClass: 0, priceClass: 0}}},
	// the same history with a big reserve: the exhausted close succeeds and is fully backed
	{p: c10Params{premium: c10Dec("1.500000000000000000"), disc: c10Dec("0.650000000000000000"), ki: c10Dec("0.000000000000000000"), vaultPenalty: c10Dec("0.120000000000000000"), extPenalty: c10Dec("0.100000000000000000"), extBonus: c10Dec("0.100000000000000000"), dur: 1000, minUsd: 0, dc: 1000000, dd: 1000000}, kinds: [2]int{2, 0}, twaC0: 2000000, twaD: 1000000, collUnits: [2]int64{4890, 1688}, crCreate: [2]int64{222, 179}, dropTo: [2]int64{102, 132}, extRatio: [2]int64{85, 81}, reserveClass: 2, plan: []c10PlanOp{{kind: 0, who: 2, class: 7, f1: 31, f2: 885, dtClass: 0, priceClass: 0}, {kind: 1, who: 0, class: 0, f1: 110, f2: 0, dtClass: 3, priceClass: 10}, {kind: 1, who: 0, class: 0, f1: 87, f2: 0, dtClass: 8, priceClass: 14}, {kind: 0, who: 0, class: 0, f1: 35, f2: 754, dtClass: 0, priceClass: 0}, {kind: 0, who: 1, class: 0, f1: 11, f2: 936, dtClass: 0, priceClass: 0}, {kind: 0, who: 0, class: 1, f1: 43, f2: 105, dtClass: 0, priceClass: 0}, {kind: 0, who: 2, class: 1, f1: 86, f2: 878, dtClass: 0, priceClass: 0}, {kind: 1, who: 0, class: 0, f1: 117, f2: 0, dtClass: 4, priceClass: 15}, {kind: 0, who: 2, class: 7, f1: 74, f2: 902, dtClass: 0, priceClass: 0}, {kind: 1, who: 0, class: 0, f1: 119, f2: 0, dtClass: 5, priceClass: 2}, {kind: 0, who: 0, class: 8, f1: 72, f2: 245, dtClass: 0, priceClass: 0}, {kind: 1, who: 0, class: 0, f1: 73, f2: 1, dtClass: 4, priceClass: 15}, {kind: 0, who: 2, class: 6, f1: 34, f2: 418, dtClass: 0, priceClass: 0}}},
	// external + incentive, immediate full bid, then a second external auction closed by an over-sized bid
	{p: c10Params{premium: c10Dec("1.2"), disc: c10Dec("0.7"), ki: c10Dec("0.1"), vaultPenalty: c10Dec("0.12"), extPenalty: c10Dec("0.1"), extBonus: c10Dec("0.05"), dur: 60, minUsd: 0, dc: 1000000, dd: 1000000},
		kinds: [2]int{2, 2}, twaC0: 2000000, twaD: 1000000, collUnits: [2]int64{1000, 2500}, crCreate: [2]int64{200, 200}, dropTo: [2]int64{120, 120}, extRatio: [2]int64{60, 90}, reserveClass: 2,
		plan: []c10PlanOp{{kind: 0, who: 0, class: 5, f1: 50, f2: 0}, {kind: 2}, {kind: 1, dtClass: 3, priceClass: 10, f1: 100}, {kind: 0, who: 1, class: 3, f1: 40, f2: 0}, {kind: 0, who: 1, class: 8, f1: 50, f2: 0}}},
	// C10-F5 (fixed): external auction, target 1 120 000 (penalty 12 %), collateral 1 000 000, big reserve; a limit bid of
	// 3 000 000 at discount 9 meets the block at t = 2940 s (price 0.906): the bid is cut down to 906 000, the reserve pays
	// 214 000; the limit bid used to be charged 1 120 000 (Properties/C10.v:c10_fill_cut_down_regression)
	{p: c10Params{premium: c10Dec("1.2"), disc: c10Dec("0.7"), ki: c10Dec("0"), vaultPenalty: c10Dec("0.12"), extPenalty: c10Dec("0.12"), extBonus: c10Dec("0"), dur: 3600, minUsd: 0, dc: 1000000, dd: 1000000},
		kinds: [2]int{2, 2}, twaC0: 1000000, twaD: 1000000, collUnits: [2]int64{1000, 2000}, crCreate: [2]int64{200, 200}, dropTo: [2]int64{120, 120}, extRatio: [2]int64{100, 50}, reserveClass: 2,
		plan: []c10PlanOp{{kind: 3, who: 0, lit: true, v1: 9, v2: 3000000}, {kind: 1, lit: true, v1: 2940}, {kind: 1, lit: true, v1: 1}, {kind: 1, lit: true, v1: 100}}},
	// C10-F6 (fixed): debt 500 003, collateral 1 000 006; limit bids of 1 and 999 at discount 5 are filled in one closure at
	// t = 2550 s (price 0.945): the second bid used to overwrite the first one's auction update; then a limit bid of the
	// remaining debt closes the auction at discount 6 (Properties/C10.v:c10_fill_two_partials_regression)
	{p: c10Params{premium: c10Dec("1.2"), disc: c10Dec("0.7"), ki: c10Dec("0"), vaultPenalty: c10Dec("0.12"), extPenalty: c10Dec("0"), extBonus: c10Dec("0"), dur: 3600, minUsd: 0, dc: 1000000, dd: 1000000},
		kinds: [2]int{2, 2}, twaC0: 1000000, twaD: 1000000, collUnits: [2]int64{1000, 2000}, crCreate: [2]int64{200, 200}, dropTo: [2]int64{120, 120}, extRatio: [2]int64{50, 50}, reserveClass: 2,
		plan: []c10PlanOp{{kind: 3, who: 0, lit: true, v1: 5, v2: 1}, {kind: 3, who: 1, lit: true, v1: 5, v2: 999}, {kind: 1, lit: true, v1: 2550},
			{kind: 3, who: 0, lit: true, v1: 6, v2: 499000}, {kind: 1, lit: true, v1: 100}, {kind: 0, who: 1, class: 8, f1: 50, f2: 0}}},
	// C10-F6, liveness half (fixed): debt 500 000, collateral 1 000 000; limit bids of 3 000 000 and 250 000 at discount 5:
	// the first closes the auction, the second used to fail on the stale copy and roll the closure back on every block
	// (Properties/C10.v:c10_fill_closing_first_regression); the second auction then takes the rest
	{p: c10Params{premium: c10Dec("1.2"), disc: c10Dec("0.7"), ki: c10Dec("0.1"), vaultPenalty: c10Dec("0.12"), extPenalty: c10Dec("0.1"), extBonus: c10Dec("0.05"), dur: 3600, minUsd: 0, dc: 1000000, dd: 1000000},
		kinds: [2]int{2, 2}, twaC0: 1000000, twaD: 1000000, collUnits: [2]int64{1000, 2000}, crCreate: [2]int64{200, 200}, dropTo: [2]int64{120, 120}, extRatio: [2]int64{50, 50}, reserveClass: 2,
		plan: []c10PlanOp{{kind: 3, who: 0, lit: true, v1: 5, v2: 3000000}, {kind: 3, who: 1, lit: true, v1: 5, v2: 250000}, {kind: 1, lit: true, v1: 2550},
			{kind: 1, lit: true, v1: 10}, {kind: 2}, {kind: 1, lit: true, v1: 2550}, {kind: 1, lit: true, v1: 50}}},
	// vault auction liquidated through MsgLiquidateInternalKeeper, keeper incentive 10 %: a market bid, a limit bid filled
	// partially, a closing market bid - the penalty 120 000 is split 12 000 keeper / 108 000 collector and the net-fee book
	// grows by 108 000 (regression of seeded/C13-3: booking the gross penalty)
	{p: c10Params{premium: c10Dec("1.2"), disc: c10Dec("0.7"), ki: c10Dec("0.1"), vaultPenalty: c10Dec("0.12"), extPenalty: c10Dec("0.1"), extBonus: c10Dec("0"), dur: 3600, minUsd: 100000, dc: 1000000, dd: 1000000},
		kinds: [2]int{0, 0}, twaC0: 2000000, twaD: 1000000, collUnits: [2]int64{1000, 1500}, crCreate: [2]int64{200, 200}, dropTo: [2]int64{120, 125}, extRatio: [2]int64{50, 50}, reserveClass: 2,
		plan: []c10PlanOp{{kind: 3, who: 1, lit: true, v1: 4, v2: 300000}, {kind: 0, who: 0, lit: true, v1: 400000}, {kind: 1, lit: true, v1: 2400},
			{kind: 1, lit: true, v1: 20}, {kind: 0, who: 0, lit: true, v1: 9999999}, {kind: 2}, {kind: 0, who: 2, class: 8, f1: 50, f2: 0}, {kind: 0, who: 0, class: 8, f1: 50, f2: 0}}},
}

func TestC10(t *testing.T) {
	a, base := newApp(t)
	tr := newTracer(t, "c10.trace")
	defer tr.close()
	r := newRng(seed())
	ncases := envInt("VERIF_CASES", 150)
	only := envInt("VERIF_CASE", -1)
	debug := envInt("VERIF_DEBUG", 0) == 1

	bidders := []sdk.AccAddress{addrN(10), addrN(11), addrN(12)}
	owners := []sdk.AccAddress{addrN(20), addrN(21)}
	liquidator, initiator, funder := addrN(30), addrN(31), addrN(32)

	for ci := 0; ci < ncases; ci++ {
		// ---- draw every random parameter of the case first (corpus cases consume no randomness)
		var cs c10Case
		if ci < len(c10Corpus) {
			cs = c10Corpus[ci]
		} else {
			cs = c10Draw(r)
		}
		if only >= 0 && ci != only {
			continue
		}
		if debug {
			tr.p("# %s", cs.golit())
		}
		p, kinds, twaC0, twaD, collUnits, crCreate, dropTo, extRatio, reserveClass, plan :=
			cs.p, cs.kinds, cs.twaC0, cs.twaD, cs.collUnits, cs.crCreate, cs.dropTo, cs.extRatio, cs.reserveClass, cs.plan

		// ---- build the case on a cache context
		ctx, _ := base.CacheContext()
		needVault := kinds[0] != 2 || kinds[1] != 2
		f := c10Setup(t, a, ctx, p, needVault)
		setPrice(a, ctx, f.assetC, twaC0, true)
		setPrice(a, ctx, f.assetD, twaD, true)
		scaleC := sdk.NewInt(p.dc).QuoRaw(1000)
		big := sdk.NewIntFromUint64(1 << 62)
		fund(t, a, ctx, bidders[0], sdk.NewCoins(sdk.NewCoin(f.denomD, big)))
		fund(t, a, ctx, bidders[1], sdk.NewCoins(sdk.NewCoin(f.denomD, big)))
		fund(t, a, ctx, bidders[2], sdk.NewCoins(sdk.NewCoin(f.denomD, sdk.NewInt(p.dd).QuoRaw(3))))
		fund(t, a, ctx, funder, sdk.NewCoins(sdk.NewCoin(f.denomD, big)))

		// positions: vault kinds are created now (minting happens here), liquidated at their start op
		type pos struct {
			kind           int
			vaultID        uint64
			coll, debt     sdk.Int
			dropPrice      uint64
			started, valid bool
		}
		var ps [2]pos
		for i := 0; i < 2; i++ {
			ps[i].kind = kinds[i]
			ps[i].coll = scaleC.MulRaw(collUnits[i])
			collVal := sdk.NewDecFromInt(ps[i].coll).MulInt64(int64(twaC0)).QuoInt64(p.dc) // micro-dollars
			if kinds[i] == 2 {
				debtVal := collVal.MulInt64(extRatio[i]).QuoInt64(100)
				ps[i].debt = debtVal.MulInt64(p.dd).QuoInt64(int64(twaD)).TruncateInt()
				fund(t, a, ctx, initiator, sdk.NewCoins(sdk.NewCoin(f.denomC, ps[i].coll)))
				ps[i].valid = ps[i].debt.IsPositive()
				ps[i].dropPrice = twaC0
			} else {
				debtVal := collVal.MulInt64(100).QuoInt64(crCreate[i])
				ps[i].debt = debtVal.MulInt64(p.dd).QuoInt64(int64(twaD)).TruncateInt()
				ps[i].dropPrice = uint64(sdk.NewDec(int64(twaC0)).MulInt64(dropTo[i]).QuoInt64(crCreate[i]).TruncateInt64())
				if ps[i].dropPrice == 0 {
					ps[i].dropPrice = 1
				}
				if !ps[i].debt.IsPositive() {
					continue
				}
				fund(t, a, ctx, owners[i], sdk.NewCoins(sdk.NewCoin(f.denomC, ps[i].coll)))
				class, _, _ := execMsg(a, ctx, vaulttypes.NewMsgCreateRequest(owners[i], f.app, f.extPair, ps[i].coll, ps[i].debt))
				if class == "ok" {
					ps[i].valid = true
					ps[i].vaultID = a.VaultKeeper.GetIDForVault(ctx)
				}
			}
		}
		if reserveClass > 0 {
			amt := sdk.NewInt(1000)
			if reserveClass >= 2 {
				amt = sdk.NewIntFromUint64(1 << 50)
			}
			execMsg(a, ctx, liqtypes.NewMsgAppReserveFundsRequest(funder.String(), f.app, f.assetD, sdk.NewCoin(f.denomD, amt)))
		}

		e := &c10Run{t: t, a: a, ctx: ctx, tr: tr, p: p, app: f.app, assetC: f.assetC, assetD: f.assetD, denomC: f.denomC, denomD: f.denomD,
			bidders: bidders, owners: owners, liquidator: liquidator, initiator: initiator, twaC: twaC0, twaDcur: twaD, actC: true, actD: true, debug: debug}
		e.begin(ci)

		start := func(i int) {
			if ps[i].started || !ps[i].valid {
				return
			}
			ps[i].started = true
			c := c10At(ctx, e.now)
			before := a.NewaucKeeper.GetAuctionID(c)
			var class string
			switch ps[i].kind {
			case 0, 1:
				// the collateral price falls; the position becomes liquidatable
				e.twaC = ps[i].dropPrice
				setPrice(a, c, f.assetC, e.twaC, e.actC)
				if ps[i].kind == 0 {
					class, _, _ = execMsg(a, c, liqtypes.NewMsgLiquidateInternalKeeperRequest(liquidator, 0, ps[i].vaultID))
				} else {
					cc, write := c.CacheContext()
					var err error
					pn, _ := safely(func() { err = a.NewliqKeeper.LiquidateIndividualVault(cc, ps[i].vaultID, "", false) })
					class = "ok"
					if pn {
						class = "panic"
					} else if err != nil {
						class = "err"
					} else {
						write()
					}
				}
			case 2:
				class, _, _ = execMsg(a, c, liqtypes.NewMsgLiquidateExternalKeeperRequest(initiator, f.app, owners[i].String(),
					sdk.NewCoin(f.denomC, ps[i].coll), sdk.NewCoin(f.denomD, ps[i].debt), f.assetC, f.assetD, false))
			}
			after := a.NewaucKeeper.GetAuctionID(c)
			if class == "ok" && after == before+1 {
				e.emitStart(after)
			} else {
				tr.p("op nostart %d %s %d %s %d %s %d %s", ps[i].kind, class, e.now, b2s(e.actC), e.twaC, b2s(e.actD), e.twaDcur, b2s(after != before))
			}
			e.observe()
		}

		start(0)
		for _, o := range plan {
			switch o.kind {
			case 2:
				start(1)
			case 1:
				e.tick(o)
			case 3:
				e.deposit(o)
			case 0:
				e.bid(o)
			}
		}
	}
}
