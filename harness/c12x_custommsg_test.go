//go:build verif

package verifharness

import (
	"encoding/json"
	"reflect"
	"testing"

	wasmvmtypes "github.com/CosmWasm/wasmvm/types"
	sdk "github.com/cosmos/cosmos-sdk/types"
	sdkerrors "github.com/cosmos/cosmos-sdk/types/errors"

	chain "github.com/comdex-official/comdex/app"
	comdexwasm "github.com/comdex-official/comdex/app/wasm"
	"github.com/comdex-official/comdex/app/wasm/bindings"
)

// c12xWasmPayloads: for every variant of bindings.ComdexMessages a payload that HAS AN EFFECT on the extended
// fixture state when the message is accepted (the plain matrix sends zero-valued payloads, which mostly fail in
// the keeper): a rejected sender must leave no trace, an accepted one shows what the privileged path does.
func c12xWasmPayloads(x *c12xWorld) bindings.ComdexMessages {
	w := x.Base
	har, csw, com := w.VaultApp, w.LiqApp, w.LendApp
	d := c12Dec
	i := sdk.NewInt
	var pair uint64
	for _, ep := range []uint64{w.ExtPair} {
		if e, ok := x.app.AssetKeeper.GetPairsVault(x.Ctx, ep); ok {
			pair = e.PairId
		}
	}
	return bindings.ComdexMessages{
		MsgWhiteListAssetLocker:              &bindings.MsgWhiteListAssetLocker{AppID: har, AssetID: w.USDC},
		MsgWhitelistAppIDVaultInterest:       &bindings.MsgWhitelistAppIDVaultInterest{AppID: x.SoloApp},
		MsgWhitelistAppIDLockerRewards:       &bindings.MsgWhitelistAppIDLockerRewards{AppID: har, AssetID: w.ATOM},
		MsgAddExtendedPairsVault:             &bindings.MsgAddExtendedPairsVault{AppID: har, PairID: pair, StabilityFee: d("0.03"), ClosingFee: d("0"), LiquidationPenalty: d("0.12"), DrawDownFee: d("0.01"), IsVaultActive: true, DebtCeiling: i(1_000_000_000_000), DebtFloor: i(1_000_000), MinCr: d("1.7"), PairName: "CMDX-Z", AssetOutOraclePrice: true, AssetOutPrice: 1000000, MinUsdValueLeft: 100000},
		MsgSetCollectorLookupTable:           &bindings.MsgSetCollectorLookupTable{AppID: har, CollectorAssetID: w.ATOM, SecondaryAssetID: w.HARBOR, SurplusThreshold: i(1_000_000_000), DebtThreshold: i(5_000_000), LockerSavingRate: d("0"), LotSize: i(2_000_000), BidFactor: d("0.01"), DebtLotSize: i(2_000_000)},
		MsgSetAuctionMappingForApp:           &bindings.MsgSetAuctionMappingForApp{AppID: csw, AssetIDs: w.CMST, IsSurplusAuctions: true, AssetOutPrices: 1000000},
		MsgUpdatePairsVault:                  &bindings.MsgUpdatePairsVault{AppID: har, ExtPairID: w.ExtPair, StabilityFee: d("0.5"), ClosingFee: d("0.005"), LiquidationPenalty: d("0.15"), DrawDownFee: d("0.01"), IsVaultActive: true, MinCr: d("1.1"), DebtCeiling: i(1_000_000_000_000), DebtFloor: i(1_000_000), MinUsdValueLeft: 100000},
		MsgUpdateCollectorLookupTable:        &bindings.MsgUpdateCollectorLookupTable{AppID: har, AssetID: w.CMST, DebtThreshold: i(5_000_000), SurplusThreshold: i(1), LotSize: i(2_000_000), DebtLotSize: i(2_000_000), BidFactor: d("0.01"), LSR: d("0.06")},
		MsgRemoveWhitelistAssetLocker:        &bindings.MsgRemoveWhitelistAssetLocker{AppID: har, AssetID: w.CMST},
		MsgRemoveWhitelistAppIDVaultInterest: &bindings.MsgRemoveWhitelistAppIDVaultInterest{AppMappingID: har},
		MsgWhitelistAppIDLiquidation:         &bindings.MsgWhitelistAppIDLiquidation{AppID: com},
		MsgRemoveWhitelistAppIDLiquidation:   &bindings.MsgRemoveWhitelistAppIDLiquidation{AppID: har},
		MsgAddAuctionParams:                  &bindings.MsgAddAuctionParams{AppID: csw, AuctionDurationSeconds: 100, Buffer: d("1.2"), Cusp: d("0.6"), Step: 1, PriceFunctionType: 1, SurplusID: 1, DebtID: 2, DutchID: 3, BidDurationSeconds: 50},
		MsgBurnGovTokensForApp:               &bindings.MsgBurnGovTokensForApp{AppID: har, From: w.LP, Amount: c12Coin(c12DenomHARBOR, 1_000_000)},
		MsgAddESMTriggerParams:               &bindings.MsgAddESMTriggerParams{AppID: csw, TargetValue: c12Coin(c12DenomHARBOR, 1), CoolOffPeriod: 1, AssetID: []uint64{w.CMST}, Rates: []uint64{1000000}},
		MsgEmissionRewards:                   &bindings.MsgEmissionRewards{AppID: har, Amount: i(1_000_000), EmissionAmount: 1, ExtendedPair: []uint64{w.ExtPair}, VotingRatio: []sdk.Int{i(1)}},
		MsgFoundationEmission:                &bindings.MsgFoundationEmission{AppID: har, Amount: i(1_000_000), FoundationAddress: []string{w.Other2.String()}},
		MsgRebaseMint:                        &bindings.MsgRebaseMint{AppID: har, Amount: i(1_000_000), ContractAddr: w.Other2},
		MsgGetSurplusFund:                    &bindings.MsgGetSurplusFund{AppID: har, AssetID: w.CMST, ContractAddr: w.Other2, Amount: c12Coin(c12DenomCMST, 1_000_000)},
		MsgEmissionPoolRewards:               &bindings.MsgEmissionPoolRewards{AppID: har, CswapAppID: csw, Amount: i(1_000_000), Pools: []uint64{w.LiqPool}, VotingRatio: []sdk.Int{i(1)}},
	}
}

// c12xWasmCases: every variant (read off the bindings type by reflection; a variant without a payload above is sent
// zero-valued) x chain id x sender through the real CustomMessenger on the extended state.  `dirty`: the branch the
// message ran on differs from the state before, whether or not it was then committed.
func c12xWasmCases(t *testing.T, a *chain.App, x *c12xWorld, tr *tracer, first int, only int) int {
	messenger := comdexwasm.CustomMessageDecorator(a.LockerKeeper, a.Rewardskeeper, a.AssetKeeper, a.CollectorKeeper, a.LiquidationKeeper,
		a.AuctionKeeper, a.TokenmintKeeper, a.EsmKeeper, a.VaultKeeper, a.LiquidityKeeper)(nil)
	all := c12xWasmPayloads(x)
	rt := reflect.TypeOf(all)
	rv := reflect.ValueOf(all)
	ci := first
	r := newRng(seed() + 77)
	for fi := 0; fi < rt.NumField(); fi++ {
		one := reflect.New(rt).Elem()
		real := !rv.Field(fi).IsNil()
		if real {
			one.Field(fi).Set(rv.Field(fi))
		} else {
			one.Field(fi).Set(reflect.New(rt.Field(fi).Type.Elem()))
		}
		body, err := json.Marshal(one.Interface())
		if err != nil {
			t.Fatalf("c12x wasm payload %s: %v", rt.Field(fi).Name, err)
		}
		for _, ch := range []string{"comdex-1", "comdex-test3", "verif-1"} {
			for sk := 0; sk < 4; sk++ {
				rnd := addrN(200 + r.intn(1000))
				id := ci
				ci++
				if only >= 0 && id != only {
					continue
				}
				gov, named := c12Gov[ch]
				if !named {
					gov = c12Gov["comdex-1"]
				}
				var sender sdk.AccAddress
				switch sk {
				case 0, 1:
					sender, _ = sdk.AccAddressFromBech32(gov[sk])
				case 2:
					other := c12Gov["comdex-test3"]
					if ch == "comdex-test3" {
						other = c12Gov["comdex-1"]
					}
					sender, _ = sdk.AccAddressFromBech32(other[0])
				default:
					sender = rnd
				}
				ctx, _ := x.Ctx.CacheContext()
				ctx = ctx.WithChainID(ch)
				before := storeDigest(a, ctx)
				dirty := false
				var derr error
				panicked, _ := safely(func() {
					cctx, write := ctx.CacheContext()
					_, _, derr = messenger.DispatchMsg(cctx, sender, "", wasmvmtypes.CosmosMsg{Custom: body})
					dirty = storeDigest(a, cctx) != before
					if derr == nil {
						write()
					}
				})
				after := storeDigest(a, ctx)
				cls := "ok"
				if panicked {
					cls = "panic"
				} else if derr != nil {
					cls = "err"
				}
				accepted := panicked || derr != sdkerrors.ErrInvalidAddress
				tr.p("case %d wasmx %s %s %s %s %s %s %s %s", id, rt.Field(fi).Name, ch, sender.String(), b2s(accepted), cls, b2s(before != after), b2s(dirty), b2s(real))
				tr.p("  payload %s", string(body))
			}
		}
	}
	return ci
}
