//go:build verif

package verifharness

import (
	"testing"
	"time"

	abci "github.com/cometbft/cometbft/abci/types"
	sdk "github.com/cosmos/cosmos-sdk/types"

	chain "github.com/comdex-official/comdex/app"
	"github.com/comdex-official/comdex/app/wasm/bindings"
	"github.com/comdex-official/comdex/x/auction"
	auctiontypes "github.com/comdex-official/comdex/x/auction/types"
	auctionsv2types "github.com/comdex-official/comdex/x/auctionsV2/types"
	collectortypes "github.com/comdex-official/comdex/x/collector/types"
	"github.com/comdex-official/comdex/x/esm"
	esmtypes "github.com/comdex-official/comdex/x/esm/types"
	lendtypes "github.com/comdex-official/comdex/x/lend/types"
	liquidationtypes "github.com/comdex-official/comdex/x/liquidation/types"
	liquidationsv2types "github.com/comdex-official/comdex/x/liquidationsV2/types"
	lockertypes "github.com/comdex-official/comdex/x/locker/types"
	rewardstypes "github.com/comdex-official/comdex/x/rewards/types"
	tokenminttypes "github.com/comdex-official/comdex/x/tokenmint/types"
	vaulttypes "github.com/comdex-official/comdex/x/vault/types"
)

// c12xWorld: the state of c12SetupN(3) carried on to a state in which the handlers that the plain
// matrices of C12 / C14 never send have WORK TO DO:
//
//	X   (Ctx)   one block after a fall of the collateral price (CMDX 2.0 -> 1.4): the vault and the borrow of each of
//	            the three owners are unhealthy and not yet seized (liquidate messages of both generations seize them);
//	            running auctions of every kind that a message can bid on: generation-2 dutch (vault, borrow),
//	            generation-2 english (surplus, debt), generation-1 dutch (vault, started through MsgLiquidateVault),
//	            generation-1 lend dutch (started through MsgLiquidateBorrow), generation-1 surplus and debt (started by
//	            calling auction.BeginBlocker, which this tree no longer wires: fixture only);
//	            reserve funds of both apps, the owners' limit bids, the shutdown deposit target of the vault app reached
//	            but shutdown not executed, one genesis token of the vault app not minted yet;
//	E   (CtxE)  X + emergency shutdown of the vault app executed through MsgExecuteESM, price snapshot taken by the esm
//	            begin-blocker, cool-off period over and the redemption pools set up by the begin-blocker.
//
// Everything is reached through real messages and the modules' own hooks; prices, the net fees of the
// collector (thresholds of the surplus / debt auctions) and governance parameters are inputs.
type c12xWorld struct {
	app   *chain.App
	Base  *c12World   // view of owner 0 at the plain fixture state
	Views []*c12World // one view per owner, Ctx = X
	Ctx   sdk.Context
	CtxE  sdk.Context
	HasE  bool

	Keeper sdk.AccAddress   // liquidator / first bidder of the fixture (owns no position)
	Help   []sdk.AccAddress // accounts whose positions were seized to get the running auctions

	V2DutchVault, V2DutchBorrow, V2Surplus, V2Debt uint64 // generation-2 auction ids
	V1Dutch, V1LendDutch, V1Surplus, V1Debt         uint64 // generation-1 auction ids (0 = not running)
	V1SurplusMap, V1DebtMap                         uint64
	SoloApp, SoloExtPair                            uint64
	V2DutchExternal                                 uint64 // generation-2 dutch auction of an external-keeper liquidation
	Pool2, CrossPair, CrossBorrow                   uint64 // second lend pool; CMDX (pool 1) -> USDC (pool 2) pair; an unhealthy, unseized cross-pool borrow of a helper
	V1LendDutchCross                                uint64 // generation-1 lend dutch auction of a seized cross-pool borrow
	Notes                                           []string
}

const c12xNewCMDX = 1400000

func c12xFundModule(t *testing.T, a *chain.App, ctx sdk.Context, module string, coin sdk.Coin) {
	if err := a.BankKeeper.MintCoins(ctx, "vaultV1", sdk.NewCoins(coin)); err != nil {
		t.Fatalf("c12x mint: %v", err)
	}
	if err := a.BankKeeper.SendCoinsFromModuleToModule(ctx, "vaultV1", module, sdk.NewCoins(coin)); err != nil {
		t.Fatalf("c12x send to module %s: %v", module, err)
	}
}

func c12xSetup(t *testing.T, a *chain.App, base sdk.Context) *c12xWorld {
	views0 := c12SetupN(t, a, base, 3)
	w := views0[0]
	x := &c12xWorld{app: a, Base: w, Keeper: addrN(35), Help: []sdk.AccAddress{addrN(31), addrN(32), addrN(33), addrN(34), addrN(36)}}
	ctx, _ := w.Ctx.CacheContext()
	harbor, commodo := w.VaultApp, w.LendApp
	rich := sdk.NewCoins(c12Coin(c12DenomCMDX, 1_000_000_000_000), c12Coin(c12DenomCMST, 1_000_000_000_000), c12Coin(c12DenomATOM, 1_000_000_000_000),
		c12Coin(c12DenomHARBOR, 1_000_000_000_000), c12Coin(c12DenomUSDC, 1_000_000_000_000))
	for _, who := range append([]sdk.AccAddress{x.Keeper}, x.Help...) {
		fund(t, a, ctx, who, rich)
	}

	// ---------- configuration (governance inputs) ----------
	c12Exec(t, a, ctx, "MsgMintNewTokens HARBOR", tokenminttypes.NewMsgMintNewTokensRequest(w.LP.String(), harbor, w.HARBOR))
	a.LiquidationKeeper.SetAppIDForLiquidation(ctx, harbor)
	a.LiquidationKeeper.SetParams(ctx, liquidationtypes.NewParams(100))
	a.AuctionKeeper.SetAuctionParams(ctx, auctiontypes.AuctionParams{AppId: harbor, AuctionDurationSeconds: 3600, Buffer: c12Dec("1.2"), Cusp: c12Dec("0.6"),
		Step: sdk.NewIntFromUint64(1), PriceFunctionType: 1, SurplusId: 1, DebtId: 2, DutchId: 3, BidDurationSeconds: 1800})
	for _, app := range []uint64{harbor, commodo} {
		a.NewliqKeeper.SetLiquidationWhiteListing(ctx, liquidationsv2types.LiquidationWhiteListing{AppId: app, Initiator: true, IsDutchActivated: true,
			DutchAuctionParam:  &liquidationsv2types.DutchAuctionParam{Premium: c12Dec("1.2"), Discount: c12Dec("0.7"), DecrementFactor: sdk.NewInt(1)},
			IsEnglishActivated: true, EnglishAuctionParam: &liquidationsv2types.EnglishAuctionParam{DecrementFactor: sdk.NewInt(1)}, KeeeperIncentive: c12Dec("0.1")})
	}
	if err := a.EsmKeeper.AddESMTriggerParamsForApp(ctx, &bindings.MsgAddESMTriggerParams{AppID: harbor, TargetValue: c12Coin(c12DenomHARBOR, 1_000_000_000),
		CoolOffPeriod: 3600, AssetID: []uint64{w.CMST, w.USDC}, Rates: []uint64{1000000, 1000000}}); err != nil {
		t.Fatalf("c12x AddESMTriggerParamsForApp: %v", err)
	}
	// a second locker asset without internal rewards (the custom message that whitelists locker rewards has work to do)
	if _, err := a.LockerKeeper.AddWhiteListedAsset(ctx, &lockertypes.MsgAddWhiteListedAssetRequest{From: w.LP.String(), AppId: harbor, AssetId: w.ATOM}); err != nil {
		t.Fatalf("c12x AddWhiteListedAsset: %v", err)
	}
	// reserve funds of both apps (the generation-2 bid path draws on them when the collateral does not cover the debt;
	// the external-keeper liquidation demands them)
	c12Exec(t, a, ctx, "MsgAppReserveFunds harbor", liquidationsv2types.NewMsgAppReserveFundsRequest(w.LP.String(), harbor, w.CMST, c12Coin(c12DenomCMST, 1_000_000_000)))
	c12Exec(t, a, ctx, "MsgAppReserveFunds commodo", liquidationsv2types.NewMsgAppReserveFundsRequest(w.LP.String(), commodo, w.CMST, c12Coin(c12DenomCMST, 1_000_000_000)))
	// the shutdown deposit target of the vault app is reached (not executed)
	c12Exec(t, a, ctx, "MsgDepositESM", esmtypes.NewMsgDeposit(w.LP.String(), harbor, c12Coin(c12DenomHARBOR, 1_000_000_000)))

	// collector: (harbor, CMST) runs surplus auctions, three further collector assets give the debt auction of
	// generation 2 and the surplus / debt auctions of generation 1 (one mapping carries one running auction)
	lookup := func(app, asset uint64) {
		if err := a.CollectorKeeper.WasmSetCollectorLookupTable(ctx, &bindings.MsgSetCollectorLookupTable{AppID: app, CollectorAssetID: asset,
			SecondaryAssetID: w.HARBOR, SurplusThreshold: sdk.NewInt(100_000_000), DebtThreshold: sdk.NewInt(5_000_000), LockerSavingRate: sdk.ZeroDec(),
			LotSize: sdk.NewInt(2_000_000), BidFactor: c12Dec("0.01"), DebtLotSize: sdk.NewInt(2_000_000)}); err != nil {
			t.Fatalf("c12x WasmSetCollectorLookupTable %d: %v", asset, err)
		}
	}
	mapping := func(app, asset uint64, surplus bool) {
		if err := a.CollectorKeeper.WasmSetAuctionMappingForApp(ctx, &bindings.MsgSetAuctionMappingForApp{AppID: app, AssetIDs: asset,
			IsSurplusAuctions: surplus, IsDebtAuctions: !surplus, AssetOutOraclePrices: false, AssetOutPrices: 1000000}); err != nil {
			t.Fatalf("c12x WasmSetAuctionMappingForApp %d: %v", asset, err)
		}
	}
	fees := func(app, asset uint64, denom string, amt int64) {
		if err := a.CollectorKeeper.SetNetFeeCollectedData(ctx, app, asset, sdk.NewInt(amt)); err != nil {
			t.Fatalf("c12x SetNetFeeCollectedData: %v", err)
		}
		if amt > 0 {
			c12xFundModule(t, a, ctx, collectortypes.ModuleName, c12Coin(denom, amt))
		}
	}

	// the one-off refund message of the collector pays a fixed list of accounts out of the collector's CMST
	c12xFundModule(t, a, ctx, collectortypes.ModuleName, c12Coin(c12DenomCMST, 21_000_000_000))
	// rewards.ExternalRewardsVault accepts an app only when EVERY extended pair of the app that has vaults is the named
	// one: a further vault app with a single extended pair and one vault (of the LP)
	x.SoloApp = c12AddApp(t, a, ctx, "solo", "solo")
	for _, p := range a.AssetKeeper.GetPairs(ctx) {
		if p.AssetIn == w.CMDX && p.AssetOut == w.CMST {
			x.SoloExtPair = addExtPair(t, a, ctx, extPairCfg{Name: "CMDX-S", App: x.SoloApp, Pair: p.Id, StabilityFee: sdk.NewDecWithPrec(2, 2), ClosingFee: sdk.ZeroDec(),
				LiqPenalty: sdk.NewDecWithPrec(15, 2), DrawDownFee: sdk.NewDecWithPrec(1, 2), MinCr: sdk.NewDecWithPrec(15, 1), DebtCeiling: sdk.NewInt(1_000_000_000_000),
				DebtFloor: sdk.NewInt(1_000_000), Active: true, OraclePrice: true, AssetOutPrice: 1000000, MinUsdValLeft: 100000})
		}
	}
	c12Exec(t, a, ctx, "solo vault MsgCreate", vaulttypes.NewMsgCreateRequest(w.LP, x.SoloApp, x.SoloExtPair, sdk.NewInt(100_000_000), sdk.NewInt(20_000_000)))

	// ---------- a second lend pool (USDC main, the same transit assets): cross-pool borrows bridged through ATOM ----------
	cusdc := addAsset(t, a, ctx, "CUSDC", "ucusdc", 1000000, false, false)
	if err := a.LendKeeper.AddPoolRecords(ctx, lendtypes.Pool{ModuleName: lendtypes.ModuleAcc2, CPoolName: "USDC-ATOM-CMST", AssetData: []*lendtypes.AssetDataPoolMapping{
		{AssetID: w.USDC, AssetTransitType: 1, SupplyCap: sdk.NewDec(5_000_000_000_000_000_000)},
		{AssetID: w.ATOM, AssetTransitType: 2, SupplyCap: sdk.NewDec(5_000_000_000_000_000_000)},
		{AssetID: w.CMST, AssetTransitType: 3, SupplyCap: sdk.NewDec(5_000_000_000_000_000_000)}}}); err != nil {
		t.Fatalf("c12x AddPoolRecords: %v", err)
	}
	pools := a.LendKeeper.GetPools(ctx)
	x.Pool2 = pools[len(pools)-1].PoolID
	if err := a.LendKeeper.AddAssetRatesParams(ctx, lendtypes.AssetRatesParams{AssetID: w.USDC, UOptimal: c12Dec("0.8"), Base: c12Dec("0.002"), Slope1: c12Dec("0.06"), Slope2: c12Dec("0.6"),
		EnableStableBorrow: true, StableBase: c12Dec("0.04"), StableSlope1: c12Dec("0.04"), StableSlope2: c12Dec("0.06"), Ltv: c12Dec("0.8"), LiquidationThreshold: c12Dec("0.85"),
		LiquidationPenalty: c12Dec("0.05"), LiquidationBonus: c12Dec("0.05"), ReserveFactor: c12Dec("0.2"), CAssetID: cusdc}); err != nil {
		t.Fatalf("c12x AddAssetRatesParams: %v", err)
	}
	if err := a.LendKeeper.AddLendPairsRecords(ctx, lendtypes.Extended_Pair{AssetIn: w.CMDX, AssetOut: w.USDC, IsInterPool: true, AssetOutPoolID: x.Pool2, MinUsdValueLeft: 100000}); err != nil {
		t.Fatalf("c12x AddLendPairsRecords: %v", err)
	}
	x.CrossPair = a.LendKeeper.GetLendPairID(ctx)
	if err := a.LendKeeper.AddMultipleAssetToPair(ctx, []lendtypes.AssetToPairSingleMapping{{AssetID: w.CMDX, PoolID: w.LendPool, PairID: x.CrossPair}}); err != nil {
		t.Fatalf("c12x AddMultipleAssetToPair: %v", err)
	}
	for _, f := range []struct {
		asset uint64
		coin  sdk.Coin
	}{{w.USDC, c12Coin(c12DenomUSDC, 10_000_000_000)}, {w.ATOM, c12Coin(c12DenomATOM, 10_000_000_000)}, {w.CMST, c12Coin(c12DenomCMST, 10_000_000_000)}} {
		c12Exec(t, a, ctx, "FundModuleAccounts pool 2", lendtypes.NewMsgFundModuleAccounts(x.Pool2, f.asset, w.LP.String(), f.coin))
	}

	// ---------- positions at the old price: the owners lean on their positions, helpers open the ones to be seized ----------
	for _, v := range views0 {
		c12Exec(t, a, ctx, "owner vault MsgDraw", vaulttypes.NewMsgDrawRequest(v.Owner, harbor, w.ExtPair, v.VaultID, sdk.NewInt(70_000_000)))
		c12Exec(t, a, ctx, "owner lend Draw", lendtypes.NewMsgDraw(v.Owner.String(), v.BorrowID, c12Coin(c12DenomCMST, 350_000_000)))
	}
	var helpBorrow [2]uint64
	for i, h := range []sdk.AccAddress{x.Help[0], x.Help[2]} {
		c12Exec(t, a, ctx, "helper Lend", lendtypes.NewMsgLend(h.String(), w.CMDX, c12Coin(c12DenomCMDX, 1_000_000_000), w.LendPool, commodo))
		lid, ok := a.LendKeeper.GetLendIDForAssetIDPoolID(ctx, h.String(), w.CMDX, w.LendPool)
		if !ok {
			t.Fatal("c12x helper lend not found")
		}
		c12Exec(t, a, ctx, "helper Borrow", lendtypes.NewMsgBorrow(h.String(), lid, w.BorrowPair, false, c12Coin(c12DenomCCMDX, 500_000_000), c12Coin(c12DenomCMST, 450_000_000)))
		if helpBorrow[i], ok = a.LendKeeper.GetBorrowIDForAddressByPair(ctx, h.String(), w.BorrowPair); !ok {
			t.Fatal("c12x helper borrow not found")
		}
	}
	c12Exec(t, a, ctx, "helper vault MsgCreate", vaulttypes.NewMsgCreateRequest(x.Help[1], harbor, w.ExtPair, sdk.NewInt(100_000_000), sdk.NewInt(120_000_000)))
	hv, found := a.VaultKeeper.GetUserAppExtendedPairMappingData(ctx, x.Help[1].String(), harbor, w.ExtPair)
	if !found {
		t.Fatal("c12x helper vault not found")
	}

	var crossBorrow [2]uint64
	for i, h := range []sdk.AccAddress{x.Help[3], x.Help[4]} {
		c12Exec(t, a, ctx, "helper Lend (cross)", lendtypes.NewMsgLend(h.String(), w.CMDX, c12Coin(c12DenomCMDX, 1_000_000_000), w.LendPool, commodo))
		lid, ok := a.LendKeeper.GetLendIDForAssetIDPoolID(ctx, h.String(), w.CMDX, w.LendPool)
		if !ok {
			t.Fatal("c12x helper lend (cross) not found")
		}
		c12Exec(t, a, ctx, "helper Borrow (cross)", lendtypes.NewMsgBorrow(h.String(), lid, x.CrossPair, false, c12Coin(c12DenomCCMDX, 500_000_000), c12Coin(c12DenomUSDC, 320_000_000)))
		if crossBorrow[i], ok = a.LendKeeper.GetBorrowIDForAddressByPair(ctx, h.String(), x.CrossPair); !ok {
			t.Fatal("c12x helper cross-pool borrow not found")
		}
		if b, _ := a.LendKeeper.GetBorrow(ctx, crossBorrow[i]); b.BridgedAssetAmount.Amount.IsZero() {
			t.Fatal("c12x: the cross-pool borrow has no bridged asset")
		}
	}
	x.CrossBorrow = crossBorrow[0]

	// ---------- next block: the collateral price falls ----------
	ctx = c12NextBlock(a, ctx)
	prices := map[uint64]uint64{}
	for k, p := range w.Prices {
		prices[k] = p
	}
	prices[w.CMDX] = c12xNewCMDX
	setPrice(a, ctx, w.CMDX, c12xNewCMDX, true)

	// ---------- seizures that start the running auctions ----------
	c12Exec(t, a, ctx, "V2 liquidate helper borrow", liquidationsv2types.NewMsgLiquidateInternalKeeperRequest(x.Keeper, 1, helpBorrow[0]))
	x.V2DutchVault = w.AuctionID
	x.V2DutchBorrow = a.NewaucKeeper.GetAuctionID(ctx)
	if au, err := a.NewaucKeeper.GetAuction(ctx, x.V2DutchBorrow); err != nil || x.V2DutchBorrow == w.AuctionID || !au.AuctionType {
		t.Fatalf("c12x: no generation-2 borrow auction: %v", err)
	}
	c12Exec(t, a, ctx, "V1 liquidate helper vault", liquidationtypes.NewMsgLiquidateRequest(x.Keeper, harbor, hv.VaultId))
	for _, au := range a.AuctionKeeper.GetDutchAuctions(ctx, harbor) {
		x.V1Dutch = au.AuctionId
	}
	if x.V1Dutch == 0 {
		t.Fatal("c12x: no generation-1 dutch auction")
	}
	c12Exec(t, a, ctx, "V1 liquidate helper borrow", liquidationtypes.NewMsgLiquidateBorrowRequest(x.Keeper, helpBorrow[1]))
	for _, au := range a.AuctionKeeper.GetDutchLendAuctions(ctx, commodo) {
		x.V1LendDutch = au.AuctionId
	}
	if x.V1LendDutch == 0 {
		t.Fatal("c12x: no generation-1 lend dutch auction")
	}

	c12Exec(t, a, ctx, "V1 liquidate helper cross-pool borrow", liquidationtypes.NewMsgLiquidateBorrowRequest(x.Keeper, crossBorrow[1]))
	for _, au := range a.AuctionKeeper.GetDutchLendAuctions(ctx, commodo) {
		if au.AuctionId != x.V1LendDutch {
			x.V1LendDutchCross = au.AuctionId
		}
	}
	if x.V1LendDutchCross == 0 {
		t.Fatal("c12x: no generation-1 lend dutch auction of the cross-pool borrow")
	}
	c12Exec(t, a, ctx, "V2 external-keeper liquidation", liquidationsv2types.NewMsgLiquidateExternalKeeperRequest(x.Keeper, harbor, x.Keeper.String(),
		c12Coin(c12DenomATOM, 10_000_000), c12Coin(c12DenomCMST, 50_000_000), w.ATOM, w.CMST, false))
	x.V2DutchExternal = a.NewaucKeeper.GetAuctionID(ctx)

	// generation-2 english auctions through the module's own starter
	if err := a.CollectorKeeper.WasmUpdateCollectorLookupTable(ctx, &bindings.MsgUpdateCollectorLookupTable{AppID: harbor, AssetID: w.CMST, DebtThreshold: sdk.NewInt(5_000_000),
		SurplusThreshold: sdk.NewInt(100_000_000), LotSize: sdk.NewInt(2_000_000), DebtLotSize: sdk.NewInt(2_000_000), BidFactor: c12Dec("0.01"), LSR: c12Dec("0.06")}); err != nil {
		t.Fatalf("c12x WasmUpdateCollectorLookupTable: %v", err)
	}
	mapping(harbor, w.CMST, true)
	fees(harbor, w.CMST, c12DenomCMST, 100_000_000+4_000_000)
	lookup(harbor, w.USDC)
	mapping(harbor, w.USDC, false)
	fees(harbor, w.USDC, c12DenomUSDC, 0)
	before := a.NewaucKeeper.GetAuctionID(ctx)
	if err := a.NewliqKeeper.LiquidateForSurplusAndDebt(ctx); err != nil {
		t.Fatalf("c12x LiquidateForSurplusAndDebt: %v", err)
	}
	for id := before + 1; id <= a.NewaucKeeper.GetAuctionID(ctx); id++ {
		au, err := a.NewaucKeeper.GetAuction(ctx, id)
		if err != nil || au.AuctionType {
			continue
		}
		lv, _ := a.NewliqKeeper.GetLockedVault(ctx, au.AppId, au.LockedVaultId)
		switch lv.InitiatorType {
		case "surplus":
			x.V2Surplus = id
		case "debt":
			x.V2Debt = id
		}
	}
	if x.V2Surplus == 0 || x.V2Debt == 0 {
		t.Fatalf("c12x: generation-2 english auctions surplus %d debt %d", x.V2Surplus, x.V2Debt)
	}

	// generation-1 surplus / debt auctions: only auction.BeginBlocker starts them and this tree does not wire it.  They run
	// in the single-pair app (the shutdown of the vault app needs every net fee of that app to be in a debt asset)
	a.AuctionKeeper.SetAuctionParams(ctx, auctiontypes.AuctionParams{AppId: x.SoloApp, AuctionDurationSeconds: 3600, Buffer: c12Dec("1.2"), Cusp: c12Dec("0.6"),
		Step: sdk.NewIntFromUint64(1), PriceFunctionType: 1, SurplusId: 1, DebtId: 2, DutchId: 3, BidDurationSeconds: 1800})
	lookup(x.SoloApp, w.CMST)
	mapping(x.SoloApp, w.CMST, true)
	fees(x.SoloApp, w.CMST, c12DenomCMST, 100_000_000+4_000_000)
	lookup(x.SoloApp, w.USDC)
	mapping(x.SoloApp, w.USDC, false)
	fees(x.SoloApp, w.USDC, c12DenomUSDC, 0)
	if p, msg := safely(func() { auction.BeginBlocker(ctx, a.AuctionKeeper, a.AssetKeeper, a.CollectorKeeper, a.EsmKeeper) }); p {
		x.Notes = append(x.Notes, "auction.BeginBlocker panicked: "+msg)
	}
	for _, au := range a.AuctionKeeper.GetSurplusAuctions(ctx, x.SoloApp) {
		x.V1Surplus, x.V1SurplusMap = au.AuctionId, au.AuctionMappingId
	}
	for _, au := range a.AuctionKeeper.GetDebtAuctions(ctx, x.SoloApp) {
		x.V1Debt, x.V1DebtMap = au.AuctionId, au.AuctionMappingId
	}

	// the positions of the owners are unhealthy and still there
	for _, v := range views0 {
		if _, ok := a.VaultKeeper.GetVault(ctx, v.VaultID); !ok {
			t.Fatal("c12x: an owner's vault is gone")
		}
		if b, ok := a.LendKeeper.GetBorrow(ctx, v.BorrowID); !ok || b.IsLiquidated {
			t.Fatal("c12x: an owner's borrow is gone")
		}
	}

	x.Ctx = ctx
	for _, v0 := range views0 {
		v := *v0
		v.Ctx, v.Prices = ctx, prices
		x.Views = append(x.Views, &v)
	}

	// ---------- E: emergency shutdown executed, snapshot taken, cool-off over, redemption set up ----------
	ectx, _ := ctx.CacheContext()
	if cls, err, _ := execMsg(a, ectx, esmtypes.NewMsgExecute(w.LP.String(), harbor)); cls != "ok" {
		x.Notes = append(x.Notes, "MsgExecuteESM: "+cls+" "+err.Error())
		return x
	}
	esm.BeginBlocker(ectx, abci.RequestBeginBlock{}, a.EsmKeeper, a.AssetKeeper)
	ectx = ectx.WithBlockHeight(ectx.BlockHeight() + 1200).WithBlockTime(ectx.BlockTime().Add(2 * time.Hour))
	for i := 0; i < 5; i++ {
		esm.BeginBlocker(ectx, abci.RequestBeginBlock{}, a.EsmKeeper, a.AssetKeeper)
	}
	st, _ := a.EsmKeeper.GetESMStatus(ectx, harbor)
	if _, ok := a.EsmKeeper.GetDataAfterCoolOff(ectx, harbor); !ok || !st.ShareCalculation {
		x.Notes = append(x.Notes, "shutdown redemption was not set up: "+st.String())
		return x
	}
	x.CtxE, x.HasE = ectx, true
	return x
}

// c12xMsg: one message of the extended matrix.
type c12xMsg struct {
	Handler string // "<module>.<msgServer method>" as in Gen/GuardTable.v
	Variant string // distinguishes several uses of one handler (which auction, which kind of position)
	Msg     sdk.Msg
	State   string // "X" or "E"
	App     uint64 // the app whose breaker / shutdown status governs the message
	Natural int    // who is expected to succeed: 0 = the named owner v, 1 = anybody with funds
}

// c12xMessages: every message type of the liquidation, auction, liquidationsV2, esm, rewards, collector
// and tokenmint msg servers plus the four auctionsV2 messages, with `signer` in the signer field, naming
// (where the message names anything of a user) the positions of the owner of view v.
func c12xMessages(x *c12xWorld, v *c12World, signer sdk.AccAddress) []c12xMsg {
	s := signer.String()
	w := x.Base
	har, com := w.VaultApp, w.LendApp
	var ms []c12xMsg
	add := func(h, variant string, m sdk.Msg, state string, app uint64, natural int) {
		ms = append(ms, c12xMsg{Handler: h, Variant: variant, Msg: m, State: state, App: app, Natural: natural})
	}
	// ---------- liquidation, generation 1 ----------
	add("liquidation.MsgLiquidateVault", "vault", liquidationtypes.NewMsgLiquidateRequest(signer, har, v.VaultID), "X", har, 1)
	add("liquidation.MsgLiquidateBorrow", "borrow", liquidationtypes.NewMsgLiquidateBorrowRequest(signer, v.BorrowID), "X", com, 1)
	add("liquidation.MsgLiquidateBorrow", "borrow-cross-pool", liquidationtypes.NewMsgLiquidateBorrowRequest(signer, x.CrossBorrow), "X", com, 1)
	// ---------- liquidationsV2 ----------
	add("liquidationsV2.MsgLiquidateInternalKeeper", "borrow-cross-pool", liquidationsv2types.NewMsgLiquidateInternalKeeperRequest(signer, 1, x.CrossBorrow), "X", com, 1)
	add("liquidationsV2.MsgLiquidateInternalKeeper", "vault", liquidationsv2types.NewMsgLiquidateInternalKeeperRequest(signer, 0, v.VaultID), "X", har, 1)
	add("liquidationsV2.MsgLiquidateInternalKeeper", "borrow", liquidationsv2types.NewMsgLiquidateInternalKeeperRequest(signer, 1, v.BorrowID), "X", com, 1)
	add("liquidationsV2.MsgLiquidateExternalKeeper", "external", liquidationsv2types.NewMsgLiquidateExternalKeeperRequest(signer, har, v.Owner.String(),
		c12Coin(c12DenomATOM, 10_000_000), c12Coin(c12DenomCMST, 50_000_000), w.ATOM, w.CMST, false), "X", har, 1)
	add("liquidationsV2.MsgAppReserveFunds", "reserve", liquidationsv2types.NewMsgAppReserveFundsRequest(s, har, w.CMST, c12Coin(c12DenomCMST, 5_000_000)), "X", har, 1)
	// ---------- auction, generation 1 ----------
	add("auction.MsgPlaceDutchBid", "v1-dutch", auctiontypes.NewMsgPlaceDutchBid(s, x.V1Dutch, c12Coin(c12DenomCMDX, 10_000_000), har, 3), "X", har, 1)
	add("auction.MsgPlaceDutchLendBid", "v1-lend-dutch", auctiontypes.NewMsgPlaceDutchLendBid(s, x.V1LendDutch, c12Coin(c12DenomCMDX, 10_000_000), com, 3), "X", com, 1)
	add("auction.MsgPlaceDutchLendBid", "v1-lend-dutch-cross-pool", auctiontypes.NewMsgPlaceDutchLendBid(s, x.V1LendDutchCross, c12Coin(c12DenomCMDX, 10_000_000), com, 3), "X", com, 1)
	if x.V1Surplus != 0 {
		add("auction.MsgPlaceSurplusBid", "v1-surplus", auctiontypes.NewMsgPlaceSurplusBid(s, x.V1Surplus, c12Coin(c12DenomHARBOR, 3_000_000), x.SoloApp, x.V1SurplusMap), "X", x.SoloApp, 1)
	}
	if x.V1Debt != 0 {
		add("auction.MsgPlaceDebtBid", "v1-debt", auctiontypes.NewMsgPlaceDebtBid(s, x.V1Debt, c12Coin(c12DenomHARBOR, 1_900_000), c12Coin(c12DenomUSDC, 2_000_000), x.SoloApp, x.V1DebtMap), "X", x.SoloApp, 1)
	}
	// ---------- auctionsV2 ----------
	add("auctionsV2.MsgPlaceMarketBid", "v2-dutch-vault", auctionsv2types.NewMsgPlaceMarketBid(s, x.V2DutchVault, c12Coin(c12DenomCMST, 10_000_000)), "X", har, 1)
	add("auctionsV2.MsgPlaceMarketBid", "v2-dutch-borrow", auctionsv2types.NewMsgPlaceMarketBid(s, x.V2DutchBorrow, c12Coin(c12DenomCMST, 10_000_000)), "X", com, 1)
	add("auctionsV2.MsgPlaceMarketBid", "v2-dutch-external", auctionsv2types.NewMsgPlaceMarketBid(s, x.V2DutchExternal, c12Coin(c12DenomCMST, 10_000_000)), "X", har, 1)
	add("auctionsV2.MsgPlaceMarketBid", "v2-english-surplus", auctionsv2types.NewMsgPlaceMarketBid(s, x.V2Surplus, c12Coin(c12DenomHARBOR, 3_000_000)), "X", har, 1)
	add("auctionsV2.MsgPlaceMarketBid", "v2-english-debt", auctionsv2types.NewMsgPlaceMarketBid(s, x.V2Debt, c12Coin(c12DenomHARBOR, 1_900_000)), "X", har, 1)
	add("auctionsV2.MsgDepositLimitBid", "limit", auctionsv2types.NewMsgDepositLimitBid(s, w.BidCollateralAsset, w.BidDebtAsset, w.BidPremium, c12Coin(c12DenomCMST, 5_000_000)), "X", har, 1)
	add("auctionsV2.MsgCancelLimitBid", "limit", auctionsv2types.NewMsgCancelLimitBid(s, w.BidCollateralAsset, w.BidDebtAsset, w.BidPremium), "X", har, 0)
	add("auctionsV2.MsgWithdrawLimitBid", "limit", auctionsv2types.NewMsgWithdrawLimitBid(s, w.BidCollateralAsset, w.BidDebtAsset, w.BidPremium, c12Coin(c12DenomCMST, 5_000_000)), "X", har, 0)
	// ---------- esm ----------
	add("esm.DepositESM", "deposit", esmtypes.NewMsgDeposit(s, har, c12Coin(c12DenomHARBOR, 1_000_000)), "X", har, 1)
	add("esm.ExecuteESM", "execute", esmtypes.NewMsgExecute(s, har), "X", har, 1)
	if x.HasE {
		add("esm.MsgCollateralRedemption", "redeem", esmtypes.NewMsgCollateralRedemption(har, c12Coin(c12DenomCMST, 10_000_000), signer), "E", har, 1)
	}
	// ---------- rewards ----------
	g := rewardstypes.NewMsgCreateGauge(w.LiqApp, signer, x.Ctx.BlockTime().Add(time.Hour), rewardstypes.LiquidityGaugeTypeID, 24*time.Hour, c12Coin(c12DenomHARBOR, 10_000_000), 5)
	g.Kind = &rewardstypes.MsgCreateGauge_LiquidityMetaData{LiquidityMetaData: &rewardstypes.LiquidtyGaugeMetaData{PoolId: w.LiqPool, IsMasterPool: false}}
	add("rewards.CreateGauge", "gauge", g, "X", w.LiqApp, 1)
	add("rewards.ExternalRewardsLockers", "ext-locker", rewardstypes.NewMsgActivateExternalRewardsLockers(har, w.CMST, c12Coin(c12DenomHARBOR, 10_000_000), 5, 1, signer), "X", har, 1)
	add("rewards.ExternalRewardsVault", "ext-vault", rewardstypes.NewMsgActivateExternalRewardsVault(x.SoloApp, x.SoloExtPair, c12Coin(c12DenomHARBOR, 10_000_000), 5, 1, signer), "X", x.SoloApp, 1)
	add("rewards.ExternalRewardsLend", "ext-lend", rewardstypes.NewMsgActivateExternalRewardsLend(com, w.LendPool, []uint64{w.CMST}, w.LiqApp, 0, c12Coin(c12DenomHARBOR, 10_000_000),
		int64(w.LiqPool), 5, 1, signer), "X", com, 1)
	add("rewards.ExternalRewardsStableMint", "ext-stable", rewardstypes.NewMsgActivateExternalRewardsStableVault(har, w.LiqApp, com, c12Coin(c12DenomHARBOR, 10_000_000), 5, 1, signer), "X", har, 1)
	// ---------- collector, tokenmint ----------
	add("collector.Deposit", "refund", collectortypes.NewMsgDeposit(s, c12Coin(c12DenomATOM, 20_163_520_000), 2), "X", har, 1)
	add("tokenmint.MsgMintNewTokens", "genesis-mint", tokenminttypes.NewMsgMintNewTokensRequest(s, har, w.XTKN), "X", har, 1)
	return ms
}

// c12xCtxOf: a fresh branch of the state the message runs on
func (x *c12xWorld) c12xBranch(m c12xMsg) sdk.Context {
	base := x.Ctx
	if m.State == "E" {
		base = x.CtxE
	}
	ctx, _ := base.CacheContext()
	return ctx
}
