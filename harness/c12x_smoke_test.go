//go:build verif

package verifharness

import (
	"testing"

	sdk "github.com/cosmos/cosmos-sdk/types"
)

// TestC12XSmoke: every message of the extended matrix, sent by the account that is expected to
// succeed (the named owner, or a funded account that owns nothing), must succeed AND change state on
// the extended fixture - otherwise the matrix would exercise rejections only.
func TestC12XSmoke(t *testing.T) {
	c12SetPrefixes()
	a, base := newApp(t)
	x := c12xSetup(t, a, base)
	for _, n := range x.Notes {
		t.Logf("note: %s", n)
	}
	t.Logf("auctions: v2 dutch vault %d borrow %d surplus %d debt %d; v1 dutch %d lend %d surplus %d debt %d; E=%v", x.V2DutchVault, x.V2DutchBorrow,
		x.V2Surplus, x.V2Debt, x.V1Dutch, x.V1LendDutch, x.V1Surplus, x.V1Debt, x.HasE)
	v := x.Views[1]
	bad := 0
	for i := range c12xMessages(x, v, v.Owner) {
		signers := []sdk.AccAddress{v.Owner, x.Keeper}
		for _, who := range signers {
			mm := c12xMessages(x, v, who)[i]
			ctx := x.c12xBranch(mm)
			cls, kind, changed := c12RunMsg(a, ctx, mm.Msg)
			_, err, _ := execMsg(a, x.c12xBranch(mm), c12xMessages(x, v, who)[i].Msg)
			t.Logf("%-45s %-20s signer=%-6s %s %s changed=%v err=%v", mm.Handler, mm.Variant, map[bool]string{true: "owner", false: "keeper"}[who.Equals(v.Owner)], cls, kind, changed, err)
			if who.Equals(v.Owner) && (cls != "ok" || !changed) {
				bad++
			}
		}
	}
	if bad > 0 || len(x.Notes) > 0 || !x.HasE {
		t.Fatalf("%d messages do not succeed with an effect for the named owner; fixture notes %v; shutdown state %v", bad, x.Notes, x.HasE)
	}
}
