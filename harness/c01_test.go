//go:build verif

package verifharness

// Workload shared by C01 / C02 / C03: histories of vault messages driven through the real
// message servers (MsgServiceRouter + CacheContext), interleaved with time advances, price
// changes (active / inactive), circuit breaker and ESM switches and unsolicited transfers to
// the custody account.  After EVERY op the complete projection is dumped: bank balances of the
// custody account, the collector and every user, total supply, every vault and stable-mint
// vault record, every product's published totals and id list, the counters, the user->vault
// lookup and the prices in force.

import (
	"fmt"
	"math/big"
	"os"
	"strings"
	"testing"
	"time"

	sdk "github.com/cosmos/cosmos-sdk/types"

	chain "github.com/comdex-official/comdex/app"
	esmtypes "github.com/comdex-official/comdex/x/esm/types"
	vaulttypes "github.com/comdex-official/comdex/x/vault/types"
)

type vltAsset struct {
	id    uint64
	denom string
	dec   int64
	debt  bool
}

type vltProd struct {
	id, app, pair       uint64
	in, out             *vltAsset
	stab, closing, ddf  sdk.Dec
	minCr               sdk.Dec
	floor, ceiling      sdk.Int
	stable, active, orc bool
	outPrice            uint64
}

type vltCase struct {
	t      *testing.T
	a      *chain.App
	ctx    sdk.Context
	tr     *tracer
	r      *rng
	apps   []uint64
	assets []*vltAsset
	prods  []*vltProd
	users  []sdk.AccAddress
	owner  map[string]int
	now    time.Time
	height int64
	esmOn  map[uint64]bool
}

func vltPow10(k int) sdk.Int { return sdk.NewIntFromBigInt(new(big.Int).Exp(big.NewInt(10), big.NewInt(int64(k)), nil)) }

func vltDecStr(s string) sdk.Dec { return sdk.MustNewDecFromStr(s) }

func (c *vltCase) acct(i int) int { return i + 2 }

// ---------- observation ----------
func (c *vltCase) obs() {
	c.obsBody()
	c.tr.p("eo")
}

// obsBody: the projection without the end marker (harness/c01_life_test.go appends the records of
// liquidationsV2 / auctionsV2 / esm before closing the observation)
func (c *vltCase) obsBody() {
	a, ctx, tr := c.a, c.ctx, c.tr
	tr.p("t %d", c.now.Unix())
	accts := []sdk.AccAddress{modAddr("vaultV1"), modAddr("collectorV1")}
	accts = append(accts, c.users...)
	for i, ad := range accts {
		var sb strings.Builder
		for _, as := range c.assets {
			fmt.Fprintf(&sb, " %d %s", as.id, bal(a, ctx, ad, as.denom).String())
		}
		tr.p("b %d %d%s", i, len(c.assets), sb.String())
	}
	var sb strings.Builder
	for _, as := range c.assets {
		fmt.Fprintf(&sb, " %d %s", as.id, supply(a, ctx, as.denom).String())
	}
	tr.p("s %d%s", len(c.assets), sb.String())
	for _, v := range a.VaultKeeper.GetVaults(ctx) {
		o, ok := c.owner[v.Owner]
		if !ok {
			o = -1
		}
		tr.p("v %d %d %d %d %s %s %s %s", v.Id, o, v.AppId, v.ExtendedPairVaultID, v.AmountIn.String(), v.AmountOut.String(),
			v.InterestAccumulated.String(), v.ClosingFeeAccumulated.String())
	}
	for _, v := range a.VaultKeeper.GetStableMintVaults(ctx) {
		tr.p("sv %d %d %d %s %s", v.Id, v.AppId, v.ExtendedPairVaultID, v.AmountIn.String(), v.AmountOut.String())
	}
	for _, p := range c.prods {
		d, found := a.VaultKeeper.GetAppExtendedPairVaultMappingData(ctx, p.app, p.id)
		if !found {
			tr.p("p %d %d 0 0 0 0", p.app, p.id)
			continue
		}
		var ids strings.Builder
		for _, id := range d.VaultIds {
			fmt.Fprintf(&ids, " %d", id)
		}
		tr.p("p %d %d 1 %s %s %d%s", p.app, p.id, d.CollateralLockedAmount.String(), d.TokenMintedAmount.String(), len(d.VaultIds), ids.String())
	}
	tr.p("c %d %d %d", a.VaultKeeper.GetLengthOfVault(ctx), a.VaultKeeper.GetIDForVault(ctx), a.VaultKeeper.GetIDForStableVault(ctx))
	for ui, u := range c.users {
		for _, p := range c.prods {
			m, found := a.VaultKeeper.GetUserAppExtendedPairMappingData(ctx, u.String(), p.app, p.id)
			if found {
				tr.p("um %d %d %d %d", c.acct(ui), p.app, p.id, m.VaultId)
			}
		}
	}
	for _, as := range c.assets {
		tw, found := a.MarketKeeper.GetTwa(ctx, as.id)
		tr.p("pr %d %s %d", as.id, b2s(found && tw.IsPriceActive), tw.Twa)
	}
}

// dry run of rewards.CalculateVaultInterest with the arguments the handler will use: the delta of
// InterestAccumulated (>= 0), -1 when the call returns an error, -2 when it panics
func (c *vltCase) dryInterest(ctx sdk.Context, app, ep, vid uint64) sdk.Int {
	v, found := c.a.VaultKeeper.GetVault(ctx, vid)
	if !found {
		return sdk.ZeroInt()
	}
	cctx, _ := ctx.CacheContext()
	var err error
	pan, _ := safely(func() {
		err = c.a.Rewardskeeper.CalculateVaultInterest(cctx, app, ep, vid, v.AmountOut.Add(v.InterestAccumulated), v.BlockHeight, v.BlockTime.Unix())
	})
	if pan {
		return sdk.NewInt(-2)
	}
	if err != nil {
		return sdk.NewInt(-1)
	}
	v2, _ := c.a.VaultKeeper.GetVault(cctx, vid)
	d := v2.InterestAccumulated.Sub(v.InterestAccumulated)
	if d.IsNegative() {
		c.t.Fatalf("negative interest delta: %s", d)
	}
	return d
}

func (c *vltCase) exec(msg sdk.Msg) string {
	class, err, _ := execMsg(c.a, c.ctx, msg)
	if err != nil && os.Getenv("VERIF_DEBUG") != "" {
		c.tr.p("# %s", strings.ReplaceAll(err.Error(), "\n", " "))
	}
	return class
}

// ---------- risk-threshold search on the real keeper ----------
func (c *vltCase) crAccept(p *vltProd, ain, debt sdk.Int) bool {
	var err error
	pan, _ := safely(func() { err = c.a.VaultKeeper.VerifyCollaterlizationRatio(c.ctx, p.id, ain, debt, p.minCr, false) })
	return !pan && err == nil
}

// largest debt >= 1 the keeper accepts for this collateral (0 if none)
func (c *vltCase) maxDebt(p *vltProd, ain sdk.Int) sdk.Int {
	one := sdk.NewInt(1)
	if !ain.IsPositive() || !c.crAccept(p, ain, one) {
		return sdk.ZeroInt()
	}
	lo, hi := one, sdk.NewInt(2)
	for i := 0; i < 130 && c.crAccept(p, ain, hi); i++ {
		lo, hi = hi, hi.MulRaw(2)
	}
	for hi.Sub(lo).GT(one) {
		mid := lo.Add(hi).QuoRaw(2)
		if c.crAccept(p, ain, mid) {
			lo = mid
		} else {
			hi = mid
		}
	}
	return lo
}

// smallest collateral >= 1 the keeper accepts for this debt (0 if none found)
func (c *vltCase) minColl(p *vltProd, debt sdk.Int) sdk.Int {
	one := sdk.NewInt(1)
	if !debt.IsPositive() {
		return sdk.ZeroInt()
	}
	if c.crAccept(p, one, debt) {
		return one
	}
	lo, hi := one, sdk.NewInt(2)
	i := 0
	for ; i < 130 && !c.crAccept(p, hi, debt); i++ {
		lo, hi = hi, hi.MulRaw(2)
	}
	if i >= 130 {
		return sdk.ZeroInt()
	}
	for hi.Sub(lo).GT(one) {
		mid := lo.Add(hi).QuoRaw(2)
		if c.crAccept(p, mid, debt) {
			hi = mid
		} else {
			lo = mid
		}
	}
	return hi
}

func vltPos(x sdk.Int) sdk.Int {
	if x.IsPositive() {
		return x
	}
	return sdk.NewInt(1)
}

func (c *vltCase) pickInt(xs ...sdk.Int) sdk.Int { return xs[c.r.intn(len(xs))] }

// a "natural" amount of an asset: a few units, sometimes dust, sometimes large
func (c *vltCase) natural(as *vltAsset) sdk.Int {
	unit := sdk.NewInt(as.dec)
	if as.debt && as.dec > 1000000000000 && c.r.chance(70) { // keep most 18-decimal debts below 2^63
		return unit.MulRaw(int64(1 + c.r.intn(80))).QuoRaw(10)
	}
	switch c.r.intn(12) {
	case 0:
		return sdk.NewInt(int64(1 + c.r.intn(1000)))
	case 1:
		return unit.MulRaw(int64(1 + c.r.intn(100000)))
	case 2:
		return unit.MulRaw(int64(1+c.r.intn(50))).AddRaw(int64(c.r.intn(1000)) - 500).Abs().AddRaw(1)
	default:
		return unit.MulRaw(int64(1 + c.r.intn(300))).QuoRaw(int64(1 + c.r.intn(7)))
	}
}

var vltHuge = sdk.NewIntFromBigInt(new(big.Int).Lsh(big.NewInt(1), 200))

func (c *vltCase) vaultOf(ui int, p *vltProd) uint64 {
	m, found := c.a.VaultKeeper.GetUserAppExtendedPairMappingData(c.ctx, c.users[ui].String(), p.app, p.id)
	if found {
		return m.VaultId
	}
	return 0
}

// ---------- one random op ----------
func (c *vltCase) randomOp() {
	r, a, tr := c.r, c.a, c.tr
	ui := r.intn(len(c.users))
	u := c.users[ui]
	p := c.prods[r.intn(len(c.prods))]
	app, ep := p.app, p.id
	// malformed routing: wrong app / unknown ext pair / another product's pair
	switch r.intn(40) {
	case 0:
		app = 77
	case 1:
		ep = 999
	case 2:
		ep = c.prods[r.intn(len(c.prods))].id
	case 3:
		if len(c.apps) > 1 {
			app = c.apps[r.intn(len(c.apps))]
		}
	}
	vid := c.vaultOf(ui, p)
	if r.chance(6) { // someone else's vault, a dead id, id 0
		vid = uint64(r.intn(int(a.VaultKeeper.GetIDForVault(c.ctx)) + 2))
	}
	var v vaulttypes.Vault
	vfound := false
	if vid != 0 {
		v, vfound = a.VaultKeeper.GetVault(c.ctx, vid)
	}
	minted := sdk.ZeroInt()
	if d, found := a.VaultKeeper.GetAppExtendedPairVaultMappingData(c.ctx, p.app, p.id); found {
		minted = d.TokenMintedAmount
	}
	room := p.ceiling.Sub(minted)

	// state-aware choice of the op kind (ranges below): mostly ops that can succeed in this state
	pickKind := func(ws ...int) int { // ws: pairs (kind representative, weight)
		tot := 0
		for i := 1; i < len(ws); i += 2 {
			tot += ws[i]
		}
		x := r.intn(tot)
		for i := 0; i < len(ws); i += 2 {
			if x < ws[i+1] {
				return ws[i]
			}
			x -= ws[i+1]
		}
		return ws[0]
	}
	const (
		kCreate, kDeposit, kWithdraw, kDraw, kRepay, kClose, kDepDraw, kInterest = 0, 14, 22, 32, 44, 54, 60, 66
		kSCreate, kSDeposit, kSWithdraw, kDonate, kTime, kPrice                   = 70, 75, 81, 88, 91, 96
	)
	var kind int
	switch {
	case r.chance(16):
		kind = pickKind(kDonate, 3, kTime, 7, kPrice, 6)
	case p.stable:
		if _, found := a.VaultKeeper.GetStableMintVault(c.ctx, c.stableOf(p)); found && len(c.stableIds(p)) > 0 {
			kind = pickKind(kSDeposit, 45, kSWithdraw, 45, kSCreate, 4, kCreate, 2, kDeposit, 2, kDraw, 2)
		} else {
			kind = pickKind(kSCreate, 80, kSDeposit, 8, kSWithdraw, 8, kCreate, 4)
		}
	case !vfound:
		kind = pickKind(kCreate, 88, kDeposit, 1, kWithdraw, 1, kDraw, 1, kRepay, 1, kClose, 1, kDepDraw, 1, kInterest, 1, kSCreate, 1)
	default:
		kind = pickKind(kDeposit, 10, kWithdraw, 17, kDraw, 19, kRepay, 17, kClose, 6, kDepDraw, 9, kInterest, 5, kCreate, 3, kSDeposit, 1, kSWithdraw, 1)
		// an existing vault addressed through another product of the same app (every vault message
		// has its own "the pair of the message is the pair of the vault" guard)
		if r.chance(7) {
			var others []uint64
			for _, q := range c.prods {
				if q.app == p.app && q.id != p.id && !q.stable {
					others = append(others, q.id)
				}
			}
			if len(others) > 0 {
				app, ep = p.app, others[r.intn(len(others))]
				kind = pickKind(kDeposit, 30, kWithdraw, 15, kDraw, 15, kRepay, 15, kClose, 10, kDepDraw, 15)
			}
		}
	}
	switch {
	case kind < 14: // ---- create
		// a debt target between floor and the room under the ceiling, the collateral that just
		// carries it scaled up by a random factor, then the debt at / around the exact threshold
		target := p.floor.Add(c.natural(p.out))
		if room.GT(p.floor) && target.GTE(room) {
			target = p.floor.Add(room.Sub(p.floor).QuoRaw(int64(2 + r.intn(5))))
		}
		ain := c.minColl(p, target)
		if ain.IsZero() {
			ain = c.natural(p.in)
		} else {
			if r.chance(50) {
				ain = ain.MulRaw(int64(10 + r.intn(30))).QuoRaw(10)
			}
		}
		if r.chance(12) {
			ain = c.natural(p.in)
		}
		if r.chance(3) {
			ain = vltHuge
		}
		b := c.maxDebt(p, ain)
		var aout sdk.Int
		switch x := r.intn(100); {
		case x < 30:
			aout = c.pickInt(b.SubRaw(1), b, b.AddRaw(1))
		case x < 65:
			aout = c.pickInt(target, b.QuoRaw(2), b.MulRaw(2).QuoRaw(3), target)
		case x < 85:
			aout = c.pickInt(p.floor.SubRaw(1), p.floor, p.floor.AddRaw(1), room.SubRaw(1), room, room.AddRaw(1))
		default:
			aout = c.pickInt(c.natural(p.out), b.QuoRaw(5), b.MulRaw(2))
		}
		if r.chance(2) {
			aout = sdk.NewIntFromUint64(1 << 63).AddRaw(int64(r.intn(3)) - 1) // around the Int64() limit
		}
		if r.chance(2) {
			aout = sdk.ZeroInt()
		}
		if aout.IsNegative() {
			aout = sdk.NewInt(1)
		}
		res := c.exec(vaulttypes.NewMsgCreateRequest(u, app, ep, ain, aout))
		tr.p("op create %d %d %d %s %s %s", c.acct(ui), app, ep, ain, aout, res)
	case kind < 22: // ---- deposit
		amt := c.natural(p.in)
		if r.chance(3) {
			amt = sdk.ZeroInt()
		}
		ie := c.dryInterest(c.ctx, app, ep, vid)
		res := c.exec(vaulttypes.NewMsgDepositRequest(u, app, ep, vid, amt))
		tr.p("op deposit %d %d %d %d %s %s %s", c.acct(ui), app, ep, vid, amt, ie, res)
	case kind < 32: // ---- withdraw
		ie := c.dryInterest(c.ctx, app, ep, vid)
		amt := c.natural(p.in)
		if vfound {
			debt := v.AmountOut.Add(v.InterestAccumulated).Add(vltNonNeg(ie)).Add(v.ClosingFeeAccumulated)
			m := v.AmountIn.Sub(c.minColl(p, debt))
			amt = c.pickInt(m.SubRaw(1), m, m.AddRaw(1), m, m.QuoRaw(2), m.QuoRaw(3), v.AmountIn, v.AmountIn.SubRaw(1), sdk.NewInt(1), amt)
			amt = vltPos(amt)
		}
		res := c.exec(vaulttypes.NewMsgWithdrawRequest(u, app, ep, vid, amt))
		tr.p("op withdraw %d %d %d %d %s %s %s", c.acct(ui), app, ep, vid, amt, ie, res)
	case kind < 44: // ---- draw
		ie := c.dryInterest(c.ctx, app, ep, vid)
		amt := c.natural(p.out)
		if vfound {
			d := c.maxDebt(p, v.AmountIn).Sub(v.AmountOut).Sub(v.InterestAccumulated).Sub(vltNonNeg(ie)).Sub(v.ClosingFeeAccumulated)
			amt = c.pickInt(d.SubRaw(1), d, d.AddRaw(1), d, d.QuoRaw(2), d.QuoRaw(4), room.SubRaw(1), room, room.AddRaw(1), sdk.NewInt(1), amt)
			amt = vltPos(amt)
		}
		res := c.exec(vaulttypes.NewMsgDrawRequest(u, app, ep, vid, amt))
		tr.p("op draw %d %d %d %d %s %s %s", c.acct(ui), app, ep, vid, amt, ie, res)
	case kind < 54: // ---- repay
		ie := c.dryInterest(c.ctx, app, ep, vid)
		amt := c.natural(p.out)
		if vfound {
			in := v.InterestAccumulated.Add(vltNonNeg(ie))
			tofloor := in.Add(v.AmountOut).Sub(p.floor)
			amt = c.pickInt(in, in.AddRaw(1), in.SubRaw(1), tofloor, tofloor.AddRaw(1), tofloor.SubRaw(1), in.Add(v.AmountOut), in.Add(v.AmountOut).AddRaw(1),
				v.AmountOut.QuoRaw(2), v.AmountOut.QuoRaw(3), sdk.NewInt(1), amt)
			amt = vltPos(amt)
		}
		res := c.exec(vaulttypes.NewMsgRepayRequest(u, app, ep, vid, amt))
		tr.p("op repay %d %d %d %d %s %s %s", c.acct(ui), app, ep, vid, amt, ie, res)
	case kind < 60: // ---- close
		ie := c.dryInterest(c.ctx, app, ep, vid)
		res := c.exec(vaulttypes.NewMsgLiquidateRequest(u, app, ep, vid))
		tr.p("op close %d %d %d %d %s %s", c.acct(ui), app, ep, vid, ie, res)
	case kind < 66: // ---- deposit and draw
		amt := c.natural(p.in)
		if r.chance(10) {
			amt = sdk.NewInt(int64(1 + r.intn(5)))
		}
		i1 := c.dryInterest(c.ctx, app, ep, vid)
		// second interest call: after the inner deposit, on a throw-away branch
		i2 := sdk.ZeroInt()
		cctx, _ := c.ctx.CacheContext()
		pan, _ := safely(func() {
			h := a.MsgServiceRouter().Handler(&vaulttypes.MsgDepositRequest{})
			if _, err := h(cctx, vaulttypes.NewMsgDepositRequest(u, app, ep, vid, amt)); err == nil {
				i2 = c.dryInterest(cctx, app, ep, vid)
			}
		})
		_ = pan
		res := c.exec(vaulttypes.NewMsgDepositAndDrawRequest(u, app, ep, vid, amt))
		tr.p("op depositdraw %d %d %d %d %s %s %s %s", c.acct(ui), app, ep, vid, amt, i1, i2, res)
	case kind < 70: // ---- interest calc
		ie := sdk.ZeroInt()
		if vfound {
			ie = c.dryInterest(c.ctx, app, v.ExtendedPairVaultID, vid)
		}
		res := c.exec(vaulttypes.NewMsgVaultInterestCalcRequest(u, app, vid))
		tr.p("op interest %d %d %s %s", app, vid, ie, res)
	case kind < 75: // ---- stable create
		amt := c.stableAmount(p.in)
		res := c.exec(vaulttypes.NewMsgCreateStableMintRequest(u, app, ep, amt))
		tr.p("op screate %d %d %d %s %s", c.acct(ui), app, ep, amt, res)
	case kind < 81: // ---- stable deposit
		amt := c.stableAmount(p.in)
		sid := c.stableOf(p)
		if r.chance(5) {
			sid = uint64(r.intn(3))
		}
		res := c.exec(vaulttypes.NewMsgDepositStableMintRequest(u, app, ep, amt, sid))
		tr.p("op sdeposit %d %d %d %d %s %s", c.acct(ui), app, ep, sid, amt, res)
	case kind < 88: // ---- stable withdraw
		amt := c.stableAmount(p.out)
		sid := c.stableOf(p)
		if sv, found := a.VaultKeeper.GetStableMintVault(c.ctx, sid); found && r.chance(40) {
			amt = vltPos(c.pickInt(sv.AmountOut, sv.AmountOut.AddRaw(1), sv.AmountOut.QuoRaw(2), sv.AmountOut.QuoRaw(3).AddRaw(int64(r.intn(1000))),
				bal(a, c.ctx, u, p.out.denom)))
		}
		if r.chance(5) {
			sid = uint64(r.intn(3))
		}
		res := c.exec(vaulttypes.NewMsgWithdrawStableMintRequest(u, app, ep, amt, sid))
		tr.p("op swithdraw %d %d %d %d %s %s", c.acct(ui), app, ep, sid, amt, res)
	case kind < 91: // ---- unsolicited transfer to the custody account
		as := c.assets[r.intn(len(c.assets))]
		amt := c.natural(as)
		var err error
		pan, _ := safely(func() {
			cctx, write := c.ctx.CacheContext()
			err = a.BankKeeper.SendCoins(cctx, u, modAddr("vaultV1"), sdk.NewCoins(sdk.NewCoin(as.denom, amt)))
			if err == nil {
				write()
			}
		})
		res := "ok"
		if pan {
			res = "panic"
		} else if err != nil {
			res = "err"
		}
		tr.p("op donate %d %d %s %s", c.acct(ui), as.id, amt, res)
	case kind < 96: // ---- time
		dt := int64(r.pickI(1, 6, 60, 3600, 86400, 86400*30, 86400*365))
		c.now = c.now.Add(time.Duration(dt) * time.Second)
		c.height += 1 + int64(r.intn(5))
		c.ctx = c.ctx.WithBlockTime(c.now).WithBlockHeight(c.height)
		tr.p("op time %d ok", dt)
	default: // ---- price
		as := c.assets[r.intn(len(c.assets))]
		tw, _ := a.MarketKeeper.GetTwa(c.ctx, as.id)
		np := tw.Twa
		switch r.intn(6) {
		case 0:
			np = np * 2
		case 1:
			np = np/2 + 1
		case 2:
			np = np + np/10 + 1
		case 3:
			np = np - np/10
		case 4:
			np = uint64(1 + r.intn(5000000))
		}
		if np == 0 {
			np = 1
		}
		active := !r.chance(20)
		setPrice(a, c.ctx, as.id, np, active)
		tr.p("op price %d %s %d ok", as.id, b2s(active), np)
	}
}

func vltNonNeg(x sdk.Int) sdk.Int {
	if x.IsNegative() {
		return sdk.ZeroInt()
	}
	return x
}

func vltMax64(a, b int64) int64 {
	if a > b {
		return a
	}
	return b
}

func (c *vltCase) stableIds(p *vltProd) []uint64 {
	d, _ := c.a.VaultKeeper.GetAppExtendedPairVaultMappingData(c.ctx, p.app, p.id)
	return d.VaultIds
}

func (c *vltCase) stableOf(p *vltProd) uint64 {
	d, found := c.a.VaultKeeper.GetAppExtendedPairVaultMappingData(c.ctx, p.app, p.id)
	if found && len(d.VaultIds) > 0 {
		return d.VaultIds[0]
	}
	return 1
}

func (c *vltCase) stableAmount(as *vltAsset) sdk.Int {
	unit := sdk.NewInt(as.dec)
	switch c.r.intn(10) {
	case 0:
		return sdk.NewInt(int64(1 + c.r.intn(3)))
	case 1:
		return unit.MulRaw(int64(1+c.r.intn(20))).AddRaw(int64(c.r.intn(1000000)))
	case 2:
		return unit.QuoRaw(1000000).AddRaw(int64(c.r.intn(1000))).AddRaw(1)
	case 3:
		return sdk.NewInt(2000000)
	default:
		return unit.MulRaw(int64(1 + c.r.intn(50)))
	}
}

// control switches (rare): circuit breaker, ESM with / without price snapshot
func (c *vltCase) controlOp() {
	r, a, tr := c.r, c.a, c.tr
	app := c.apps[r.intn(len(c.apps))]
	if r.chance(40) {
		on := r.chance(60)
		if err := a.EsmKeeper.SetKillSwitchData(c.ctx, esmtypes.KillSwitchParams{AppId: app, BreakerEnable: on}); err != nil {
			c.t.Fatal(err)
		}
		tr.p("op breaker %d %s ok", app, b2s(on))
		c.obs()
		return
	}
	status := r.chance(75)
	snapshot := r.chance(70)
	end := c.now.Add(time.Duration(r.pickI(-10, 100, 100000)) * time.Second)
	a.EsmKeeper.SetESMStatus(c.ctx, esmtypes.ESMStatus{AppId: app, Status: status, EndTime: end, SnapshotStatus: snapshot})
	tr.p("op esm %d %s %d %s ok", app, b2s(status), end.Unix(), b2s(snapshot))
	c.obs()
	if snapshot && status {
		for _, as := range c.assets {
			if r.chance(85) {
				tw, _ := a.MarketKeeper.GetTwa(c.ctx, as.id)
				pr := tw.Twa
				if pr == 0 || r.chance(20) {
					pr = uint64(1 + r.intn(3000000))
				}
				a.EsmKeeper.SetSnapshotOfPrices(c.ctx, app, as.id, pr)
				tr.p("op snap %d %d %d ok", app, as.id, pr)
				c.obs()
			}
		}
	}
}

// ---------- case set-up ----------
var vltDecPairs = [][2]int{{6, 6}, {6, 18}, {18, 6}, {8, 6}, {6, 6}, {18, 18}}

func (c *vltCase) setup(ci int) {
	r, a, t := c.r, c.a, c.t
	ctx := c.ctx
	napps := 1 + r.intn(2)
	names := []string{"vone", "vtwo"}
	for i := 0; i < napps; i++ {
		c.apps = append(c.apps, addAppRecord(t, a, ctx, names[i]))
	}
	assetByKey := map[string]*vltAsset{}
	getAsset := func(dec int, debt bool, salt int) *vltAsset {
		key := fmt.Sprintf("%d-%v-%d", dec, debt, salt)
		if as, ok := assetByKey[key]; ok {
			return as
		}
		letters := "ABCDEFGHIJKLMNOPQRSTUVWXYZ"
		name := "V" + string(letters[len(assetByKey)%26]) + string(letters[(len(assetByKey)/26)%26])
		if debt {
			name += "D"
		} else {
			name += "C"
		}
		scale := vltPow10(dec).Int64()
		as := &vltAsset{denom: "u" + strings.ToLower(name), dec: scale, debt: debt}
		as.id = addAsset(t, a, ctx, name, as.denom, scale, true, debt)
		assetByKey[key] = as
		c.assets = append(c.assets, as)
		return as
	}
	nprod := 2 + r.intn(2)
	withStable := r.chance(75)
	total := nprod
	if withStable {
		total++
	}
	pairIDs := map[[2]uint64]uint64{}
	for i := 0; i < total; i++ {
		stable := withStable && i == total-1
		dp := vltDecPairs[r.intn(len(vltDecPairs))]
		in := getAsset(dp[0], false, r.intn(2))
		out := getAsset(dp[1], true, 0)
		if stable {
			in = getAsset(dp[0], false, 7) // a dedicated collateral for the stable product
		}
		key := [2]uint64{in.id, out.id}
		pid, ok := pairIDs[key]
		if !ok {
			pid = addPair(t, a, ctx, in.id, out.id)
			pairIDs[key] = pid
		}
		p := &vltProd{app: c.apps[r.intn(len(c.apps))], pair: pid, in: in, out: out, stable: stable}
		p.stab = vltDecStr([]string{"0", "0.02", "0.25", "0.9"}[r.intn(4)])
		p.closing = vltDecStr([]string{"0", "0.005", "0.000000000000000001", "0.1"}[r.intn(4)])
		p.ddf = vltDecStr([]string{"0", "0", "0.000000000000000001", "0.005", "0.01", "0.999999999999999999"}[r.intn(6)])
		p.minCr = vltDecStr([]string{"1.5", "1", "1.3", "2", "1.000000000000000001", "1.7"}[r.intn(6)])
		outUnit := sdk.NewInt(out.dec)
		p.floor = c.pickInt(sdk.NewInt(1), outUnit, outUnit.MulRaw(10), sdk.NewInt(1000), sdk.ZeroInt())
		p.ceiling = c.pickInt(outUnit.MulRaw(1000), outUnit.MulRaw(100000), outUnit.MulRaw(50), outUnit.MulRaw(10000000))
		if stable {
			p.floor = c.pickInt(sdk.NewInt(1), sdk.NewInt(1000), outUnit, sdk.ZeroInt())
		}
		if !p.floor.LT(p.ceiling) {
			p.floor = sdk.NewInt(1)
		}
		p.active = !r.chance(3)
		p.orc = r.chance(50)
		p.outPrice = r.pickU(1000000, 1000000, 1010000, 990000, 2000000)
		name := "P" + string("ABCDEFGH"[i]) + "-X"
		p.id = addExtPair(t, a, ctx, extPairCfg{Name: name, App: p.app, Pair: pid, StabilityFee: p.stab, ClosingFee: p.closing,
			LiqPenalty: vltDecStr("0.15"), DrawDownFee: p.ddf, MinCr: p.minCr, DebtCeiling: p.ceiling, DebtFloor: p.floor,
			Stable: stable, Active: p.active, OraclePrice: p.orc, AssetOutPrice: p.outPrice, MinUsdValLeft: 100000})
		c.prods = append(c.prods, p)
	}
	// prices
	for _, as := range c.assets {
		pr := uint64(1000000)
		if !as.debt {
			pr = r.pickU(1, 7, 1000000, 2500000, 13370000, 250000, 999999, 40000000000)
		} else if r.chance(30) {
			pr = r.pickU(990000, 1010000, 1000001)
		}
		setPrice(a, ctx, as.id, pr, !r.chance(4))
	}
	// users, funded with every asset (debt-denom funding = supply that is external to the vaults)
	nusers := 2 + r.intn(3)
	c.owner = map[string]int{}
	for i := 0; i < nusers; i++ {
		u := addrN(1000 + i)
		c.users = append(c.users, u)
		c.owner[u.String()] = c.acct(i)
		var coins sdk.Coins
		for _, as := range c.assets {
			amt := sdk.NewInt(as.dec).MulRaw(int64(r.pickI(0, 50, 1000000, 1000000000, 20000)))
			if r.chance(10) {
				amt = amt.AddRaw(int64(r.intn(1000)))
			}
			if amt.IsPositive() {
				coins = coins.Add(sdk.NewCoin(as.denom, amt))
			}
		}
		if !coins.IsZero() {
			fund(t, a, ctx, u, coins)
		}
	}
	for _, app := range c.apps {
		if r.chance(75) {
			if err := a.Rewardskeeper.WhitelistAppIDVault(ctx, app); err != nil {
				t.Fatal(err)
			}
		}
	}
	// trace header
	var sb strings.Builder
	for _, x := range c.apps {
		fmt.Fprintf(&sb, " %d", x)
	}
	c.tr.p("apps %d%s", len(c.apps), sb.String())
	sb.Reset()
	for _, as := range c.assets {
		fmt.Fprintf(&sb, " %d", as.id)
	}
	c.tr.p("assets %d%s", len(c.assets), sb.String())
	for _, p := range c.prods {
		c.tr.p("ep %d %d %d %d %d %d %s %s %s %s %s %s %s %s %s %d", p.id, p.app, p.in.id, p.out.id, p.in.dec, p.out.dec,
			p.stab.BigInt(), p.closing.BigInt(), p.ddf.BigInt(), p.minCr.BigInt(), p.floor, p.ceiling, b2s(p.stable), b2s(p.active), b2s(p.orc), p.outPrice)
	}
	c.tr.p("users %d", nusers)
}

func vltRunCase(t *testing.T, a *chain.App, base sdk.Context, tr *tracer, ci int, caseSeed uint64, directed int) {
	ctx, _ := base.CacheContext()
	c := &vltCase{t: t, a: a, ctx: ctx, tr: tr, r: newRng(caseSeed), now: baseTime, height: 1, esmOn: map[uint64]bool{}}
	tr.p("case %d %d", ci, directed)
	c.setup(ci)
	c.now = c.now.Add(10 * time.Second)
	c.height = 2
	c.ctx = c.ctx.WithBlockTime(c.now).WithBlockHeight(c.height)
	tr.p("init")
	c.obs()
	if directed == 1 {
		c.directedStableZeroFee()
		return
	}
	nops := 20 + c.r.intn(41)
	for i := 0; i < nops; i++ {
		if i > nops/2 && c.r.chance(3) {
			c.controlOp()
			continue
		}
		c.randomOp()
		c.obs()
	}
}

// the confirmed C02-F1 witness as a fixed history: decimals (6,18), zero draw-down fee, deposit
// 2 000 000 into a fresh stable-mint product
func (c *vltCase) directedStableZeroFee() {
	t, a := c.t, c.a
	in := &vltAsset{denom: "uvzsc", dec: 1000000}
	out := &vltAsset{denom: "uvzsd", dec: vltPow10(18).Int64(), debt: true}
	in.id = addAsset(t, a, c.ctx, "VZSC", in.denom, in.dec, true, false)
	out.id = addAsset(t, a, c.ctx, "VZSD", out.denom, out.dec, true, true)
	setPrice(a, c.ctx, in.id, 1000000, true)
	setPrice(a, c.ctx, out.id, 1000000, true)
	pid := addPair(t, a, c.ctx, in.id, out.id)
	p := &vltProd{app: c.apps[0], pair: pid, in: in, out: out, stable: true, stab: sdk.ZeroDec(), closing: sdk.ZeroDec(), ddf: sdk.ZeroDec(),
		minCr: vltDecStr("1"), floor: sdk.NewInt(1), ceiling: sdk.NewInt(out.dec).MulRaw(1000000), active: true, orc: false, outPrice: 1000000}
	p.id = addExtPair(t, a, c.ctx, extPairCfg{Name: "PZ-X", App: p.app, Pair: pid, StabilityFee: p.stab, ClosingFee: p.closing, LiqPenalty: vltDecStr("0.15"),
		DrawDownFee: p.ddf, MinCr: p.minCr, DebtCeiling: p.ceiling, DebtFloor: p.floor, Stable: true, Active: true, OraclePrice: false, AssetOutPrice: 1000000, MinUsdValLeft: 100000})
	c.assets = append(c.assets, in, out)
	c.prods = append(c.prods, p)
	fund(t, a, c.ctx, c.users[0], sdk.NewCoins(sdk.NewCoin(in.denom, sdk.NewInt(500000000))))
	c.tr.p("addasset %d", in.id)
	c.tr.p("addasset %d", out.id)
	c.tr.p("ep %d %d %d %d %d %d %s %s %s %s %s %s %s %s %s %d", p.id, p.app, p.in.id, p.out.id, p.in.dec, p.out.dec,
		p.stab.BigInt(), p.closing.BigInt(), p.ddf.BigInt(), p.minCr.BigInt(), p.floor, p.ceiling, b2s(p.stable), b2s(p.active), b2s(p.orc), p.outPrice)
	c.tr.p("init")
	c.obs()
	amt := sdk.NewInt(2000000)
	res := c.exec(vaulttypes.NewMsgCreateStableMintRequest(c.users[0], p.app, p.id, amt))
	c.tr.p("op screate %d %d %d %s %s", c.acct(0), p.app, p.id, amt, res)
	c.obs()
	res = c.exec(vaulttypes.NewMsgDepositStableMintRequest(c.users[0], p.app, p.id, amt, 1))
	c.tr.p("op sdeposit %d %d %d %d %s %s", c.acct(0), p.app, p.id, 1, amt, res)
	c.obs()
	for i := 0; i < 10; i++ {
		c.randomOp()
		c.obs()
	}
}

// TestC01 is the workload of C01, C02 and C03.
func TestC01(t *testing.T) {
	a, base := newApp(t)
	tr := newTracer(t, "c01.trace")
	defer tr.close()
	// newRng(s+1) is newRng(s) shifted by one draw (common_test.go): hash the seed first so that
	// different VERIF_SEEDs give unrelated case streams
	r := newRng(newRng(seed()).next() ^ 0xC01)
	ncases := envInt("VERIF_CASES", 60)
	only := envInt("VERIF_CASE", -1)
	if os.Getenv("VERIF_DEBUG") != "" {
		t.Logf("cases=%d only=%d", ncases, only)
	}
	for ci := 0; ci < ncases; ci++ {
		caseSeed := r.next() // the only draw from the top-level PRNG per case: VERIF_CASE replays exactly
		if only >= 0 && ci != only {
			continue
		}
		directed := 0
		if ci%25 == 3 {
			directed = 1
		}
		vltRunCase(t, a, base, tr, ci, caseSeed, directed)
	}
}
