//go:build verif

package verifharness

import (
	"os"
	"reflect"
	"sort"
	"strings"
	"testing"

	sdk "github.com/cosmos/cosmos-sdk/types"

	chain "github.com/comdex-official/comdex/app"
)

// c14xCandidates: the boundary amounts of the extended state: those of the owner's records (c14Candidates)
// plus every amount stored in the running auctions of both generations, the locked vaults behind them,
// the reserve funds, the shutdown deposit and target, and the keeper's wallet.
func c14xCandidates(a *chain.App, ctx sdk.Context, x *c12xWorld, v *c12World) []c14Cand {
	raw := c14Candidates(a, ctx, v)
	add := func(rec interface{}) { c14Collect(reflect.ValueOf(rec), &raw, 0) }
	for _, au := range a.NewaucKeeper.GetAuctions(ctx) {
		add(au)
		if lv, ok := a.NewliqKeeper.GetLockedVault(ctx, au.AppId, au.LockedVaultId); ok {
			add(lv)
		}
	}
	for _, app := range []uint64{v.VaultApp, v.LendApp, x.SoloApp} {
		for _, au := range a.AuctionKeeper.GetDutchAuctions(ctx, app) {
			add(au)
		}
		for _, au := range a.AuctionKeeper.GetDutchLendAuctions(ctx, app) {
			add(au)
		}
		for _, au := range a.AuctionKeeper.GetSurplusAuctions(ctx, app) {
			add(au)
		}
		for _, au := range a.AuctionKeeper.GetDebtAuctions(ctx, app) {
			add(au)
		}
		if rf, ok := a.NewliqKeeper.GetAppReserveFunds(ctx, app, v.CMST); ok {
			add(rf)
		}
		if ds, ok := a.EsmKeeper.GetCurrentDepositStats(ctx, app); ok {
			add(ds)
		}
		if tp, ok := a.EsmKeeper.GetESMTriggerParams(ctx, app); ok {
			add(tp)
		}
	}
	if x.HasE {
		for _, am := range a.EsmKeeper.GetAllAssetToAmount(x.CtxE, v.VaultApp) {
			add(am)
		}
	}
	byVal := map[string]c14Cand{}
	for _, c := range raw {
		if c.val.IsNil() || !c.val.GT(sdk.OneInt()) {
			continue
		}
		k := c.val.String()
		if old, ok := byVal[k]; ok && old.denom != c.denom {
			c.denom = ""
		}
		byVal[k] = c
	}
	out := make([]c14Cand, 0, len(byVal))
	for _, c := range byVal {
		out = append(out, c)
	}
	sort.Slice(out, func(i, j int) bool { return out[i].val.LT(out[j].val) })
	return out
}

// TestC14X: the control matrix over the messages the plain matrix does not send (c12xMessages), on the
// state with unhealthy positions, running auctions of both generations and (for the redemption) the
// executed shutdown: default amount x breaker x ESM phase x {all prices active, none} and every subset of
// the priced assets inactive; every amount field x boundary amounts of the state x {no control, breaker, ESM
// in / after cool-off, each single price the run reads inactive} (quick tier: a seed-chosen third of the
// boundary amounts); thorough tier / directed search: every amount x every control state x every subset.
// Reference of every (message, amount): the uncontrolled all-active run on the same state.
func TestC14X(t *testing.T) {
	c12SetPrefixes()
	a, base := newApp(t)
	tr := newTracer(t, "c14x.trace")
	defer tr.close()
	only := envInt("VERIF_CASE", -1)
	focus := map[string]bool{}
	for _, h := range strings.Split(os.Getenv("VERIF_FOCUS"), ",") {
		if h = strings.TrimSpace(h); h != "" {
			focus[h] = true
		}
	}
	phase2All := envInt("VERIF_ALLMASKS", 0) == 1 || envInt("VERIF_SEARCH", 0) == 1
	sample := envInt("VERIF_AMOUNT_SAMPLE", 1)   // phase 1: run every sample-th boundary amount
	sample2 := envInt("VERIF_AMOUNT_SAMPLE2", 1) // phase 2 (every control state x every price subset): every sample2-th boundary amount
	x := c12xSetup(t, a, base)
	for _, n := range x.Notes {
		tr.p("# fixture-note %s", strings.ReplaceAll(n, "\n", " "))
	}
	w := x.Views[0]
	np := len(w.PriceAssets)
	full := (1 << np) - 1
	ci := 0
	cands := c14xCandidates(a, x.Ctx, x, w)
	if len(focus) > 0 && only < 0 {
		tr.p("# focus %s", os.Getenv("VERIF_FOCUS"))
	}
	for _, m := range c12xMessages(x, w, w.Owner) {
		if len(c14AmountFields(m.Msg)) == 0 {
			tr.p("# no-amount-field %s", m.Handler)
		}
	}
	nmsgs := len(c12xMessages(x, w, w.Owner))
	type variant struct {
		field *c14AmtField
		amt   sdk.Int
	}
	for phase := 1; phase <= 2; phase++ {
		for mi := 0; mi < nmsgs; mi++ {
			proto := c12xMessages(x, w, w.Owner)[mi]
			runPhase := phase == 1 || phase2All || focus[proto.Handler]
			if phase == 1 && len(focus) > 0 && !focus[proto.Handler] && only < 0 {
				runPhase = false
			}
			// messages on the signer's own records are signed by the owner, the others by a funded account that owns nothing
			signer := w.Other1
			if proto.Natural == 0 {
				signer = w.Owner
			} else if runPhase || only >= 0 {
				if cls, _, _ := execMsg(a, x.c12xBranch(proto), c12xMessages(x, w, w.Other1)[mi].Msg); cls != "ok" {
					signer = w.Owner
				}
			}
			app := proto.App
			fields := c14AmountFields(proto.Msg)
			variants := []variant{{}}
			for fi := range fields {
				for _, v := range c14AmountsFor(fields[fi], cands) {
					variants = append(variants, variant{&fields[fi], v})
				}
			}
			for vi, vr := range variants {
				build := func() sdk.Msg {
					m := c12xMessages(x, w, signer)[mi].Msg
					if vr.field != nil {
						c14SetAmount(m, *vr.field, vr.amt)
					}
					return m
				}
				tag := proto.Variant + ":default"
				if vr.field != nil {
					tag = proto.Variant + ":" + vr.field.name + "=" + vr.amt.String()
				}
				var ctls []c14Ctl
				switch {
				case phase == 1 && vr.field == nil:
					for _, breaker := range []bool{false, true} {
						for esm := 0; esm < 3; esm++ {
							if !breaker && esm == 0 {
								for m := 0; m <= full; m++ {
									ctls = append(ctls, c14Ctl{false, 0, m})
								}
							} else {
								ctls = append(ctls, c14Ctl{breaker, esm, 0}, c14Ctl{breaker, esm, full})
							}
						}
					}
				case phase == 1:
					ctls = []c14Ctl{{false, 0, 0}, {true, 0, 0}, {false, 1, 0}, {false, 2, 0}}
					for i := 0; i < np; i++ {
						ctls = append(ctls, c14Ctl{false, 0, 1 << i})
					}
				default:
					for _, breaker := range []bool{false, true} {
						for esm := 0; esm < 3; esm++ {
							for m := 0; m <= full; m++ {
								ctls = append(ctls, c14Ctl{breaker, esm, m})
							}
						}
					}
				}
				first := ci
				ci += len(ctls)
				if !runPhase && only < 0 {
					continue
				}
				if only >= 0 && (only < first || only >= ci) {
					continue
				}
				if only < 0 && phase == 1 && vr.field != nil && sample > 1 && (vi+int(seed()))%sample != 0 {
					continue // quick tier: a seed-chosen part of the boundary amounts
				}
				if only < 0 && phase == 2 && vr.field != nil && len(focus) == 0 && sample2 > 1 && (vi+int(seed()))%sample2 != 0 {
					continue
				}
				_, _, reads := c14TracedRun(a, x.c12xBranch(proto), w, build())
				bctx := x.c12xBranch(proto)
				baseCls, _, _ := c12RunMsg(a, bctx, build())
				baseDigest := storeDigest(a, bctx, c14StoresNoMarket...)
				sensitive := map[int]bool{}
				usesPrice := func(i int) bool {
					if v, ok := sensitive[i]; ok {
						return v
					}
					res := false
					for _, f := range []func(uint64) uint64{func(p uint64) uint64 { return p * 1000 }, func(p uint64) uint64 { return p/1000 + 1 }} {
						pctx := x.c12xBranch(proto)
						pid := w.PriceAssets[i]
						setPrice(a, pctx, pid, f(w.Prices[pid]), true)
						pcls, _, _ := c12RunMsg(a, pctx, build())
						if pcls != baseCls || storeDigest(a, pctx, c14StoresNoMarket...) != baseDigest {
							res = true
						}
					}
					sensitive[i] = res
					return res
				}
				for k, ctl := range ctls {
					id := first + k
					if only >= 0 && id != only {
						continue
					}
					if phase == 1 && vr.field != nil && ctl.mask != 0 && ctl.mask&reads == 0 && only < 0 {
						continue
					}
					ctx := x.c12xBranch(proto)
					c14SetControls(a, ctx, w, app, ctl.breaker, ctl.esm, ctl.mask)
					msg := build()
					cls, kind, changed := c12RunMsg(a, ctx, msg)
					same, needed := false, 0
					if cls == "ok" {
						same = storeDigest(a, ctx, c14StoresNoMarket...) == baseDigest
						for i := 0; i < np; i++ {
							if ctl.mask&reads&(1<<i) != 0 && usesPrice(i) {
								needed |= 1 << i
							}
						}
					}
					tr.p("case %d c14 %s %d %s %d %d %d %s %s %s %s %s %d %d %s", id, proto.Handler, app, b2s(ctl.breaker), ctl.esm, ctl.mask, np,
						cls, kind, b2s(changed), baseCls, b2s(same), reads, needed, tag)
					tr.p("  msg %T %s", msg, msg.String())
					tr.p("  state %s (X: unhealthy positions and running auctions after the collateral price fell to %d; E: shutdown executed, cool-off over)", proto.State, c12xNewCMDX)
				}
			}
		}
	}
}
