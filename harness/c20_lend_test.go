//go:build verif

package verifharness

// C20, third workload: genesis round trip of the lend module with GAPS in its id spaces - several
// lend positions and borrows are opened, then an OLDER one is closed while younger ones stay open (or
// the newest one, or none) - followed by a "fresh ids" continuation: the next lend id, borrow id,
// pool id and pair id each chain hands out, and operations on the positions that were open before the
// export.  A counter restored as the NUMBER of imported records instead of their highest id re-issues
// the id of a live position exactly in the gap histories.
// Same trace format as TestC20 (case / imp / p / cont lines), same runner entry.

import (
	"fmt"
	"sort"
	"testing"

	sdk "github.com/cosmos/cosmos-sdk/types"

	chain "github.com/comdex-official/comdex/app"
	assettypes "github.com/comdex-official/comdex/x/asset/types"
	lendtypes "github.com/comdex-official/comdex/x/lend/types"
)

type c20LendScenario struct {
	nLend       int // lend positions opened (3..6), ids 1..nLend
	closeLend   int // 0 none, k: the k-th lend is closed before the export (k < nLend: a gap; k = nLend: the newest)
	nBorrow     int // borrows opened (0..3), on the first lends
	closeBorrow int // 0 none, k: the k-th borrow is closed before the export
	amt         int64
}

type c20LendWorld struct {
	t       *testing.T
	a       *chain.App
	app     uint64
	assets  []uint64 // A (second transit), B (main), C (first transit)
	cassets []uint64
	denoms  []string
	pool    uint64
	pairs   map[[2]uint64]uint64 // (asset in, asset out) -> pair id
	users   []sdk.AccAddress
	lendBy  [][2]int // k-th lend: (user, asset index)
}

func c20LendSetup(t *testing.T, a *chain.App, ctx sdk.Context) *c20LendWorld {
	w := &c20LendWorld{t: t, a: a, pairs: map[[2]uint64]uint64{}}
	if err := a.AssetKeeper.AddAppRecords(ctx, assettypes.AppData{Name: lendtypes.AppName, ShortName: "cmmdo", MinGovDeposit: sdk.NewInt(0), GovTimeInSeconds: 0,
		GenesisToken: []assettypes.MintGenesisToken{}}); err != nil {
		t.Fatal(err)
	}
	apps, _ := a.AssetKeeper.GetApps(ctx)
	for _, ap := range apps {
		if ap.Name == lendtypes.AppName {
			w.app = ap.Id
		}
	}
	for i := 0; i < 3; i++ {
		d := fmt.Sprintf("uasset%d", i+1)
		w.assets = append(w.assets, addAsset(t, a, ctx, fmt.Sprintf("ASSET%c", 'A'+i), d, 1000000, true, false))
		w.denoms = append(w.denoms, d)
	}
	for i := 0; i < 3; i++ {
		w.cassets = append(w.cassets, addAsset(t, a, ctx, fmt.Sprintf("CASSET%c", 'A'+i), fmt.Sprintf("ucasset%d", i+1), 1000000, false, false))
	}
	A := w.assets
	k := a.LendKeeper
	dec := sdk.MustNewDecFromStr
	pa := func(id, ty uint64) *lendtypes.AssetDataPoolMapping {
		return &lendtypes.AssetDataPoolMapping{AssetID: id, AssetTransitType: ty, SupplyCap: dec("5000000000000000000")}
	}
	if err := k.AddPoolRecords(ctx, lendtypes.Pool{ModuleName: "cmdx", CPoolName: "CMDX-A-B",
		AssetData: []*lendtypes.AssetDataPoolMapping{pa(A[0], 3), pa(A[1], 1), pa(A[2], 2)}}); err != nil {
		t.Fatal(err)
	}
	w.pool = k.GetPoolID(ctx)
	for i, id := range A {
		k.SetAssetRatesParams(ctx, lendtypes.AssetRatesParams{AssetID: id, UOptimal: dec("0.75"), Base: dec("0.002"), Slope1: dec("0.07"), Slope2: dec("1.25"),
			EnableStableBorrow: false, StableBase: dec("0"), StableSlope1: dec("0"), StableSlope2: dec("0"), Ltv: dec("0.7"),
			LiquidationThreshold: dec("0.75"), LiquidationPenalty: dec("0.05"), LiquidationBonus: dec("0.05"), ReserveFactor: dec("0.2"),
			CAssetID: w.cassets[i], IsIsolated: false, ELtv: dec("0.9"), ELiquidationThreshold: dec("0.95"), ELiquidationPenalty: dec("0.01")})
	}
	a2p := map[uint64][]uint64{}
	for i := range A {
		for j := range A {
			if i == j {
				continue
			}
			if err := k.AddLendPairsRecords(ctx, lendtypes.Extended_Pair{AssetIn: A[i], AssetOut: A[j], IsInterPool: false, AssetOutPoolID: w.pool, MinUsdValueLeft: 100000}); err != nil {
				t.Fatal(err)
			}
			id := k.GetLendPairID(ctx)
			w.pairs[[2]uint64{A[i], A[j]}] = id
			a2p[A[i]] = append(a2p[A[i]], id)
		}
	}
	for _, id := range A { // (ordered: the store content must not depend on map iteration)
		if err := k.AddAssetToPair(ctx, lendtypes.AssetToPairMapping{AssetID: id, PoolID: w.pool, PairID: a2p[id]}); err != nil {
			t.Fatal(err)
		}
	}
	for i := 0; i < 8; i++ {
		u := addrN(60 + i)
		w.users = append(w.users, u)
		var cs sdk.Coins
		for _, d := range w.denoms {
			cs = cs.Add(sdk.NewCoin(d, sdk.NewInt(1000000000000)))
		}
		fund(t, a, ctx, u, cs)
	}
	for _, d := range w.denoms {
		// the reserve, and spare liquidity in the pool account so that a position can be closed while
		// others have borrowed its asset
		if err := a.BankKeeper.MintCoins(ctx, lendtypes.ModuleName, sdk.NewCoins(sdk.NewCoin(d, sdk.NewInt(50000000+100000000000)))); err != nil {
			t.Fatal(err)
		}
		if err := a.BankKeeper.SendCoinsFromModuleToModule(ctx, lendtypes.ModuleName, "cmdx", sdk.NewCoins(sdk.NewCoin(d, sdk.NewInt(100000000000)))); err != nil {
			t.Fatal(err)
		}
	}
	for _, id := range A {
		setPrice(a, ctx, id, 1000000, true)
	}
	return w
}

func c20LendBalances(w *c20LendWorld, ctx sdk.Context) map[string]sdk.Int {
	out := map[string]sdk.Int{}
	hs := map[string]sdk.AccAddress{"cmdx": modAddr("cmdx"), "lend": modAddr(lendtypes.ModuleName)}
	for i, u := range w.users {
		hs[fmt.Sprintf("u%d", i)] = u
	}
	var names []string
	for n := range hs {
		names = append(names, n)
	}
	sort.Strings(names)
	for _, n := range names {
		for _, c := range w.a.BankKeeper.GetAllBalances(ctx, hs[n]) {
			out[n+"/"+c.Denom] = c.Amount
		}
	}
	return out
}

func c20LendPopulate(w *c20LendWorld, ctx sdk.Context, sc c20LendScenario) {
	t, a := w.t, w.a
	must := func(what, class string, err error) {
		if class != "ok" {
			t.Fatalf("populate %s: %s %v", what, class, err)
		}
	}
	// the k-th lend: user k/3, asset k%3 (one position per user, asset and pool)
	w.lendBy = nil
	for i := 0; i < sc.nLend; i++ {
		u, ai := i/3, i%3
		w.lendBy = append(w.lendBy, [2]int{u, ai})
		c, err, _ := execMsg(a, ctx, lendtypes.NewMsgLend(w.users[u].String(), w.assets[ai], sdk.NewCoin(w.denoms[ai], sdk.NewInt(sc.amt*100+int64(i))), w.pool, w.app))
		must(fmt.Sprintf("lend %d", i+1), c, err)
		if id := a.LendKeeper.GetUserLendIDCounter(ctx); id != uint64(i+1) {
			t.Fatalf("lend %d got id %d", i+1, id)
		}
	}
	// borrows: the j-th borrow is taken against lend j+1 (j = 0..): collateral = its cTokens, debt = the next asset
	for j := 0; j < sc.nBorrow; j++ {
		u, ai := w.lendBy[j][0], w.lendBy[j][1]
		out := (ai + 1) % 3
		pair := w.pairs[[2]uint64{w.assets[ai], w.assets[out]}]
		c, err, _ := execMsg(a, ctx, lendtypes.NewMsgBorrow(w.users[u].String(), uint64(j+1), pair, false,
			sdk.NewCoin(fmt.Sprintf("ucasset%d", ai+1), sdk.NewInt(sc.amt*40)), sdk.NewCoin(w.denoms[out], sdk.NewInt(sc.amt*10))))
		must(fmt.Sprintf("borrow %d", j+1), c, err)
	}
	if sc.closeBorrow > 0 {
		j := sc.closeBorrow - 1
		c, err, _ := execMsg(a, ctx, lendtypes.NewMsgCloseBorrow(w.users[w.lendBy[j][0]].String(), uint64(sc.closeBorrow)))
		must("close borrow", c, err)
	}
	if sc.closeLend > 0 {
		k := sc.closeLend - 1
		c, err, _ := execMsg(a, ctx, lendtypes.NewMsgCloseLend(w.users[w.lendBy[k][0]].String(), uint64(sc.closeLend)))
		must("close lend", c, err)
	}
}

func c20LendContinuation(w *c20LendWorld, sc c20LendScenario) []c20Step {
	a := w.a
	k := a.LendKeeper
	msg := func(m sdk.Msg) func(ctx sdk.Context) string {
		return func(ctx sdk.Context) string { c, _, _ := execMsg(a, ctx, m); return c }
	}
	okf := func(ctx sdk.Context) string { return "ok" }
	none := func(ctx sdk.Context) uint64 { return 0 }
	lendID := func(ctx sdk.Context) uint64 { return k.GetUserLendIDCounter(ctx) }
	borrowID := func(ctx sdk.Context) uint64 { return k.GetUserBorrowIDCounter(ctx) }
	lends := func(ctx sdk.Context) uint64 {
		var s string
		for _, l := range k.GetAllLend(ctx) {
			s += fmt.Sprintf("%d/%s/%d/%s;", l.ID, l.Owner, l.AssetID, l.AmountIn.Amount)
		}
		return c20Hash([]byte(s))
	}
	borrows := func(ctx sdk.Context) uint64 {
		var s string
		for _, b := range k.GetAllBorrow(ctx) {
			s += fmt.Sprintf("%d/%d/%d/%s/%s;", b.ID, b.LendingID, b.PairID, b.AmountIn.Amount, b.AmountOut.Amount)
		}
		return c20Hash([]byte(s))
	}
	// a user without any position (the populate uses users 0 and 1 only) lends, then borrows
	fresh := w.users[6]
	steps := []c20Step{
		{"lend.counter", "lend", 22, okf, lendID},
		{"lend.borrow-counter", "lend", 37, okf, borrowID},
		{"lend.lend", "lend", 22, msg(lendtypes.NewMsgLend(fresh.String(), w.assets[0], sdk.NewCoin(w.denoms[0], sdk.NewInt(sc.amt*50)), w.pool, w.app)), lendID},
		// which positions exist now: a re-issued id has overwritten a live position
		{"lend.positions", "lend", 22, okf, lends},
		{"lend.lend2", "lend", 22, msg(lendtypes.NewMsgLend(w.users[7].String(), w.assets[1], sdk.NewCoin(w.denoms[1], sdk.NewInt(sc.amt*50)), w.pool, w.app)), lendID},
		{"lend.borrow", "lend", 37, func(ctx sdk.Context) string {
			id, ok := k.GetLendIDForAssetIDPoolID(ctx, fresh.String(), w.assets[0], w.pool)
			if !ok {
				return "err"
			}
			c, _, _ := execMsg(a, ctx, lendtypes.NewMsgBorrow(fresh.String(), id, w.pairs[[2]uint64{w.assets[0], w.assets[1]}], false,
				sdk.NewCoin("ucasset1", sdk.NewInt(sc.amt*20)), sdk.NewCoin(w.denoms[1], sdk.NewInt(sc.amt*5))))
			return c
		}, borrowID},
		{"lend.borrows", "lend", 37, okf, borrows},
	}
	// the positions that were open before the export, addressed through each chain's own lookup
	for i := 0; i < sc.nLend; i++ {
		if i+1 == sc.closeLend {
			continue
		}
		i := i
		u, ai := w.lendBy[i][0], w.lendBy[i][1]
		steps = append(steps, c20Step{fmt.Sprintf("lend.deposit-%d", i+1), "lend", 21, func(ctx sdk.Context) string {
			id, ok := k.GetLendIDForAssetIDPoolID(ctx, w.users[u].String(), w.assets[ai], w.pool)
			if !ok {
				return "err"
			}
			c, _, _ := execMsg(a, ctx, lendtypes.NewMsgDeposit(w.users[u].String(), id, sdk.NewCoin(w.denoms[ai], sdk.NewInt(sc.amt))))
			return c
		}, func(ctx sdk.Context) uint64 {
			id, _ := k.GetLendIDForAssetIDPoolID(ctx, w.users[u].String(), w.assets[ai], w.pool)
			return id
		}})
		if i >= 1 {
			break // two of them are enough
		}
	}
	if last := sc.nLend; last != sc.closeLend && last > sc.nBorrow {
		// the youngest position open before the export is closed by its owner
		u := w.lendBy[last-1][0]
		steps = append(steps, c20Step{"lend.close-youngest", "lend", 21, msg(lendtypes.NewMsgCloseLend(w.users[u].String(), uint64(last))), none})
	}
	// governance: a new pool and a new pair (never deleted collections; ids from the last record)
	steps = append(steps,
		c20Step{"lend.add-pair", "lend", 24, c20Keeper(func(ctx sdk.Context) error {
			return k.AddLendPairsRecords(ctx, lendtypes.Extended_Pair{AssetIn: w.assets[0], AssetOut: w.assets[1], IsInterPool: false, AssetOutPoolID: w.pool, MinUsdValueLeft: 200000})
		}), func(ctx sdk.Context) uint64 { return k.GetLendPairID(ctx) }},
		c20Step{"lend.add-pool", "lend", 23, c20Keeper(func(ctx sdk.Context) error {
			dec := sdk.MustNewDecFromStr
			return k.AddPoolRecords(ctx, lendtypes.Pool{ModuleName: "osmo", CPoolName: "OSMO-A-B", AssetData: []*lendtypes.AssetDataPoolMapping{
				{AssetID: w.assets[2], AssetTransitType: 1, SupplyCap: dec("5000000000000000000")},
				{AssetID: w.assets[0], AssetTransitType: 3, SupplyCap: dec("5000000000000000000")},
				{AssetID: w.assets[1], AssetTransitType: 2, SupplyCap: dec("5000000000000000000")}}})
		}), func(ctx sdk.Context) uint64 { return k.GetPoolID(ctx) }},
		c20Step{"lend.stats", "lend", 41, okf, func(ctx sdk.Context) uint64 {
			var s string
			for _, x := range k.GetAllAssetStatsByPoolIDAndAssetID(ctx) {
				s += fmt.Sprintf("%d/%d/%s/%s;", x.PoolID, x.AssetID, x.TotalLend, x.TotalBorrowed)
			}
			return c20Hash([]byte(s))
		}},
	)
	return steps
}

func TestC20Lend(t *testing.T) {
	a, base := newApp(t)
	tr := newTracer(t, "c20lend.trace")
	defer tr.close()
	r := newRng(seed() + 424242)
	ncases := envInt("VERIF_CASES", 8)
	only := envInt("VERIF_CASE", -1)
	mods := c20Modules()
	cdc := a.AppCodec()

	for ci := 0; ci < ncases; ci++ {
		sc := c20LendScenario{nLend: 3 + r.intn(4), nBorrow: r.intn(4), amt: r.pickI(1000000, 1500000, 2500000, 7000001) + int64(r.intn(1000))}
		if sc.nBorrow > sc.nLend-1 {
			sc.nBorrow = sc.nLend - 1
		}
		// lends 1..nBorrow carry a borrow and cannot be closed (unless that borrow is the closed one)
		switch r.intn(5) {
		case 0, 1: // a gap: an older lend without a borrow is closed, younger ones stay open
			if sc.nBorrow+1 < sc.nLend {
				sc.closeLend = sc.nBorrow + 1 + r.intn(sc.nLend-sc.nBorrow-1)
			}
		case 2: // the newest
			sc.closeLend = sc.nLend
		}
		if sc.nBorrow > 0 {
			switch r.intn(4) {
			case 0, 1: // a gap among the borrows: an older one is closed
				if sc.nBorrow >= 2 {
					sc.closeBorrow = 1 + r.intn(sc.nBorrow-1)
				}
			case 2:
				sc.closeBorrow = sc.nBorrow
			}
		}
		switch ci {
		case 0: // the gap history: lends 1, 2, 3, 4 opened, borrows on 1 and 2, borrow 1 and lend 3 closed
			sc = c20LendScenario{nLend: 4, closeLend: 3, nBorrow: 2, closeBorrow: 1, amt: sc.amt}
		case 1: // the newest lend and the newest borrow closed
			sc = c20LendScenario{nLend: 3, closeLend: 3, nBorrow: 2, closeBorrow: 2, amt: sc.amt}
		}
		if only >= 0 && ci != only {
			continue
		}
		ctx, _ := base.CacheContext()
		w := c20LendSetup(t, a, ctx)
		tr.p("case %d lend lends=%d closelend=%d borrows=%d closeborrow=%d amt=%d", ci, sc.nLend, sc.closeLend, sc.nBorrow, sc.closeBorrow, sc.amt)
		c20LendPopulate(w, ctx, sc)

		orig, _ := ctx.CacheContext()
		reimp, _ := ctx.CacheContext()
		for _, m := range mods {
			c20Wipe(a, reimp, m.store, m.store)
		}
		for _, m := range mods {
			m := m
			class := "ok"
			if p, msg := safely(func() { m.roundtrip(a, cdc, orig, reimp) }); p {
				class = "panic"
				t.Logf("case %d: %s export/import panicked: %s", ci, m.name, msg)
			}
			tr.p("imp %s %s", m.name, class)
		}
		c20DumpCompare(a, tr, mods, orig, reimp)
		for i, st := range c20LendContinuation(w, sc) {
			bo, bn := c20LendBalances(w, orig), c20LendBalances(w, reimp)
			co := st.run(orig)
			cn := st.run(reimp)
			tr.p("cont %d %s %s %d %s %s %d %d %d %d", i, st.name, st.depMod, st.depByte, co, cn, st.id(orig), st.id(reimp),
				c20BalDelta(bo, c20LendBalances(w, orig)), c20BalDelta(bn, c20LendBalances(w, reimp)))
		}
	}
}
