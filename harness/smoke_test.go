//go:build verif

package verifharness

import (
	"testing"

	sdk "github.com/cosmos/cosmos-sdk/types"

	vaulttypes "github.com/comdex-official/comdex/x/vault/types"
)

// TestSmokeFixtures checks that the shared fixtures work against the current /repo: an app, two
// assets, a pair, an extended pair, a funded user and one MsgCreate through the router.
func TestSmokeFixtures(t *testing.T) {
	a, ctx := newApp(t)
	for _, name := range defiStores {
		if a.GetKey(name) == nil {
			t.Fatalf("store key %s missing", name)
		}
	}
	app1 := addAppRecord(t, a, ctx, "appone")
	cmdx := addAsset(t, a, ctx, "CMDX", "ucmdx", 1000000, true, false)
	cmst := addAsset(t, a, ctx, "CMST", "ucmst", 1000000, true, true)
	setPrice(a, ctx, cmdx, 2000000, true)
	setPrice(a, ctx, cmst, 1000000, true)
	pair := addPair(t, a, ctx, cmdx, cmst)
	ep := addExtPair(t, a, ctx, extPairCfg{Name: "CMDX-A", App: app1, Pair: pair, StabilityFee: sdk.NewDecWithPrec(2, 2), ClosingFee: sdk.ZeroDec(),
		LiqPenalty: sdk.NewDecWithPrec(15, 2), DrawDownFee: sdk.NewDecWithPrec(1, 2), MinCr: sdk.NewDecWithPrec(15, 1),
		DebtCeiling: sdk.NewInt(1000000000000), DebtFloor: sdk.NewInt(1000000), Active: true, OraclePrice: true, AssetOutPrice: 1000000, MinUsdValLeft: 100000})
	u := addrN(1)
	fund(t, a, ctx, u, sdk.NewCoins(sdk.NewCoin("ucmdx", sdk.NewInt(1000000000))))
	d0 := storeDigest(a, ctx)
	class, err, _ := execMsg(a, ctx, vaulttypes.NewMsgCreateRequest(u, app1, ep, sdk.NewInt(100000000), sdk.NewInt(50000000)))
	if class != "ok" {
		t.Fatalf("create vault: %s %v", class, err)
	}
	if storeDigest(a, ctx) == d0 {
		t.Fatal("digest did not change after a successful create")
	}
	d1 := storeDigest(a, ctx)
	class, _, _ = execMsg(a, ctx, vaulttypes.NewMsgCreateRequest(addrN(2), app1, ep, sdk.NewInt(100000000), sdk.NewInt(50000000)))
	if class != "err" || storeDigest(a, ctx) != d1 {
		t.Fatalf("unfunded create: class %s, digest changed=%v", class, storeDigest(a, ctx) != d1)
	}
}
