//go:build verif

package verifharness

import (
	"testing"
	"time"
)

// c12KnownFailing: handler -> reason, for NamesPosition messages that genuinely cannot succeed for
// the Owner on the fixture state (tolerated by the smoke test).  Currently empty.
var c12KnownFailing = map[string]string{}

// TestC12FixtureSmoke builds the world and sends every message of c12Messages once, each on its own
// CacheContext of w.Ctx: with Owner as the signer every NamesPosition message must succeed; with
// Other1 as the signer the classes are only logged.
func TestC12FixtureSmoke(t *testing.T) {
	a, ctx := newApp(t)
	t0 := time.Now()
	w := c12Setup(t, a, ctx)
	t.Logf("c12Setup took %v; final height %d time %s", time.Since(t0), w.Ctx.BlockHeight(), w.Ctx.BlockTime().Format(time.RFC3339))
	t.Logf("world: vault %d (ext %d) stable %d (ext %d) ext2 %d locker %d lend %d borrowLend %d borrow %d pair %d | liq pair %d pool %d order %d mm %v last %s",
		w.VaultID, w.ExtPair, w.StableVaultID, w.StableExtPair, w.ExtPair2, w.LockerID, w.LendID, w.BorrowLendID, w.BorrowID, w.BorrowPair,
		w.LiqPair, w.LiqPool, w.OrderID, w.MMOrderIDs, w.LastPrice)

	d0 := storeDigest(a, w.Ctx)
	seen := map[string]bool{}
	for _, m := range c12Messages(w, w.Owner) {
		if seen[m.Handler] {
			t.Errorf("duplicate handler %s", m.Handler)
		}
		seen[m.Handler] = true
		cctx, _ := w.Ctx.CacheContext()
		class, err, _ := execMsg(a, cctx, m.Msg)
		t.Logf("owner  %-36s names=%-5v app=%d %-5s %v", m.Handler, m.NamesPosition, m.App, class, err)
		switch m.Handler { // diagnostics: what did the cancel messages really do to the Owner's orders?
		case "liquidity.CancelOrder", "liquidity.CancelAllOrders", "liquidity.CancelMMOrder":
			o, _ := a.LiquidityKeeper.GetOrder(cctx, w.LiqApp, w.LiqPair, w.OrderID)
			canceled := 0
			for _, id := range w.MMOrderIDs {
				if mo, ok := a.LiquidityKeeper.GetOrder(cctx, w.LiqApp, w.LiqPair, id); ok && mo.Status.String() == "ORDER_STATUS_CANCELED" {
					canceled++
				}
			}
			_, idx := a.LiquidityKeeper.GetMMOrderIndex(cctx, w.Owner, w.LiqApp, w.LiqPair)
			t.Logf("        limit order status %s; %d of %d market-making orders canceled; mm index present=%v", o.Status, canceled, len(w.MMOrderIDs), idx)
		}
		if m.NamesPosition && class != "ok" {
			if reason, ok := c12KnownFailing[m.Handler]; ok {
				t.Logf("        tolerated: %s", reason)
			} else {
				t.Errorf("%s signed by Owner: %s %v", m.Handler, class, err)
			}
		}
	}
	for _, m := range c12Messages(w, w.Other1) {
		cctx, _ := w.Ctx.CacheContext()
		class, err, _ := execMsg(a, cctx, m.Msg)
		note := ""
		if m.NamesPosition && class == "ok" {
			note = "   <-- non-owner ok on a position message"
		}
		t.Logf("other1 %-36s names=%-5v app=%d %-5s %v%s", m.Handler, m.NamesPosition, m.App, class, err, note)
	}
	if storeDigest(a, w.Ctx) != d0 {
		t.Errorf("running messages on cache contexts changed w.Ctx")
	}
}
