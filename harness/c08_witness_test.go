//go:build verif

package verifharness

import (
	"fmt"
	"testing"

	sdk "github.com/cosmos/cosmos-sdk/types"

	lendtypes "github.com/comdex-official/comdex/x/lend/types"
)

// C08 regression corpus (scripted, no randomness): the witness of finding C08-F1.
//
// User 1 holds a lend position of asset 1 (price 2.0) and cTokens of asset 2 (price 1.0, LTV 0.5)
// and sends MsgBorrow{LendId: <the asset-1 position>, PairId: <asset 2 -> asset 3>, AmountIn: cAsset2}.
// BorrowAsset compares the cToken denom with the pair's asset in (asset 2) but prices the
// collateral with the LEND POSITION's asset (asset 1): the unrepaired code releases a loan worth
// 100% of the pledged cTokens instead of at most 50%.  The liquidation sweep values the same
// position with the pair's asset in (liquidate.go:276,321) and sees ratio 1.0 > 0.55 at once.
// On the repaired code the message is rejected; the second borrow (matching position) passes.
func TestC08Witness(t *testing.T) {
	tr := newTracer(t, "c08w.trace")
	defer tr.close()
	f, base := c08Setup(t, tr)
	a := f.a
	k := a.LendKeeper
	ctx, _ := base.CacheContext()
	ctx = ctx.WithBlockTime(baseTime).WithBlockHeight(3)
	A := f.assets
	p1 := f.pools[0]
	var mismPair, okPair uint64
	for _, p := range f.pairs {
		if p.AssetIn == A[1] && p.AssetOut == A[2] && !p.IsInterPool {
			mismPair = p.Id
			okPair = p.Id
		}
	}
	u1, u2 := f.users[0].String(), f.users[1].String()
	c := func(asset uint64, amt int64) sdk.Coin { return sdk.NewCoin(f.idDenom[asset], sdk.NewInt(amt)) }
	type sop struct {
		line string
		msg  sdk.Msg
	}
	ops := []sop{
		{fmt.Sprintf("lend 2 %d %d 1000000000 %d %d 0", A[2], A[2], p1, f.app), lendtypes.NewMsgLend(u2, A[2], c(A[2], 1000000000), p1, f.app)},
		{fmt.Sprintf("lend 1 %d %d 1000000000 %d %d 0", A[0], A[0], p1, f.app), lendtypes.NewMsgLend(u1, A[0], c(A[0], 1000000000), p1, f.app)},
		{fmt.Sprintf("lend 1 %d %d 1000000000 %d %d 0", A[1], A[1], p1, f.app), lendtypes.NewMsgLend(u1, A[1], c(A[1], 1000000000), p1, f.app)},
		// lend position 2 is of asset 1; the pair's asset in is asset 2; 2 000 000 uasset3 = 1 000 000 000 micro-USD
		{fmt.Sprintf("borrow 1 2 %d false %d 1000000000 %d 2000000 0 0 0 0 0 0", mismPair, f.cassets[1], A[2]),
			lendtypes.NewMsgBorrow(u1, 2, mismPair, false, c(f.cassets[1], 1000000000), c(A[2], 2000000))},
		// the same request against the matching position (id 3): refused by the LTV check on either tree
		{fmt.Sprintf("borrow 1 3 %d false %d 1000000000 %d 2000000 0 0 0 0 0 0", okPair, f.cassets[1], A[2]),
			lendtypes.NewMsgBorrow(u1, 3, okPair, false, c(f.cassets[1], 1000000000), c(A[2], 2000000))},
		// half of it is what LTV 0.5 allows: accepted on the repaired tree
		{fmt.Sprintf("borrow 1 3 %d false %d 1000000000 %d 1000000 0 0 0 0 0 0", okPair, f.cassets[1], A[2]),
			lendtypes.NewMsgBorrow(u1, 3, okPair, false, c(f.cassets[1], 1000000000), c(A[2], 1000000))},
	}
	tr.p("case 0 %d", len(ops))
	c08Project(f, ctx, tr)
	for _, o := range ops {
		class, xerr, _ := execMsg(a, ctx, o.msg)
		if xerr != nil {
			tr.p("# %s", xerr.Error())
		}
		tr.p("op 0 %s %s", o.line, class)
		c08Project(f, ctx, tr)
		// what the liquidation sweep computes for every open position (liquidate.go:276,321)
		for _, b := range k.GetAllBorrow(ctx) {
			pair, _ := k.GetLendPair(ctx, b.PairID)
			ain, _ := a.AssetKeeper.GetAsset(ctx, pair.AssetIn)
			aout, _ := a.AssetKeeper.GetAsset(ctx, pair.AssetOut)
			r, err := k.CalculateCollateralizationRatio(ctx, b.AmountIn.Amount, ain, b.AmountOut.Amount.Add(b.InterestAccumulated.TruncateInt()), aout)
			rp, _ := k.GetAssetRatesParams(ctx, pair.AssetIn)
			tr.p("# borrow %d: ratio-as-liquidation-computes-it %v err=%v ltv %v liquidation-threshold %v", b.ID, r, err, rp.Ltv, rp.LiquidationThreshold)
		}
	}
}
