//go:build verif

package verifharness

import (
	"math/big"
	"testing"

	sdkmath "cosmossdk.io/math"
)

// TestDec runs every modelled cosmossdk.io/math operation on boundary and random operands.
func TestDec(t *testing.T) {
	tr := newTracer(t, "dec.trace")
	defer tr.close()
	r := newRng(seed())
	nrand := envInt("VERIF_CASES", 3000)

	p18 := new(big.Int).Exp(big.NewInt(10), big.NewInt(18), nil)
	half := new(big.Int).Quo(p18, big.NewInt(2))
	pow2 := func(k uint) *big.Int { return new(big.Int).Lsh(big.NewInt(1), k) }
	add := func(a *big.Int, d int64) *big.Int { return new(big.Int).Add(a, big.NewInt(d)) }
	var bnd []*big.Int
	for _, b := range []*big.Int{big.NewInt(0), big.NewInt(1), big.NewInt(2), big.NewInt(3), half, add(half, 1), add(half, -1), p18, add(p18, 1), add(p18, -1),
		new(big.Int).Mul(p18, big.NewInt(3)), new(big.Int).Add(p18, half), new(big.Int).Add(new(big.Int).Mul(p18, big.NewInt(2)), half),
		pow2(63), pow2(64), pow2(128), pow2(255), add(pow2(256), -1), pow2(256), pow2(300), add(pow2(315), -1), big.NewInt(31557600), big.NewInt(1000000)} {
		bnd = append(bnd, b, new(big.Int).Neg(b))
	}
	randBig := func() *big.Int {
		bits := 1 + r.intn(315)
		if r.chance(60) {
			bits = 1 + r.intn(130)
		}
		x := new(big.Int)
		for x.BitLen() < bits {
			x.Lsh(x, 64)
			x.Or(x, new(big.Int).SetUint64(r.next()))
		}
		x.Rsh(x, uint(x.BitLen()-bits))
		if r.chance(15) { // land on / next to a half-way point
			x.Quo(x, p18)
			x.Mul(x, p18)
			x.Add(x, half)
			x.Add(x, big.NewInt(int64(r.intn(3)-1)))
		}
		if r.chance(25) {
			x.Neg(x)
		}
		return x
	}
	dec := func(b *big.Int) sdkmath.LegacyDec { return sdkmath.LegacyNewDecFromBigIntWithPrec(b, 18) }
	emitDec := func(op string, a, b *big.Int, f func() *big.Int) {
		var res *big.Int
		p, _ := safely(func() { res = f() })
		if p {
			tr.p("%s %s %s P", op, a, b)
		} else {
			tr.p("%s %s %s %s", op, a, b, res)
		}
	}
	one := func(a, b *big.Int) {
		if a.BitLen() <= 315 && b.BitLen() <= 315 {
			emitDec("mul", a, b, func() *big.Int { return dec(a).Mul(dec(b)).BigInt() })
			emitDec("mult", a, b, func() *big.Int { return dec(a).MulTruncate(dec(b)).BigInt() })
			emitDec("mulup", a, b, func() *big.Int { return dec(a).MulRoundUp(dec(b)).BigInt() })
			emitDec("quo", a, b, func() *big.Int { return dec(a).Quo(dec(b)).BigInt() })
			emitDec("quot", a, b, func() *big.Int { return dec(a).QuoTruncate(dec(b)).BigInt() })
			emitDec("quoup", a, b, func() *big.Int { return dec(a).QuoRoundUp(dec(b)).BigInt() })
			emitDec("add", a, b, func() *big.Int { return dec(a).Add(dec(b)).BigInt() })
			emitDec("sub", a, b, func() *big.Int { return dec(a).Sub(dec(b)).BigInt() })
			emitDec("trunc", a, b, func() *big.Int { return dec(a).TruncateInt().BigInt() })
			emitDec("round", a, b, func() *big.Int { return dec(a).RoundInt().BigInt() })
			emitDec("ceil", a, b, func() *big.Int { return dec(a).Ceil().BigInt() })
			if b.BitLen() <= 256 {
				emitDec("quoint", a, b, func() *big.Int { return dec(a).QuoInt(sdkmath.NewIntFromBigInt(b)).BigInt() })
				emitDec("mulint", a, b, func() *big.Int { return dec(a).MulInt(sdkmath.NewIntFromBigInt(b)).BigInt() })
			}
			if a.BitLen() <= 200 {
				emitDec("sqrt", a, big.NewInt(0), func() *big.Int {
					s, err := dec(a).ApproxSqrt()
					if err != nil {
						panic(err)
					}
					return s.BigInt()
				})
			}
			if a.BitLen() <= 80 {
				pw := int64(r.intn(9))
				emitDec("power", a, big.NewInt(pw), func() *big.Int { return dec(a).Power(uint64(pw)).BigInt() })
			}
		}
		if a.BitLen() <= 256 && b.BitLen() <= 256 {
			ia, ib := sdkmath.NewIntFromBigInt(a), sdkmath.NewIntFromBigInt(b)
			emitDec("imul", a, b, func() *big.Int { return ia.Mul(ib).BigInt() })
			emitDec("iadd", a, b, func() *big.Int { return ia.Add(ib).BigInt() })
			emitDec("isub", a, b, func() *big.Int { return ia.Sub(ib).BigInt() })
			emitDec("iquo", a, b, func() *big.Int { return ia.Quo(ib).BigInt() })
			emitDec("imod", a, b, func() *big.Int { return ia.Mod(ib).BigInt() })
		}
	}
	for _, a := range bnd {
		for _, b := range bnd {
			one(a, b)
		}
	}
	for i := 0; i < nrand; i++ {
		one(randBig(), randBig())
	}
}
