//go:build verif

package verifharness

// C13: auction / liquidation flows of both generations that touch the collector, driven on the
// real keepers: generation-1 SurplusActivator / DebtActivator (start, restart, close with and
// without bids, under ESM), bids, generation-2 CheckStatsForSurplusAndDebt, english bids,
// CloseEnglishAuction (surplus and debt initiators), generation-2 vault liquidation with a full
// dutch bid (liquidation penalty), and a plain fee inflow (coins + UpdateCollector, as the vault
// handlers do) that lets net fees reach the auction thresholds.

import (
	"fmt"
	"time"

	sdk "github.com/cosmos/cosmos-sdk/types"

	auctiontypes "github.com/comdex-official/comdex/x/auction/types"
	auctionsV2types "github.com/comdex-official/comdex/x/auctionsV2/types"
	liqV2types "github.com/comdex-official/comdex/x/liquidationsV2/types"
	vaulttypes "github.com/comdex-official/comdex/x/vault/types"
)

const c13AucDur = 300

func (w *c13World) c13Bidder() sdk.AccAddress { return addrN(28) }

func (w *c13World) c13AssetOfDenom(d string) uint64 {
	for id, x := range w.denom {
		if x == d {
			return id
		}
	}
	return 0
}

func (w *c13World) c13AucInit() {
	a, ctx := w.a, w.ctx
	for ai, app := range w.apps {
		// the keeper incentive is non-zero in every app (10 % / 2.5 % of the penalty): a liquidation through
		// MsgLiquidateInternalKeeper then splits the penalty between the keeper and the collector, and only
		// the collector's share may be booked as net fees
		ki := sdk.MustNewDecFromStr([]string{"0.1", "0.025"}[ai%2])
		a.AuctionKeeper.SetAuctionParams(ctx, auctiontypes.AuctionParams{AppId: app, AuctionDurationSeconds: c13AucDur, Buffer: sdk.MustNewDecFromStr("1.2"),
			Cusp: sdk.MustNewDecFromStr("0.6"), Step: sdk.NewIntFromUint64(1), PriceFunctionType: 1, SurplusId: 1, DebtId: 2, DutchId: 3, BidDurationSeconds: 100})
		a.NewliqKeeper.SetLiquidationWhiteListing(ctx, liqV2types.LiquidationWhiteListing{AppId: app, Initiator: true, IsDutchActivated: true,
			DutchAuctionParam:  &liqV2types.DutchAuctionParam{Premium: sdk.MustNewDecFromStr("1.2"), Discount: sdk.MustNewDecFromStr("0.7"), DecrementFactor: sdk.NewInt(1)},
			IsEnglishActivated: true, EnglishAuctionParam: &liqV2types.EnglishAuctionParam{DecrementFactor: sdk.NewInt(1)}, KeeeperIncentive: ki})
	}
	a.NewaucKeeper.SetAuctionParams(ctx, auctionsV2types.AuctionParams{AuctionDurationSeconds: c13AucDur, Step: sdk.MustNewDecFromStr("0.1"),
		WithdrawalFee: sdk.ZeroDec(), ClosingFee: sdk.ZeroDec(), MinUsdValueLeft: 100000, BidFactor: sdk.MustNewDecFromStr("0.01"),
		LiquidationPenalty: sdk.MustNewDecFromStr("0.1"), AuctionBonus: sdk.ZeroDec()})
	var coins sdk.Coins
	for _, as := range w.assets {
		coins = coins.Add(sdk.NewCoin(w.denom[as], sdk.NewInt(1000000000000000)))
	}
	fund(w.t, a, ctx, w.c13Bidder(), coins)
}

// coins arrive at the collector and are booked with UpdateCollector in the same unit
func (w *c13World) c13FeeIn(app, asset uint64, amt sdk.Int) {
	d := w.denom[asset]
	res := w.c13Apply(func(ctx sdk.Context) error {
		coin := sdk.NewCoins(sdk.NewCoin(d, amt))
		if err := w.a.BankKeeper.MintCoins(ctx, "vaultV1", coin); err != nil {
			return err
		}
		if err := w.a.BankKeeper.SendCoinsFromModuleToModule(ctx, "vaultV1", "collectorV1", coin); err != nil {
			return err
		}
		return w.a.CollectorKeeper.UpdateCollector(ctx, app, asset, sdk.ZeroInt(), sdk.ZeroInt(), amt, sdk.ZeroInt())
	})
	w.tr.p("op vault feein %d %d %s %s", app, asset, amt, res)
}

func (w *c13World) c13After(t time.Time) bool { return w.ctx.BlockTime().After(t) }

// emit the model ops of one real unit that closed several auctions: all but the last as "pre"
// ext: the harness's prediction, from the token-mint and bank stores, that the part of the unit that lies
// inside the auction module (escrow transfers, token-mint burn / mint) succeeds; the runner expects class
// err when it is false and the model's own class otherwise, and compares with [res]
func (w *c13World) c13EmitMulti(res string, ops []string, ext bool) {
	if len(ops) == 0 {
		w.tr.p("op noop %s", res)
		return
	}
	w.tr.p("ext %s", b2s(ext))
	for _, o := range ops[:len(ops)-1] {
		w.tr.p("pre %s %s", o, res)
	}
	w.tr.p("op %s %s", ops[len(ops)-1], res)
}

func (w *c13World) c13V1Surplus(app, asset uint64) {
	a := w.a
	am, found := a.CollectorKeeper.GetAuctionMappingForApp(w.ctx, app, asset)
	if !found {
		w.tr.p("op noop ok")
		return
	}
	ks, _ := a.EsmKeeper.GetKillSwitchData(w.ctx, app)
	esm, _ := a.EsmKeeper.GetESMStatus(w.ctx, app)
	if am.IsSurplusAuction && am.IsAuctionActive {
		var ops []string
		ext := true
		for _, au := range a.AuctionKeeper.GetSurplusAuctions(w.ctx, app) {
			if w.c13After(au.EndTime) || w.c13After(au.BidEndTime) || esm.Status {
				if au.AuctionStatus == auctiontypes.AuctionStartNoBids && !esm.Status {
					continue // restart: no collector effect
				}
				ops = append(ops, fmt.Sprintf("v1sc %d %d %s %s %s", app, au.AssetId, au.SellToken.Amount, b2s(au.Bidder != nil), b2s(esm.Status)))
				if au.Bidder != nil && !esm.Status {
					ext = ext && w.c13MintOK(au.AppId, au.AssetInId, au.Bid.Amount, true)
				}
			}
		}
		res := w.c13Apply(func(ctx sdk.Context) error { return a.AuctionKeeper.SurplusActivator(ctx, am, ks, esm.Status) })
		w.c13EmitMulti(res, ops, ext)
		return
	}
	res := w.c13Apply(func(ctx sdk.Context) error { return a.AuctionKeeper.SurplusActivator(ctx, am, ks, esm.Status) })
	w.tr.p("op v1ss %d %d %s", app, asset, res)
}

func (w *c13World) c13V1Debt(app, asset uint64) {
	a := w.a
	am, found := a.CollectorKeeper.GetAuctionMappingForApp(w.ctx, app, asset)
	if !found {
		w.tr.p("op noop ok")
		return
	}
	ks, _ := a.EsmKeeper.GetKillSwitchData(w.ctx, app)
	esm, _ := a.EsmKeeper.GetESMStatus(w.ctx, app)
	if am.IsDebtAuction && am.IsAuctionActive {
		var ops []string
		ext := true
		for _, au := range a.AuctionKeeper.GetDebtAuctions(w.ctx, app) {
			if w.c13After(au.EndTime) || w.c13After(au.BidEndTime) || esm.Status {
				if au.AuctionStatus == auctiontypes.AuctionStartNoBids && !esm.Status {
					continue
				}
				ops = append(ops, fmt.Sprintf("v1dc %d %d %s %s %s", app, au.AssetId, au.ExpectedUserToken.Amount,
					b2s(au.AuctionStatus != auctiontypes.AuctionStartNoBids), b2s(esm.Status)))
				if au.AuctionStatus != auctiontypes.AuctionStartNoBids && !esm.Status {
					ext = ext && w.c13MintOK(au.AppId, au.AssetOutId, au.CurrentBidAmount.Amount, false)
				}
			}
		}
		res := w.c13Apply(func(ctx sdk.Context) error { return a.AuctionKeeper.DebtActivator(ctx, am, ks, esm.Status) })
		w.c13EmitMulti(res, ops, ext)
		return
	}
	res := w.c13Apply(func(ctx sdk.Context) error { return a.AuctionKeeper.DebtActivator(ctx, am, ks, esm.Status) })
	w.tr.p("op v1ds %d %d %s", app, asset, res)
}

// liquidationsV2.LiquidateForSurplusAndDebt, one mapping: the caller's guard, then CheckStats
func (w *c13World) c13V2CheckStats(app, asset uint64) {
	a := w.a
	am, _ := a.CollectorKeeper.GetAuctionMappingForApp(w.ctx, app, asset)
	ks, _ := a.EsmKeeper.GetKillSwitchData(w.ctx, app)
	if am.IsAuctionActive || ks.BreakerEnable {
		w.tr.p("op noop ok")
		return
	}
	res := w.c13Apply(func(ctx sdk.Context) error { return a.NewliqKeeper.CheckStatsForSurplusAndDebt(ctx, app, asset) })
	w.tr.p("op v2cs %d %d %s", app, asset, res)
}

// a bid of the outside bidder on some open surplus / debt / english auction (no collector effect)
func (w *c13World) c13Bid(r *rng, k int) {
	a := w.a
	bidder := w.c13Bidder().String()
	pct := int64(r.pickI(100, 102, 110, 150, 99))
	var msg sdk.Msg
	switch k {
	case 0:
		for _, app := range w.apps {
			for _, au := range a.AuctionKeeper.GetSurplusAuctions(w.ctx, app) {
				amt := au.Bid.Amount.MulRaw(pct).QuoRaw(100).AddRaw(int64(1 + r.intn(1000)))
				msg = &auctiontypes.MsgPlaceSurplusBidRequest{AuctionId: au.AuctionId, Bidder: bidder, Amount: sdk.NewCoin(au.Bid.Denom, amt), AppId: app, AuctionMappingId: au.AuctionMappingId}
			}
		}
	case 1:
		for _, app := range w.apps {
			for _, au := range a.AuctionKeeper.GetDebtAuctions(w.ctx, app) {
				amt := au.ExpectedMintedToken.Amount.MulRaw(200 - pct).QuoRaw(100)
				if !amt.IsPositive() {
					amt = sdk.OneInt()
				}
				msg = &auctiontypes.MsgPlaceDebtBidRequest{AuctionId: au.AuctionId, Bidder: bidder, Bid: sdk.NewCoin(au.ExpectedMintedToken.Denom, amt),
					ExpectedUserToken: au.ExpectedUserToken, AppId: app, AuctionMappingId: au.AuctionMappingId}
			}
		}
	default:
		for _, au := range a.NewaucKeeper.GetAuctions(w.ctx) {
			if au.AuctionType {
				continue
			}
			lv, _ := a.NewliqKeeper.GetLockedVault(w.ctx, au.AppId, au.LockedVaultId)
			if lv.InitiatorType == "debt" {
				amt := au.CollateralToken.Amount.MulRaw(200 - pct).QuoRaw(100)
				if !amt.IsPositive() {
					amt = sdk.OneInt()
				}
				msg = &auctionsV2types.MsgPlaceMarketBidRequest{AuctionId: au.AuctionId, Bidder: bidder, Amount: sdk.NewCoin(au.CollateralToken.Denom, amt)}
			} else {
				amt := au.DebtToken.Amount.MulRaw(pct).QuoRaw(100).AddRaw(int64(1 + r.intn(1000)))
				msg = &auctionsV2types.MsgPlaceMarketBidRequest{AuctionId: au.AuctionId, Bidder: bidder, Amount: sdk.NewCoin(au.DebtToken.Denom, amt)}
			}
		}
	}
	if msg == nil {
		w.tr.p("op noop ok")
		return
	}
	class, _, _ := execMsg(a, w.ctx, msg)
	w.tr.p("op noop %s", class)
}

// auctionsV2 AuctionIterator, one english auction whose time is up and that has a bid
func (w *c13World) c13V2Close() {
	a := w.a
	for _, au := range a.NewaucKeeper.GetAuctions(w.ctx) {
		if au.AuctionType || au.ActiveBiddingId == 0 || !w.c13After(au.EndTime) {
			continue
		}
		lv, _ := a.NewliqKeeper.GetLockedVault(w.ctx, au.AppId, au.LockedVaultId)
		auc := au
		// the steps inside the auction module: the bid is in escrow, token-mint can burn it (surplus) / mint the lot (debt)
		escrow := bal(a, w.ctx, modAddr(auctionsV2types.ModuleName), au.DebtToken.Denom).GTE(au.DebtToken.Amount)
		canBurn := w.c13MintOK(au.AppId, au.DebtAssetId, au.DebtToken.Amount, true)
		lot0 := bal(a, w.ctx, modAddr(auctiontypes.ModuleName), au.CollateralToken.Denom)
		canMint := w.c13MintOK(au.AppId, au.DebtAssetId, au.CollateralToken.Amount, false)
		res := w.c13Apply(func(ctx sdk.Context) error { return a.NewaucKeeper.CloseEnglishAuction(ctx, auc) })
		switch {
		case lv.InitiatorType == "surplus":
			// the lot waits in the generation-1 auction module account (GetAmountFromCollector put it there)
			lotDenom := au.CollateralToken.Denom
			w.tr.p("ext %s", b2s(escrow && canBurn && lot0.GTE(au.CollateralToken.Amount) && lotDenom != ""))
			w.tr.p("op v2sc %d %d %s %s", au.AppId, au.CollateralAssetId, au.CollateralToken.Amount, res)
		case lv.InitiatorType == "debt":
			w.tr.p("ext %s", b2s(escrow && canMint))
			w.tr.p("op v2dc %d %d %s %d %s %s", au.AppId, au.CollateralAssetId, au.CollateralToken.Amount, w.c13AssetOfDenom(au.DebtToken.Denom), au.DebtToken.Amount, res)
		default:
			w.tr.p("op noop %s", res)
		}
		return
	}
	w.tr.p("op noop ok")
}

// the internal keeper (liquidator) of MsgLiquidateInternalKeeper and the external initiator
func (w *c13World) c13Keeper() sdk.AccAddress    { return addrN(27) }
func (w *c13World) c13Initiator() sdk.AccAddress { return addrN(26) }

// a generation-2 vault liquidation settled by one full dutch bid: vault create (a fee inflow of its
// own), collateral price drop, liquidation, bid of the whole remaining debt.
// mode 0: automatic liquidation (LiquidateIndividualVault as the liquidationsV2 sweep calls it);
// mode 1: MsgLiquidateInternalKeeper (IsInternalKeeper: the keeper incentive is paid out of the penalty,
//         the collector gets - and the net-fee book must record - only the rest);
// mode 2: MsgLiquidateExternalKeeper (no vault; the penalty is booked as auction-module fees: the
//         collector's coins and books must not move at all).
func (w *c13World) c13V2Liquidation(app, out uint64, collIn int64, mode int) {
	w.c13V2LiquidationOn(app, out, collIn, mode, false)
}

// zeroFee: the vault is opened on the extended pair without draw-down fee (no vault fee precedes the penalty)
func (w *c13World) c13V2LiquidationOn(app, out uint64, collIn int64, mode int, zeroFee bool) {
	a := w.a
	if mode == 2 {
		w.c13V2External(app, out, collIn)
		return
	}
	ep := w.ep[[2]uint64{app, out}]
	if zeroFee {
		ep = c13Epz[[2]uint64{app, out}]
		w.tr.p("note v2pen:zero_fee_pair")
	}
	in := sdk.NewInt(collIn)
	class := w.c13Vault("create", app, out, vaulttypes.NewMsgCreateRequest(w.vuser, app, ep, in, in)) // price 2: CR 200 %
	w.c13Obs()
	if class != "ok" {
		w.tr.p("op noop ok")
		return
	}
	vid := a.VaultKeeper.GetIDForVault(w.ctx)
	setPrice(a, w.ctx, w.assets[0], 1200000, true) // CR 120 % < 150 %
	before := a.NewaucKeeper.GetAuctionID(w.ctx)
	var res string
	if mode == 1 {
		res, _, _ = execMsg(a, w.ctx, liqV2types.NewMsgLiquidateInternalKeeperRequest(w.c13Keeper(), 0, vid))
	} else {
		res = w.c13Apply(func(ctx sdk.Context) error { return a.NewliqKeeper.LiquidateIndividualVault(ctx, vid, "", false) })
	}
	w.tr.p("op noop %s", res)
	w.c13Obs()
	after := a.NewaucKeeper.GetAuctionID(w.ctx)
	if res != "ok" || after != before+1 {
		setPrice(a, w.ctx, w.assets[0], 2000000, true)
		w.tr.p("op noop ok")
		return
	}
	au, _ := a.NewaucKeeper.GetAuction(w.ctx, after)
	lv, _ := a.NewliqKeeper.GetLockedVault(w.ctx, au.AppId, au.LockedVaultId)
	d := au.DebtToken.Denom
	bal0 := bal(a, w.ctx, modAddr("collectorV1"), d)
	kee0 := bal(a, w.ctx, w.c13Keeper(), d)
	class, _, _ = execMsg(a, w.ctx, &auctionsV2types.MsgPlaceMarketBidRequest{AuctionId: after, Bidder: w.c13Bidder().String(), Amount: au.DebtToken})
	delta := bal(a, w.ctx, modAddr("collectorV1"), d).Sub(bal0)
	keeDelta := bal(a, w.ctx, w.c13Keeper(), d).Sub(kee0)
	_, err := a.NewaucKeeper.GetAuction(w.ctx, after)
	setPrice(a, w.ctx, w.assets[0], 2000000, true)
	if class == "ok" && err != nil { // the auction is closed: the penalty went to the collector (and the keeper)
		w.tr.p("note v2pen:internal_keeper=%s", b2s(lv.IsInternalKeeper))
		if keeDelta.IsPositive() {
			w.tr.p("note v2pen:keeper_incentive_paid")
		}
		// the split itself: penalty = collector share + keeper share (anything else is reported as a
		// penalty op whose amount is not what reached the collector -> holds_C13_delta / _flow fail)
		if !delta.Add(keeDelta).Equal(lv.FeeToBeCollected) {
			w.tr.p("note v2pen:split_mismatch")
		}
		w.tr.p("op v2pen %d %d %d %s ok", au.AppId, au.CollateralAssetId, au.DebtAssetId, delta)
	} else {
		w.tr.p("op noop %s", class)
	}
}

// an externally initiated auction (MsgLiquidateExternalKeeper) closed by one full bid: no op of the
// collector model - every unit must leave the collector's coins and books as they were
func (w *c13World) c13V2External(app, out uint64, collIn int64) {
	a := w.a
	dOut := w.denom[out]
	coll := sdk.NewCoin(w.denom[w.assets[0]], sdk.NewInt(collIn))
	debt := sdk.NewCoin(dOut, sdk.NewInt(collIn)) // collateral at 2.0: debt value = half the collateral value
	fund(w.t, a, w.ctx, w.c13Initiator(), sdk.NewCoins(coll, sdk.NewCoin(dOut, sdk.NewInt(1000000))))
	class, _, _ := execMsg(a, w.ctx, liqV2types.NewMsgAppReserveFundsRequest(w.c13Initiator().String(), app, out, sdk.NewCoin(dOut, sdk.NewInt(1000000))))
	w.tr.p("op noop %s", class)
	w.c13Obs()
	before := a.NewaucKeeper.GetAuctionID(w.ctx)
	class, _, _ = execMsg(a, w.ctx, liqV2types.NewMsgLiquidateExternalKeeperRequest(w.c13Initiator(), app, w.vuser.String(), coll, debt, w.assets[0], out, false))
	w.tr.p("op noop %s", class)
	w.c13Obs()
	after := a.NewaucKeeper.GetAuctionID(w.ctx)
	if class != "ok" || after != before+1 {
		w.tr.p("op noop ok")
		return
	}
	au, _ := a.NewaucKeeper.GetAuction(w.ctx, after)
	class, _, _ = execMsg(a, w.ctx, &auctionsV2types.MsgPlaceMarketBidRequest{AuctionId: after, Bidder: w.c13Bidder().String(), Amount: au.DebtToken})
	if _, err := a.NewaucKeeper.GetAuction(w.ctx, after); class == "ok" && err != nil {
		w.tr.p("note v2ext:closed")
	}
	w.tr.p("op noop %s", class)
}

func (w *c13World) c13AuctionOp(r *rng, app, asset uint64) {
	if app == 7 {
		app = w.apps[r.intn(len(w.apps))]
	}
	if asset == w.assets[0] {
		asset = w.assets[1+r.intn(2)]
	}
	k := r.intn(20)
	dt := r.pickI(1, 50, 101, 301, 700)
	amt := sdk.NewInt(int64(1+r.intn(30)) * 1000000)
	coll := int64(2+r.intn(40)) * 1000000
	switch {
	case k < 4:
		w.c13FeeIn(app, asset, amt)
	case k < 7:
		w.c13V1Surplus(app, asset)
	case k < 9:
		w.c13V1Debt(app, asset)
	case k < 12:
		w.c13V2CheckStats(app, asset)
	case k < 14:
		w.c13Bid(r, r.intn(3))
	case k < 15:
		w.c13Scenario(r, app, asset)
	case k < 17:
		w.c13Advance(dt)
		w.c13Obs()
		w.c13V2Close()
	case k < 18:
		w.c13Advance(dt)
		w.c13Obs()
		if r.chance(50) {
			w.c13V1Surplus(app, asset)
		} else {
			w.c13V1Debt(app, asset)
		}
	default:
		// automatic / internal keeper (twice as often: the penalty split) / external; on the pair with or without draw-down fee
		w.c13V2LiquidationOn(app, asset, coll, int(r.pickI(0, 1, 1, 2)), r.chance(45))
	}
}

// a whole auction of one generation: flags, fee inflow (or a low book), start, bid, time, close
func (w *c13World) c13Scenario(r *rng, app, asset uint64) {
	surplus, gen2 := r.chance(50), r.chance(50)
	w.c13SetFlags(app, asset, surplus, !surplus, false)
	w.c13Obs()
	if surplus {
		w.c13FeeIn(app, asset, sdk.NewInt(13000000))
	} else {
		w.c13FeeIn(app, asset, sdk.NewInt(int64(1+r.intn(1000))*1000))
	}
	w.c13Obs()
	start := func() {
		switch {
		case gen2:
			w.c13V2CheckStats(app, asset)
		case surplus:
			w.c13V1Surplus(app, asset)
		default:
			w.c13V1Debt(app, asset)
		}
	}
	start()
	w.c13Obs()
	switch {
	case gen2:
		w.c13Bid(r, 2)
	case surplus:
		w.c13Bid(r, 0)
	default:
		w.c13Bid(r, 1)
	}
	w.c13Obs()
	w.c13Advance(r.pickI(101, 301, 50))
	w.c13Obs()
	if gen2 {
		w.c13V2Close()
	} else {
		start() // the same activator closes an active auction
	}
}

// ---- directed cases: the refutation witnesses of Properties/C13.v on the real keepers ---------

// C13-F1 (repaired): generation-2 liquidation penalty; booked under the debt asset it is paid in
// through MsgLiquidateInternalKeeper with a keeper incentive of 10 %: 12 % penalty on 20 000 000 = 2 400 000,
// of which 240 000 go to the keeper and 2 160 000 to the collector and into the net-fee book
// (regression of seeded/C13-3: booking the gross penalty); then the same automatically and externally
func (w *c13World) c13DirectedPenalty() {
	w.c13V2Liquidation(w.apps[0], w.assets[1], 20000000, 1)
	w.c13Obs()
	w.c13V2Liquidation(w.apps[1], w.assets[2], 7000000, 1)
	w.c13Obs()
	w.c13V2Liquidation(w.apps[0], w.assets[1], 5000000, 0)
	w.c13Obs()
	w.c13V2Liquidation(w.apps[0], w.assets[2], 3000000, 2)
	w.c13Obs()
}

// C13-F2 (surplus = true) / C13-F3 (surplus = false): generation-2 surplus / debt auction through the collector
func (w *c13World) c13DirectedV2English(surplus bool) {
	app, cmst, harbor := w.apps[0], w.assets[1], w.assets[2]
	w.c13AddLookup(app, cmst, harbor, sdk.ZeroDec(), 10000000, 5000000, 2000000, 3000000)
	w.c13Obs()
	w.c13SetFlags(app, cmst, surplus, !surplus, false)
	w.c13Obs()
	if surplus {
		w.c13FeeIn(app, cmst, sdk.NewInt(13000000))
	} else {
		w.c13FeeIn(app, cmst, sdk.NewInt(1000000))
	}
	w.c13Obs()
	w.c13V2CheckStats(app, cmst)
	w.c13Obs()
	for _, au := range w.a.NewaucKeeper.GetAuctions(w.ctx) {
		coin := sdk.NewCoin(au.DebtToken.Denom, sdk.NewInt(100))
		if !surplus {
			coin = au.CollateralToken
		}
		class, _, _ := execMsg(w.a, w.ctx, &auctionsV2types.MsgPlaceMarketBidRequest{AuctionId: au.AuctionId, Bidder: w.c13Bidder().String(), Amount: coin})
		w.tr.p("op noop %s", class)
		w.c13Obs()
	}
	w.c13Advance(c13AucDur + 1)
	w.c13Obs()
	w.c13V2Close()
	w.c13Obs()
}

// coins arrive at the collector from the generation-1 auction module account and are booked with
// SetNetFeeCollectedData ALONE - the collector half of the generation-1 dutch auction close (dutch.go:410-427)
func (w *c13World) c13PenaltyIn(app, asset uint64, amt sdk.Int) {
	d := w.denom[asset]
	res := w.c13Apply(func(ctx sdk.Context) error {
		if amt.IsPositive() {
			coin := sdk.NewCoins(sdk.NewCoin(d, amt))
			if err := w.a.BankKeeper.MintCoins(ctx, auctiontypes.ModuleName, coin); err != nil {
				return err
			}
			if err := w.a.BankKeeper.SendCoinsFromModuleToModule(ctx, auctiontypes.ModuleName, "collectorV1", coin); err != nil {
				return err
			}
		}
		return w.a.CollectorKeeper.SetNetFeeCollectedData(ctx, app, asset, amt)
	})
	w.tr.p("op v1pen %d %d %s %s", app, asset, amt, res)
}

// 2-5 inflows of ONE (app, asset) in a random order, each judged by the per-op delta / flow predicates:
//   0 a real vault message with a draw-down fee (UpdateCollector), 1 a plain fee inflow (UpdateCollector),
//   2 a penalty-shaped inflow (SetNetFeeCollectedData alone), 3 a generation-2 liquidation on the pair WITHOUT
//   draw-down fee settled by a full bid (the penalty is the first thing the collector sees of that vault),
//   4 the same on the pair with draw-down fee, 5 a TriggerEsm hand-back on the pair without draw-down fee (TestC13B)
func (w *c13World) c13InflowOrders(r *rng) {
	app := w.apps[r.intn(len(w.apps))]
	asset := w.assets[1+r.intn(2)]
	n := 2 + r.intn(4)
	kinds := []int{0, 1, 2, 3, 4}
	if w.bmode {
		kinds = append(kinds, 5)
	}
	// a random order without repetition first (every kind can come first), then repetitions
	for i := len(kinds) - 1; i > 0; i-- {
		j := r.intn(i + 1)
		kinds[i], kinds[j] = kinds[j], kinds[i]
	}
	for i := 0; i < n; i++ {
		k := kinds[i%len(kinds)]
		w.tr.p("note inflow-order:%d:kind%d", i, k)
		switch k {
		case 0:
			in := int64(1+r.intn(900)) * 1000000
			w.c13Vault("create", app, asset, vaulttypes.NewMsgCreateRequest(w.vuser, app, w.ep[[2]uint64{app, asset}], sdk.NewInt(in), sdk.NewInt(in/2+int64(r.intn(int(in/2))))))
		case 1:
			w.c13FeeIn(app, asset, sdk.NewInt(int64(1+r.intn(30))*1000000))
		case 2:
			w.c13PenaltyIn(app, asset, sdk.NewInt(int64(r.intn(30))*1000000+int64(r.intn(2))))
		case 3:
			w.c13V2LiquidationOn(app, asset, int64(2+r.intn(40))*1000000, int(r.pickI(0, 1)), true)
		case 4:
			w.c13V2LiquidationOn(app, asset, int64(2+r.intn(40))*1000000, int(r.pickI(0, 1)), false)
		default:
			w.c13TriggerEsmFlowOn(app, asset, int64(2+r.intn(40))*1000000, r.pickI(10, 30, 60), 1, true)
			w.c13Obs()
			w.c13SetEsm(app, false)
		}
		w.c13Obs()
	}
}
