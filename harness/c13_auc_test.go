//go:build verif

package verifharness

// auction / liquidation flows of both generations that touch the collector (stage 3)

func (w *c13World) c13AucInit() {}

func (w *c13World) c13AuctionOp(r *rng, app, asset uint64) {
	w.c13Advance(r.pickI(1, 3600, 86400))
}
