//go:build verif

package verifharness

import (
	"fmt"
	"strings"
	"testing"

	sdk "github.com/cosmos/cosmos-sdk/types"

	assettypes "github.com/comdex-official/comdex/x/asset/types"
	"github.com/comdex-official/comdex/x/auction"
	auctionv1types "github.com/comdex-official/comdex/x/auction/types"
	lendtypes "github.com/comdex-official/comdex/x/lend/types"
	liqv1types "github.com/comdex-official/comdex/x/liquidation/types"
)

// ---------------------------------------------------------------------------------------------
// C10, generation 1 lend auctions (x/auction dutch_lend.go): borrow positions opened through
// MsgBorrowAlternate, seized by the real x/liquidation LiquidateBorrows after a price move, bid through
// MsgPlaceDutchLendBid, prices moved by auction.BeginBlocker.
//
// Since fix 6257748 the bid that closes a lend auction fails when the locked borrow still has collateral and debt
// left and one of the two price feeds is missing or inactive (x/liquidation UnLiquidateLockedBorrows returns the
// error of lend.CalculateCollateralizationRatio).  Every start op therefore carries the locked vault's id and
// its AmountIn / AmountOut / UpdatedAmountOut, every observation repeats them per live auction (K lines: the
// model must keep them unchanged until the close), and every bid carries the two feeds as the market keeper
// has them at the bid (found && IsPriceActive, Twa) - the verdict itself is the model's.

type c10lendCase struct {
	buffer, cusp, bonus, penalty sdk.Dec
	dur, dust                    uint64
	dc, dd                       int64
	twaC0, twaD                  uint64
	collUnits                    [2]int64
	ltvUse                       [2]int64 // % of the borrow limit actually borrowed
	dropTo                       [2]int64 // collateral price after the move, % of the price at creation
	reserveClass                 int      // lend reserve (debt denom): 0 none, 1 tiny, 2/3 big
	plan                         []c10v1PlanOp
}

func c10lendDraw(r *rng) c10lendCase {
	var cs c10lendCase
	cs.buffer = c10Dec([]string{"1.2", "1.0", "1.5", "1.15"}[r.intn(4)])
	cs.cusp = c10Dec([]string{"0.6", "0.7", "0.5", "0.9", "0.833333333333333333"}[r.intn(5)])
	cs.dur = r.pickU(10, 60, 77, 300, 21600)
	cs.bonus = c10Dec([]string{"0.05", "0.001", "0.025", "0.1"}[r.intn(4)])
	cs.penalty = c10Dec([]string{"0.05", "0.001", "0.025", "0.1"}[r.intn(4)])
	cs.dust = r.pickU(0, 100000, 1000000, 100000)
	cs.dc, cs.dd = 1000000, 1000000
	if r.chance(15) {
		cs.dc = 100000000
	}
	cs.twaC0 = r.pickU(2000000, 1500000, 12345678, 1000000, 250000)
	cs.twaD = r.pickU(1000000, 1000000, 990000, 1013000)
	cs.collUnits = [2]int64{int64(10000 + r.intn(200000)), int64(10000 + r.intn(200000))}
	cs.ltvUse = [2]int64{int64(80 + r.intn(21)), int64(80 + r.intn(21))}
	cs.dropTo = [2]int64{int64(50 + r.intn(35)), int64(50 + r.intn(35))}
	cs.reserveClass = r.intn(4)
	nops := 4 + r.intn(12)
	cs.plan = make([]c10v1PlanOp, nops)
	for i := range cs.plan {
		x := r.intn(100)
		switch {
		case x < 58:
			cs.plan[i] = c10v1PlanOp{kind: 0, who: r.intn(3), class: r.intn(14), f1: 1 + r.intn(99), f2: 1 + r.intn(1000)}
		case x < 90:
			cs.plan[i] = c10v1PlanOp{kind: 1, dtClass: r.intn(9), priceClass: r.intn(20), f1: 70 + r.intn(60)}
		default:
			cs.plan[i] = c10v1PlanOp{kind: 2}
		}
	}
	return cs
}

func TestC10V1Lend(t *testing.T) {
	a, base := newApp(t)
	tr := newTracer(t, "c10v1lend.trace")
	defer tr.close()
	r := newRng(seed())
	ncases := envInt("VERIF_CASES", 120)
	only := envInt("VERIF_CASE", -1)
	debug := envInt("VERIF_DEBUG", 0) == 1

	bidders := []sdk.AccAddress{addrN(10), addrN(11), addrN(12)}
	owners := []sdk.AccAddress{addrN(20), addrN(21)}
	funder := addrN(32)
	const denomC, denomD, denomT = "ucoll", "udebt", "uthird"

	for ci := 0; ci < ncases; ci++ {
		cs := c10lendDraw(r)
		if only >= 0 && ci != only {
			continue
		}
		ctx, _ := base.CacheContext()
		if err := a.AssetKeeper.AddAppRecords(ctx, assettypes.AppData{Name: lendtypes.AppName, ShortName: "comdo", MinGovDeposit: sdk.NewInt(0), GovTimeInSeconds: 0,
			GenesisToken: []assettypes.MintGenesisToken{}}); err != nil {
			t.Fatalf("AddAppRecords: %v", err)
		}
		var app uint64
		apps, _ := a.AssetKeeper.GetApps(ctx)
		for _, ap := range apps {
			if ap.Name == lendtypes.AppName {
				app = ap.Id
			}
		}
		assetC := addAsset(t, a, ctx, "COLL", denomC, cs.dc, true, false)
		assetD := addAsset(t, a, ctx, "DEBT", denomD, cs.dd, true, false)
		assetT := addAsset(t, a, ctx, "THIRD", denomT, 1000000, true, false)
		cC := addAsset(t, a, ctx, "CCOLL", "uccoll", cs.dc, false, false)
		cD := addAsset(t, a, ctx, "CDEBT", "ucdebt", cs.dd, false, false)
		cT := addAsset(t, a, ctx, "CTHIRD", "ucthird", 1000000, false, false)
		setPrice(a, ctx, assetC, cs.twaC0, true)
		setPrice(a, ctx, assetD, cs.twaD, true)
		setPrice(a, ctx, assetT, 1000000, true)
		rates := func(asset, casset uint64, ltv, lt string, pen, bon sdk.Dec) lendtypes.AssetRatesParams {
			return lendtypes.AssetRatesParams{AssetID: asset, UOptimal: c10Dec("0.8"), Base: c10Dec("0.002"), Slope1: c10Dec("0.06"), Slope2: c10Dec("0.6"),
				EnableStableBorrow: false, StableBase: sdk.ZeroDec(), StableSlope1: sdk.ZeroDec(), StableSlope2: sdk.ZeroDec(),
				Ltv: c10Dec(ltv), LiquidationThreshold: c10Dec(lt), LiquidationPenalty: pen, LiquidationBonus: bon, ReserveFactor: c10Dec("0.2"), CAssetID: casset}
		}
		if err := a.LendKeeper.AddAssetRatesParams(ctx, rates(assetC, cC, "0.7", "0.75", cs.penalty, cs.bonus), rates(assetD, cD, "0.5", "0.55", c10Dec("0.05"), c10Dec("0.05")),
			rates(assetT, cT, "0.8", "0.85", c10Dec("0.025"), c10Dec("0.025"))); err != nil {
			t.Fatalf("rates: %v", err)
		}
		supplyCap := sdk.NewDec(5_000_000_000_000_000_000)
		if err := a.LendKeeper.AddPoolRecords(ctx, lendtypes.Pool{ModuleName: lendtypes.ModuleAcc1, CPoolName: "DEBT-COLL-THIRD", AssetData: []*lendtypes.AssetDataPoolMapping{
			{AssetID: assetD, AssetTransitType: 1, SupplyCap: supplyCap},
			{AssetID: assetT, AssetTransitType: 2, SupplyCap: supplyCap},
			{AssetID: assetC, AssetTransitType: 3, SupplyCap: supplyCap}}}); err != nil {
			t.Fatalf("pool: %v", err)
		}
		pools := a.LendKeeper.GetPools(ctx)
		pool := pools[len(pools)-1].PoolID
		if err := a.LendKeeper.AddLendPairsRecords(ctx, lendtypes.Extended_Pair{AssetIn: assetC, AssetOut: assetD, IsInterPool: false,
			AssetOutPoolID: pool, MinUsdValueLeft: cs.dust}); err != nil {
			t.Fatalf("pair: %v", err)
		}
		var pairID uint64
		for _, p := range a.LendKeeper.GetLendPairs(ctx) {
			if p.AssetIn == assetC && p.AssetOut == assetD {
				pairID = p.Id
			}
		}
		if err := a.LendKeeper.AddAssetToPair(ctx, lendtypes.AssetToPairMapping{AssetID: assetC, PoolID: pool, PairID: []uint64{pairID}}); err != nil {
			t.Fatalf("asset to pair: %v", err)
		}
		if err := a.LendKeeper.AddAuctionParamsData(ctx, lendtypes.AuctionParams{AppId: app, AuctionDurationSeconds: cs.dur, Buffer: cs.buffer,
			Cusp: cs.cusp, Step: sdk.NewInt(360), PriceFunctionType: 1, DutchId: 3, BidDurationSeconds: 3600}); err != nil {
			t.Fatalf("auction params: %v", err)
		}
		a.LiquidationKeeper.SetParams(ctx, liqv1types.NewParams(100))
		big := sdk.NewIntFromUint64(1 << 62)
		fund(t, a, ctx, funder, sdk.NewCoins(sdk.NewCoin(denomD, sdk.NewIntFromUint64(1<<60)), sdk.NewCoin(denomC, sdk.NewIntFromUint64(1<<60)), sdk.NewCoin(denomT, sdk.NewIntFromUint64(1<<60))))
		for _, x := range []struct {
			id uint64
			d  string
		}{{assetD, denomD}, {assetC, denomC}, {assetT, denomT}} {
			if err := a.LendKeeper.FundModAcc(ctx, pool, x.id, funder.String(), sdk.NewCoin(x.d, sdk.NewIntFromUint64(1<<50))); err != nil {
				t.Fatalf("FundModAcc %s: %v", x.d, err)
			}
		}
		for i, b := range bidders {
			amt := big
			if i == 2 {
				amt = sdk.NewInt(cs.dd).QuoRaw(3)
			}
			fund(t, a, ctx, b, sdk.NewCoins(sdk.NewCoin(denomD, amt)))
		}
		if cs.reserveClass > 0 {
			amt := sdk.NewInt(1000)
			if cs.reserveClass >= 2 {
				amt = sdk.NewIntFromUint64(1 << 50)
			}
			c10v1FundModule(t, a, ctx, lendtypes.ModuleName, sdk.NewCoin(denomD, amt))
		}

		tr.p("case %d %s %s %d %d %d %d 1 %s", ci, cs.buffer.BigInt(), cs.cusp.BigInt(), cs.dur, cs.dust, cs.dc, cs.dd, cs.bonus.BigInt())
		if debug {
			tr.p("# %+v", cs)
		}

		now := int64(0)
		twaC, twaDcur := cs.twaC0, cs.twaD
		actC, actD := true, true
		scaleC := sdk.NewInt(cs.dc).QuoRaw(1000)
		poolMod := modAddr(lendtypes.ModuleAcc1)
		known := map[uint64]bool{}

		observe := func() {
			c := c10At(ctx, now)
			ownC := sdk.ZeroInt()
			for _, o := range owners {
				ownC = ownC.Add(bal(a, c, o, denomC))
			}
			var sb strings.Builder
			for _, b := range bidders {
				fmt.Fprintf(&sb, " %s %s", bal(a, c, b, denomC), bal(a, c, b, denomD))
			}
			tr.p("L %s %s %s 0 0 %s %s%s 0 0",
				bal(a, c, modAddr(auctionv1types.ModuleName), denomC), bal(a, c, modAddr(auctionv1types.ModuleName), denomD), ownC,
				bal(a, c, poolMod, denomD), bal(a, c, modAddr(lendtypes.ModuleName), denomD), sb.String())
			for _, au := range a.AuctionKeeper.GetDutchLendAuctions(c, app) {
				tr.p("A %d %s %s %s %s %s %s %s %d %d", au.AuctionId, au.OutflowTokenCurrentAmount.Amount, au.InflowTokenTargetAmount.Amount,
					au.InflowTokenCurrentAmount.Amount, au.OutflowTokenCurrentPrice.BigInt(), au.InflowTokenCurrentPrice.BigInt(),
					au.OutflowTokenInitialPrice.BigInt(), au.OutflowTokenEndPrice.BigInt(), c10Unix(au.StartTime), c10Unix(au.EndTime))
				lv, lvFound := a.LiquidationKeeper.GetLockedVault(c, app, au.LockedVaultId)
				tr.p("K %d %d %s %s %s %s", au.AuctionId, au.LockedVaultId, b2s(lvFound), lv.AmountIn, lv.AmountOut, lv.UpdatedAmountOut)
			}
			tr.p("E")
		}

		// report auctions that appeared (a liquidation sweep, or the re-liquidation inside a closing bid)
		newAuctions := func() int {
			c := c10At(ctx, now)
			n := 0
			for _, au := range a.AuctionKeeper.GetDutchLendAuctions(c, app) {
				if known[au.AuctionId] {
					continue
				}
				known[au.AuctionId] = true
				n++
				lv, lvFound := a.LiquidationKeeper.GetLockedVault(c, app, au.LockedVaultId)
				if !lvFound {
					t.Fatalf("case %d: lend auction %d without its locked vault %d", ci, au.AuctionId, au.LockedVaultId)
				}
				tr.p("op lstart %d %s %s %d %s %d %s %d ok %d %s %s %s", au.AuctionId, au.OutflowTokenCurrentAmount.Amount, au.InflowTokenTargetAmount.Amount,
					c10Unix(au.StartTime), b2s(actD), twaDcur, b2s(actC), twaC, au.LockedVaultId, lv.AmountIn, lv.AmountOut, lv.UpdatedAmountOut)
			}
			return n
		}

		started := [2]bool{}
		start := func(i int) {
			if started[i] {
				return
			}
			started[i] = true
			c := c10At(ctx, now)
			coll := scaleC.MulRaw(cs.collUnits[i])
			collVal := sdk.NewDecFromInt(coll).MulInt64(int64(twaC)).QuoInt64(cs.dc)
			debt := collVal.MulInt64(70).QuoInt64(100).MulInt64(cs.ltvUse[i]).QuoInt64(100).MulInt64(cs.dd).QuoInt64(int64(twaDcur)).TruncateInt()
			class := "err"
			if debt.IsPositive() && actC && actD {
				fund(t, a, c, owners[i], sdk.NewCoins(sdk.NewCoin(denomC, coll)))
				var berr error
				class, berr, _ = execMsg(a, c, lendtypes.NewMsgBorrowAlternate(owners[i].String(), assetC, pool, sdk.NewCoin(denomC, coll), pairID, false,
					sdk.NewCoin(denomD, debt), app))
				if debug && berr != nil {
					tr.p("# borrow %s %s: %s", coll, debt, strings.ReplaceAll(berr.Error(), "\n", " "))
				}
			}
			if class == "ok" {
				twaC = twaC * uint64(cs.dropTo[i]) / 100
				if twaC == 0 {
					twaC = 1
				}
				setPrice(a, c, assetC, twaC, actC)
				cc, write := c.CacheContext()
				var err error
				pn, _ := safely(func() { err = a.LiquidationKeeper.LiquidateBorrows(cc) })
				if pn {
					class = "panic"
				} else if err != nil {
					class = "err"
				} else {
					write()
				}
			}
			if newAuctions() == 0 {
				tr.p("op nostart %s %d", class, now)
			}
			observe()
		}

		start(0)
		for _, o := range cs.plan {
			c := c10At(ctx, now)
			switch o.kind {
			case 2:
				start(1)
			case 1:
				var dt int64
				switch o.dtClass {
				case 0:
					dt = 0
				case 1:
					dt = 1
				case 2:
					dt = 5
				case 3:
					dt = int64(cs.dur) / 4
				case 4:
					dt = int64(cs.dur) / 2
				case 5, 6:
					aus := a.AuctionKeeper.GetDutchLendAuctions(c, app)
					if len(aus) > 0 {
						dt = c10Unix(aus[0].EndTime) - now
						if o.dtClass == 6 {
							dt++
						}
						if dt < 0 {
							dt = 0
						}
					}
				case 7:
					dt = 2*int64(cs.dur) + 1
				default:
					dt = int64(1 + o.f1%7)
				}
				now += dt
				switch {
				case o.priceClass == 0:
					actC = !actC
				case o.priceClass == 1:
					actD = !actD
				case o.priceClass <= 4:
					twaC = twaC * uint64(o.f1) / 100
					if twaC == 0 {
						twaC = 1
					}
				case o.priceClass == 5:
					twaDcur = twaDcur * uint64(o.f1) / 100
					if twaDcur == 0 {
						twaDcur = 1
					}
				case o.priceClass <= 7:
					actC, actD = true, true
				case o.priceClass == 8:
					// a feed goes inactive and stays so until a class 0/1/6/7 tick: the closing bids that follow meet
					// the feed requirement of UnLiquidateLockedBorrows (fix 6257748)
					actC = false
				case o.priceClass == 9:
					actD = false
				}
				c = c10At(ctx, now)
				setPrice(a, c, assetC, twaC, actC)
				setPrice(a, c, assetD, twaDcur, actD)
				pn, _ := safely(func() { auction.BeginBlocker(c, a.AuctionKeeper, a.AssetKeeper, a.CollectorKeeper, a.EsmKeeper) })
				class := "ok"
				if pn {
					class = "panic"
				}
				tr.p("op tick %d %s %d %s %d %s", now, b2s(actD), twaDcur, b2s(actC), twaC, class)
				observe()
			case 0:
				aus := a.AuctionKeeper.GetDutchLendAuctions(c, app)
				var aid uint64 = 77
				remaining := sdk.NewInt(1000000)
				reach := sdk.NewInt(1000)
				if len(aus) > 0 {
					target := aus[o.f2%len(aus)]
					aid = target.AuctionId
					remaining = target.OutflowTokenCurrentAmount.Amount
					tab := target.InflowTokenTargetAmount.Amount.Sub(target.InflowTokenCurrentAmount.Amount)
					if target.OutflowTokenCurrentPrice.IsPositive() {
						reach = sdk.NewDecFromInt(tab).Mul(target.InflowTokenCurrentPrice).QuoInt64(cs.dd).Quo(target.OutflowTokenCurrentPrice).MulInt64(cs.dc).TruncateInt()
					}
				}
				var amt sdk.Int
				denom := denomC
				switch o.class {
				case 0:
					amt = sdk.NewInt(1)
				case 1:
					amt = sdk.NewInt(int64(o.f2))
				case 2, 3:
					amt = remaining.MulRaw(int64(o.f1)).QuoRaw(100)
				case 4:
					amt = reach.MulRaw(int64(o.f1)).QuoRaw(100)
				case 5:
					amt = remaining
				case 6:
					amt = remaining.SubRaw(1)
				case 7:
					amt = remaining.AddRaw(1)
				case 8:
					amt = reach
				case 9:
					amt = reach.AddRaw(int64(o.f1%3) - 1)
				case 10:
					amt = reach.MulRaw(2)
				case 11:
					amt = remaining.Sub(sdk.NewInt(cs.dc).MulRaw(int64(o.f1)).QuoRaw(1000))
				case 12:
					amt = remaining.MulRaw(int64(o.f1)).QuoRaw(100)
					if o.f1%5 == 0 {
						denom = denomD
					} else if o.f1%5 == 1 {
						amt = sdk.ZeroInt()
					}
				default:
					amt = reach.Sub(sdk.NewInt(cs.dc).MulRaw(int64(o.f1)).QuoRaw(1000))
				}
				if amt.IsNegative() {
					amt = sdk.NewInt(1)
				}
				if amt.GT(remaining) && o.class != 7 && o.class != 12 {
					amt = remaining
				}
				msg := &auctionv1types.MsgPlaceDutchLendBidRequest{AuctionId: aid, Bidder: bidders[o.who].String(), Amount: sdk.Coin{Denom: denom, Amount: amt},
					AppId: app, AuctionMappingId: 3}
				// the two feeds as the bid finds them (the message itself does not move them)
				twD, twDFound := a.MarketKeeper.GetTwa(c, assetD)
				twC, twCFound := a.MarketKeeper.GetTwa(c, assetC)
				class, berr, _ := execMsg(a, c, msg)
				if debug && berr != nil {
					tr.p("# %s", strings.ReplaceAll(berr.Error(), "\n", " "))
				}
				tr.p("op bid %d %d %s %s %s %d %s %d %s", aid, o.who, amt, b2s(denom != denomC),
					b2s(twDFound && twD.IsPriceActive), twD.Twa, b2s(twCFound && twC.IsPriceActive), twC.Twa, class)
				newAuctions()
				observe()
			}
		}
	}
}
