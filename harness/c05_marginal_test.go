//go:build verif

package verifharness

import (
	sdkmath "cosmossdk.io/math"
	sdk "github.com/cosmos/cosmos-sdk/types"

	"github.com/comdex-official/comdex/x/liquidity/amm"
)

// Directed books for the drop loop of FindMatchableAmountAtSinglePrice (amm/match.go:144-175): the single-price
// match at a price p < 1 where 1/p is NOT an integer, with a MARGINAL tick (the last eligible tick of a side, the
// one that is filled only in part) whose residue - what is left for it once the other ticks of its side are used
// up - is k base coins, k around the amount that is worth one quote coin: floor(1/p), ceil(1/p), +-1 around them,
// 0, 1, and multiples.  A marginal SELL tick whose residue is worth zero quote coin (p*k < 1) must be dropped
// (nobody would pay for it); one worth a quote coin or more must be matched.  With 1/p an integer floor = ceil and
// the two roundings cannot be told apart; the random books of c05RandRun hit "residue == floor(1/p) exactly" with
// probability ~ 1/amount, i.e. never.  Both sides are driven (marginal sell tick, marginal buy tick, both), through
// every entry point that reaches the loop: MatchAtSinglePrice at the tick, Match with the tick as last price
// (Match starts with MatchAtSinglePrice(lastPrice)), FindMatchPrice + MatchAtSinglePrice.

// prices below one whose inverse is not an integer, with the tick precision that makes them a tick
var c05MargPrices = []struct {
	p    string
	prec int
}{
	{"0.102", 3}, {"0.3", 1}, {"0.9", 1}, {"0.7", 2}, {"0.6", 1}, {"0.45", 2}, {"0.0021", 3}, {"0.012", 2}, {"0.123", 3},
	{"0.011", 3}, {"0.35", 2}, {"0.999", 3}, {"0.0007", 2}, {"0.03", 1}, {"0.49", 1}, {"0.51", 1}, {"0.8", 2}, {"0.15", 3},
	{"0.00033", 2}, {"0.98", 1},
}

func c05Sell(price sdk.Dec, amt sdkmath.Int, batch, id uint64) c05Spec {
	return c05Spec{buy: false, price: price, amt: amt, offer: amt, batch: batch, id: id}
}

func c05Buy(price sdk.Dec, amt sdkmath.Int, batch, id uint64) c05Spec {
	return c05Spec{buy: true, price: price, amt: amt, offer: amm.OfferCoinAmount(amm.Buy, price, amt), batch: batch, id: id}
}

// split total into 1..3 parts, each at least min (one part when total < 2*min)
func c05Split(r *rng, total, min sdkmath.Int) []sdkmath.Int {
	n := 1 + r.intn(3)
	var out []sdkmath.Int
	rest := total
	for i := 0; i < n-1; i++ {
		if rest.LT(min.MulRaw(2)) {
			break
		}
		room := rest.Sub(min.MulRaw(2))
		part := min
		if room.IsPositive() {
			part = min.Add(sdkmath.NewIntFromUint64(r.next() % (room.Uint64() + 1)))
		}
		out = append(out, part)
		rest = rest.Sub(part)
	}
	return append(out, rest)
}

// the residues tried around the amount worth one quote coin
func c05Residue(r *rng, f, c sdkmath.Int) sdkmath.Int {
	switch r.intn(12) {
	case 0, 1, 2:
		return f
	case 3, 4:
		return c
	case 5:
		return f.SubRaw(1)
	case 6:
		return c.AddRaw(1)
	case 7:
		return sdkmath.ZeroInt()
	case 8:
		return sdkmath.OneInt()
	case 9:
		return f.MulRaw(2)
	case 10:
		return f.Add(c)
	default:
		return c.MulRaw(2).SubRaw(1)
	}
}

// one book: [side] 0 = marginal sell tick, 1 = marginal buy tick, 2 = both sides end in a partial tick
func c05MarginalBook(r *rng, p sdk.Dec, prec int, side int, k sdkmath.Int) []c05Spec {
	f := sdk.OneDec().QuoTruncate(p).TruncateInt() // floor(1/p)
	c := sdk.OneDec().Quo(p).Ceil().TruncateInt()  // ceil(1/p): the smallest amount worth one quote coin
	if k.IsNegative() {
		k = sdkmath.ZeroInt()
	}
	unit := c
	id := uint64(1)
	nb := uint64(1 + r.intn(2))
	batch := func() uint64 { return 1 + r.next()%nb }
	var specs []c05Spec
	add := func(s c05Spec) { s.id = id; id++; specs = append(specs, s) }
	// the inner ticks of the side whose last tick is marginal: 1-2 ticks strictly inside, amounts well above one unit
	inner := func(buy bool) sdkmath.Int {
		total := sdkmath.ZeroInt()
		price := p
		nt := 1 + r.intn(2)
		for t := 0; t < nt; t++ {
			steps := 1 + r.intn(2)
			for s := 0; s < steps; s++ {
				if buy {
					price = amm.UpTick(price, prec)
				} else {
					price = amm.DownTick(price, prec)
				}
			}
			tickAmt := unit.MulRaw(int64(2 + r.intn(30))).AddRaw(int64(r.intn(7)))
			for _, a := range c05Split(r, tickAmt, unit) {
				if buy {
					add(c05Buy(price, a, batch(), 0))
				} else {
					add(c05Sell(price, a, batch(), 0))
				}
			}
			total = total.Add(tickAmt)
		}
		return total
	}
	// the marginal tick at the match price: the last eligible tick of its side
	marginal := func(buy bool, atLeast sdkmath.Int) sdkmath.Int {
		amt := sdkmath.MaxInt(atLeast, unit).Add(unit.MulRaw(int64(r.intn(4)))).AddRaw(int64(r.intn(3)))
		parts := []sdkmath.Int{amt}
		if r.chance(35) {
			parts = c05Split(r, amt, unit)
		}
		for _, a := range parts {
			if buy {
				add(c05Buy(p, a, batch(), 0))
			} else {
				add(c05Sell(p, a, batch(), 0))
			}
		}
		return amt
	}
	switch side {
	case 0: // sells: inner ticks S0 + marginal tick; buys worth S0 + k at or above p
		s0 := inner(false)
		marginal(false, k.AddRaw(1))
		total := s0.Add(k)
		price := p
		if r.chance(40) {
			price = amm.UpTick(p, prec)
		}
		for i, a := range c05Split(r, total, unit) {
			if i == 1 && r.chance(50) {
				price = amm.UpTick(price, prec)
			}
			add(c05Buy(price, a, batch(), 0))
		}
	case 1: // buys: inner ticks B0 + marginal tick at p; sells worth B0 + k at or below p
		b0 := inner(true)
		marginal(true, k.AddRaw(1))
		total := b0.Add(k)
		price := p
		if r.chance(40) {
			price = amm.DownTick(p, prec)
		}
		for i, a := range c05Split(r, total, unit) {
			if i == 1 && r.chance(50) {
				price = amm.DownTick(price, prec)
			}
			add(c05Sell(price, a, batch(), 0))
		}
	default: // both sides: inner ticks differ by k, both marginal ticks are larger than what is left for them
		s0 := inner(false)
		b0 := s0.Add(k)
		// one or two buy ticks above p holding b0 - d, the marginal buy tick takes d + something
		d := unit.MulRaw(int64(1 + r.intn(3)))
		if d.GTE(b0) {
			d = sdkmath.ZeroInt()
		}
		price := amm.UpTick(p, prec)
		for _, a := range c05Split(r, b0.Sub(d), unit) {
			add(c05Buy(price, a, batch(), 0))
		}
		marginal(true, d)
		marginal(false, k.AddRaw(1))
	}
	// noise outside the match: sells above p, buys below p, a too small order
	if r.chance(40) {
		add(c05Sell(amm.UpTick(p, prec), unit.MulRaw(int64(1+r.intn(9))), batch(), 0))
	}
	if r.chance(40) {
		add(c05Buy(amm.DownTick(p, prec), unit.MulRaw(int64(1+r.intn(9))), batch(), 0))
	}
	if r.chance(25) && f.IsPositive() {
		add(c05Sell(p, f, batch(), 0)) // a sell order that is itself worth zero quote coin: MatchableAmount 0
	}
	// insertion order is free (the book sorts into ticks); shuffle so that ids do not follow the construction
	for i := len(specs) - 1; i > 0; i-- {
		j := r.intn(i + 1)
		specs[i], specs[j] = specs[j], specs[i]
	}
	return specs
}

func c05MarginalRun(r *rng) c05Run {
	pp := c05MargPrices[r.intn(len(c05MargPrices))]
	prec := pp.prec
	if r.chance(30) && prec < 4 {
		prec++
	}
	p := sdk.MustNewDecFromStr(pp.p)
	f := sdk.OneDec().QuoTruncate(p).TruncateInt()
	c := sdk.OneDec().Quo(p).Ceil().TruncateInt()
	side := []int{0, 0, 0, 1, 2}[r.intn(5)]
	k := c05Residue(r, f, c)
	specs := c05MarginalBook(r, p, prec, side, k)
	kind := []string{"single", "single", "match", "match", "find"}[r.intn(5)]
	return c05Run{kind: kind, specs: specs, price: p, prec: prec}
}

// fixed regression books (they follow the six corpus cases): inner sell tick 100, marginal sell tick with residue
// floor(1/p) resp. ceil(1/p), through MatchAtSinglePrice and Match
func c05MarginalCorpus() []c05Run {
	var out []c05Run
	for _, x := range []struct {
		p       string
		prec    int
		residue int64
	}{{"0.102", 3, 9}, {"0.102", 3, 10}, {"0.3", 1, 3}, {"0.3", 1, 4}, {"0.9", 1, 1}, {"0.9", 1, 2}} {
		p := sdk.MustNewDecFromStr(x.p)
		lower := amm.DownTick(p, x.prec)
		specs := []c05Spec{
			c05Sell(lower, sdkmath.NewInt(100), 1, 1),
			c05Sell(p, sdkmath.NewInt(50), 1, 2),
			c05Buy(p, sdkmath.NewInt(100+x.residue), 1, 3),
		}
		out = append(out, c05Run{kind: "single", specs: specs, price: p, prec: x.prec})
		out = append(out, c05Run{kind: "match", specs: specs, price: p, prec: x.prec})
	}
	return out
}
