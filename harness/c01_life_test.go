//go:build verif

package verifharness

// Workload C01-life (C01 / C02): the full life cycle of CDP vaults on the wired generation-2 path.
// Vaults are opened through the real vault messages, made unsafe by oracle price moves, seized by the
// real liquidationsV2 keeper (BeginBlocker sweep and MsgLiquidateInternalKeeper), their dutch auctions
// are settled through MsgPlaceMarketBid with one full bid or partial bids + a closing bid, auctions
// expire and are restarted by the auctionsV2 BeginBlocker, interest / closing fees accrue before the
// seizure (time gaps, app whitelisted for vault interest), and an emergency shutdown (ESM) makes the
// auctionsV2 BeginBlocker hand auctions back (TriggerEsm) and the esm keeper set up the collateral
// redemption.  After EVERY step the projection of c01_test.go is dumped, extended by the module
// accounts auctionsV2 / esm / liquidationsV2, the locked vaults, the auctions, the esm AssetToAmount
// records and the app reserve.

import (
	"fmt"
	"os"
	"strings"
	"testing"
	"time"

	abci "github.com/cometbft/cometbft/abci/types"
	sdk "github.com/cosmos/cosmos-sdk/types"

	chain "github.com/comdex-official/comdex/app"
	"github.com/comdex-official/comdex/x/auctionsV2"
	auctypes "github.com/comdex-official/comdex/x/auctionsV2/types"
	esmtypes "github.com/comdex-official/comdex/x/esm/types"
	"github.com/comdex-official/comdex/x/liquidationsV2"
	liqtypes "github.com/comdex-official/comdex/x/liquidationsV2/types"
	vaulttypes "github.com/comdex-official/comdex/x/vault/types"
)

type lifeCase struct {
	*vltCase
	penalty  map[uint64]sdk.Dec // per extended pair
	wl       map[uint64]bool    // app whitelisted for liquidation
	ki       map[uint64]sdk.Dec
	dur      uint64
	esmApp   uint64
	esmEnd   time.Time
	esmOn    bool
	nowners  int
	reserved bool
}

var lifeModAccts = []struct {
	idx  int
	name string
}{{-1, auctypes.ModuleName}, {-2, esmtypes.ModuleName}, {-3, liqtypes.ModuleName}}

func (c *lifeCase) ownerIdx(addr string) int {
	if o, ok := c.owner[addr]; ok {
		return o
	}
	return -9
}

func (c *lifeCase) obsLife() {
	a, ctx, tr := c.a, c.ctx, c.tr
	c.obsBody()
	for _, m := range lifeModAccts {
		var sb strings.Builder
		for _, as := range c.assets {
			fmt.Fprintf(&sb, " %d %s", as.id, bal(a, ctx, modAddr(m.name), as.denom).String())
		}
		tr.p("b %d %d%s", m.idx, len(c.assets), sb.String())
	}
	for _, lk := range a.NewliqKeeper.GetLockedVaults(ctx) {
		keeper := 0
		if lk.InternalKeeperAddress != "" {
			keeper = c.ownerIdx(lk.InternalKeeperAddress)
		}
		tr.p("lk %d %d %d %d %s %s %s %s %s %d %s %d %d %d", lk.LockedVaultId, lk.AppId, lk.ExtendedPairId, c.ownerIdx(lk.Owner),
			lk.CollateralToken.Amount, lk.DebtToken.Amount, lk.TargetDebt.Amount, lk.FeeToBeCollected, b2s(lk.IsInternalKeeper), keeper,
			lk.InitiatorType, lk.CollateralAssetId, lk.DebtAssetId, lk.OriginalVaultId)
	}
	for _, au := range a.NewaucKeeper.GetAuctions(ctx) {
		tr.p("au %d %d %d %d %d %s %s %d %s", au.AuctionId, au.AppId, au.LockedVaultId, au.CollateralAssetId, au.DebtAssetId,
			au.CollateralToken.Amount, au.DebtToken.Amount, au.EndTime.Unix(), b2s(au.AuctionType))
	}
	tr.p("lc %d %d", a.NewliqKeeper.GetLockedVaultID(ctx), a.NewaucKeeper.GetAuctionID(ctx))
	for _, app := range c.apps {
		for _, x := range a.EsmKeeper.GetAllAssetToAmount(ctx, app) {
			tr.p("er %d %d %s %s", x.AppId, x.AssetID, x.Amount, b2s(x.IsCollateral))
		}
		for _, as := range c.assets {
			rs, found := a.NewliqKeeper.GetAppReserveFunds(ctx, app, as.id)
			if found {
				tr.p("rs %d %d %s", app, as.id, rs.TokenQuantity.Amount)
			}
		}
	}
	tr.p("eo")
}

// ---------- set-up ----------
func (c *lifeCase) setupLife() {
	r, a, t := c.r, c.a, c.t
	ctx := c.ctx
	c.penalty, c.wl, c.ki = map[uint64]sdk.Dec{}, map[uint64]bool{}, map[uint64]sdk.Dec{}
	napps := 1
	if r.chance(30) {
		napps = 2
	}
	names := []string{"lone", "ltwo"}
	for i := 0; i < napps; i++ {
		c.apps = append(c.apps, addAppRecord(t, a, ctx, names[i]))
	}
	// assets: one or two collaterals, one debt asset
	decPairs := [][2]int{{6, 6}, {6, 6}, {8, 6}, {18, 6}, {6, 6}}
	dp := decPairs[r.intn(len(decPairs))]
	mk := func(name, denom string, dec int, debt bool) *vltAsset {
		scale := vltPow10(dec).Int64()
		as := &vltAsset{denom: denom, dec: scale, debt: debt}
		as.id = addAsset(t, a, ctx, name, denom, scale, true, debt)
		c.assets = append(c.assets, as)
		return as
	}
	c1 := mk("LCA", "ulca", dp[0], false)
	c2 := mk("LCB", "ulcb", 6, false)
	d := mk("LDD", "uldd", dp[1], true)
	// zero-fee cases keep the tokens-minted clause free of the known drift (C01-F2)
	zeroFees := r.chance(45)
	nprod := 1 + r.intn(2)
	pairIDs := map[[2]uint64]uint64{}
	for i := 0; i < nprod+napps-1; i++ {
		in := c1
		if i%2 == 1 {
			in = c2
		}
		app := c.apps[0]
		if i >= nprod {
			app = c.apps[1]
		}
		key := [2]uint64{in.id, d.id}
		pid, ok := pairIDs[key]
		if !ok {
			pid = addPair(t, a, ctx, in.id, d.id)
			pairIDs[key] = pid
		}
		p := &vltProd{app: app, pair: pid, in: in, out: d}
		p.stab = vltDecStr([]string{"0", "0.25", "0.9", "0.02"}[r.intn(4)])
		p.closing = vltDecStr([]string{"0", "0.005", "0.1", "0.000000000000000001"}[r.intn(4)])
		if zeroFees {
			p.stab, p.closing = sdk.ZeroDec(), sdk.ZeroDec()
		}
		p.ddf = vltDecStr([]string{"0", "0", "0.005", "0.01"}[r.intn(4)])
		p.minCr = vltDecStr([]string{"1.5", "1.3", "2", "1.7"}[r.intn(4)])
		outUnit := sdk.NewInt(d.dec)
		p.floor = c.pickInt(sdk.NewInt(1), outUnit, sdk.NewInt(1000))
		p.ceiling = c.pickInt(outUnit.MulRaw(100000), outUnit.MulRaw(10000000))
		p.active = true
		p.orc = r.chance(50)
		p.outPrice = r.pickU(1000000, 1000000, 1010000, 990000)
		pen := vltDecStr([]string{"0.12", "0", "0.05", "0.15"}[r.intn(4)])
		name := "L" + string("ABCDEFGH"[i]) + "-X"
		p.id = addExtPair(t, a, ctx, extPairCfg{Name: name, App: p.app, Pair: pid, StabilityFee: p.stab, ClosingFee: p.closing,
			LiqPenalty: pen, DrawDownFee: p.ddf, MinCr: p.minCr, DebtCeiling: p.ceiling, DebtFloor: p.floor,
			Stable: false, Active: true, OraclePrice: p.orc, AssetOutPrice: p.outPrice, MinUsdValLeft: 100000})
		c.penalty[p.id] = pen
		c.prods = append(c.prods, p)
	}
	for _, as := range c.assets {
		pr := uint64(1000000)
		if !as.debt {
			pr = r.pickU(1000000, 2500000, 13370000, 250000, 999999)
		} else if r.chance(30) {
			pr = r.pickU(990000, 1010000, 1000001)
		}
		setPrice(a, ctx, as.id, pr, true)
	}
	// liquidation / auction parameters
	c.dur = r.pickU(60, 600, 3600)
	a.NewaucKeeper.SetAuctionParams(ctx, auctypes.AuctionParams{AuctionDurationSeconds: c.dur, Step: c10Dec("0.1"), WithdrawalFee: sdk.ZeroDec(),
		ClosingFee: sdk.ZeroDec(), MinUsdValueLeft: r.pickU(0, 100000, 0), BidFactor: c10Dec("0.1"), LiquidationPenalty: c10Dec("0.1"), AuctionBonus: sdk.ZeroDec()})
	for i, app := range c.apps {
		c.ki[app] = c10Dec([]string{"0", "0.1", "0.005"}[r.intn(3)])
		c.wl[app] = i == 0 || r.chance(60)
		if c.wl[app] {
			dpm := liqtypes.DutchAuctionParam{Premium: c10Dec([]string{"1.2", "1.0", "1.5"}[r.intn(3)]), Discount: c10Dec([]string{"0.7", "0.5", "0.9"}[r.intn(3)]), DecrementFactor: sdk.NewInt(1)}
			epm := liqtypes.EnglishAuctionParam{DecrementFactor: sdk.NewInt(1)}
			a.NewliqKeeper.SetLiquidationWhiteListing(ctx, liqtypes.LiquidationWhiteListing{AppId: app, Initiator: true, IsDutchActivated: true,
				DutchAuctionParam: &dpm, IsEnglishActivated: true, EnglishAuctionParam: &epm, KeeeperIncentive: c.ki[app]})
		}
		if !zeroFees || r.chance(50) {
			if err := a.Rewardskeeper.WhitelistAppIDVault(ctx, app); err != nil {
				t.Fatal(err)
			}
		}
	}
	// users: owners and bidders alike hold collateral and (external) debt coins
	nusers := 4 + r.intn(2)
	c.owner = map[string]int{}
	for i := 0; i < nusers; i++ {
		u := addrN(2000 + i)
		c.users = append(c.users, u)
		c.owner[u.String()] = c.acct(i)
		var coins sdk.Coins
		for _, as := range c.assets {
			amt := sdk.NewInt(as.dec).MulRaw(int64(r.pickI(1000000, 50000, 1000000000)))
			coins = coins.Add(sdk.NewCoin(as.denom, amt))
		}
		fund(t, a, ctx, u, coins)
	}
	// app reserve (the collateral-exhausted branch of a closing bid draws from it)
	if r.chance(60) {
		amt := sdk.NewInt(d.dec).MulRaw(int64(r.pickI(1, 1000, 1000000)))
		class, _, _ := execMsg(a, ctx, liqtypes.NewMsgAppReserveFundsRequest(c.users[nusers-1].String(), c.apps[0], d.id, sdk.NewCoin(d.denom, amt)))
		c.reserved = class == "ok"
	}
	// trace header
	var sb strings.Builder
	for _, x := range c.apps {
		fmt.Fprintf(&sb, " %d", x)
	}
	c.tr.p("apps %d%s", len(c.apps), sb.String())
	sb.Reset()
	for _, as := range c.assets {
		fmt.Fprintf(&sb, " %d", as.id)
	}
	c.tr.p("assets %d%s", len(c.assets), sb.String())
	for _, p := range c.prods {
		c.tr.p("ep %d %d %d %d %d %d %s %s %s %s %s %s %s %s %s %d", p.id, p.app, p.in.id, p.out.id, p.in.dec, p.out.dec,
			p.stab.BigInt(), p.closing.BigInt(), p.ddf.BigInt(), p.minCr.BigInt(), p.floor, p.ceiling, b2s(p.stable), b2s(p.active), b2s(p.orc), p.outPrice)
		c.tr.p("lpen %d %s", p.id, c.penalty[p.id].BigInt())
	}
	for _, app := range c.apps {
		c.tr.p("lapp %d %s %s %s", app, b2s(c.wl[app]), b2s(c.wl[app]), c.ki[app].BigInt())
	}
	c.tr.p("ldur %d", c.dur)
	c.tr.p("users %d", nusers)
}

// ---------- steps ----------
func (c *lifeCase) advance(dt int64) {
	c.now = c.now.Add(time.Duration(dt) * time.Second)
	c.height += 1 + int64(c.r.intn(3))
	c.ctx = c.ctx.WithBlockTime(c.now).WithBlockHeight(c.height)
	c.tr.p("op time %d ok", dt)
	c.obsLife()
}

func (c *lifeCase) movePrice(as *vltAsset, num, den uint64, active bool) {
	tw, _ := c.a.MarketKeeper.GetTwa(c.ctx, as.id)
	np := tw.Twa * num / den
	if np == 0 {
		np = 1
	}
	setPrice(c.a, c.ctx, as.id, np, active)
	c.tr.p("op price %d %s %d ok", as.id, b2s(active), np)
	c.obsLife()
}

func (c *lifeCase) collaterals() []*vltAsset {
	var out []*vltAsset
	for _, as := range c.assets {
		if !as.debt {
			out = append(out, as)
		}
	}
	return out
}

// a vault whose ratio is below the product's minimum (0 if none)
func (c *lifeCase) unsafeVault() uint64 {
	for _, v := range c.a.VaultKeeper.GetVaults(c.ctx) {
		ep, _ := c.a.AssetKeeper.GetPairsVault(c.ctx, v.ExtendedPairVaultID)
		tot := v.AmountOut.Add(v.InterestAccumulated).Add(v.ClosingFeeAccumulated)
		var cr sdk.Dec
		var err error
		pn, _ := safely(func() { cr, err = c.a.VaultKeeper.CalculateCollateralizationRatio(c.ctx, v.ExtendedPairVaultID, v.AmountIn, tot) })
		if !pn && err == nil && cr.LT(ep.MinCr) {
			return v.Id
		}
	}
	return 0
}

func (c *lifeCase) liquidateMsg() {
	r, a := c.r, c.a
	vaults := a.VaultKeeper.GetVaults(c.ctx)
	vid := c.unsafeVault()
	if vid == 0 || r.chance(20) {
		if len(vaults) > 0 && r.chance(85) {
			vid = vaults[r.intn(len(vaults))].Id
		} else {
			vid = uint64(r.intn(int(a.VaultKeeper.GetIDForVault(c.ctx)) + 2))
		}
	}
	ki := r.intn(len(c.users))
	ie := sdk.ZeroInt()
	if v, found := a.VaultKeeper.GetVault(c.ctx, vid); found {
		ie = c.dryInterest(c.ctx, v.AppId, v.ExtendedPairVaultID, vid)
	}
	class, err, _ := execMsg(a, c.ctx, liqtypes.NewMsgLiquidateInternalKeeperRequest(c.users[ki], 0, vid))
	if err != nil && os.Getenv("VERIF_DEBUG") != "" {
		c.tr.p("# %s", strings.ReplaceAll(err.Error(), "\n", " "))
	}
	c.tr.p("op liq %d %s %d %s", vid, ie, c.acct(ki), class)
	c.obsLife()
}

func (c *lifeCase) sweepBlock() {
	a := c.a
	// the window LiquidateVaults will visit (the offset arithmetic is C09's subject: recorded, not modelled)
	vaults := a.VaultKeeper.GetVaults(c.ctx)
	length := int(a.VaultKeeper.GetLengthOfVault(c.ctx))
	batch := int(a.NewliqKeeper.GetParams(c.ctx).LiquidationBatchSize)
	off := 0
	if h, found := a.NewliqKeeper.GetLiquidationOffsetHolder(c.ctx, liqtypes.VaultLiquidationsOffsetPrefix, 0); found {
		off = int(h.CurrentOffset)
	}
	start, end := liqtypes.GetSliceStartEndForLiquidations(length, off, batch)
	if start == end {
		start, end = liqtypes.GetSliceStartEndForLiquidations(length, 0, batch)
	}
	var sb strings.Builder
	n := 0
	if end <= len(vaults) && start <= end {
		for _, v := range vaults[start:end] {
			ie := c.dryInterest(c.ctx, v.AppId, v.ExtendedPairVaultID, v.Id)
			fmt.Fprintf(&sb, " %d %s", v.Id, ie)
			n++
		}
	}
	cctx, write := c.ctx.CacheContext()
	pn, _ := safely(func() { liquidationsV2.BeginBlocker(cctx, abci.RequestBeginBlock{}, a.NewliqKeeper) })
	res := "ok"
	if pn {
		res = "panic"
	} else {
		write()
	}
	c.tr.p("op sweep %d%s %s", n, sb.String(), res)
	c.obsLife()
}

func (c *lifeCase) bidOp() {
	r, a := c.r, c.a
	aus := a.NewaucKeeper.GetAuctions(c.ctx)
	var aid uint64 = 77
	remaining := sdk.NewInt(1000000)
	denom := c.assets[len(c.assets)-1].denom
	var target *auctypes.Auction
	if len(aus) > 0 && !r.chance(3) {
		target = &aus[r.intn(len(aus))]
		aid = target.AuctionId
		remaining = target.DebtToken.Amount
		denom = target.DebtToken.Denom
	}
	var amt sdk.Int
	switch x := r.intn(100); {
	case x < 30:
		amt = remaining
	case x < 38:
		amt = remaining.MulRaw(int64(2 + r.intn(3)))
	case x < 42:
		amt = remaining.AddRaw(1)
	case x < 80:
		amt = remaining.MulRaw(int64(5 + r.intn(70))).QuoRaw(100)
	case x < 86:
		amt = remaining.SubRaw(int64(1 + r.intn(2000)))
	case x < 92:
		amt = sdk.NewInt(int64(1 + r.intn(5000)))
	case x < 96:
		amt = remaining.QuoRaw(2).AddRaw(1)
	default:
		amt = sdk.ZeroInt()
	}
	if amt.IsNegative() {
		amt = sdk.NewInt(1)
	}
	who := r.intn(len(c.users))
	bidBefore := a.NewaucKeeper.GetUserBidID(c.ctx)
	var app, dAsset uint64
	rsBefore := sdk.ZeroInt()
	txBefore := 0
	if target != nil {
		app, dAsset = target.AppId, target.DebtAssetId
		if rs, found := a.NewliqKeeper.GetAppReserveFunds(c.ctx, app, dAsset); found {
			rsBefore = rs.TokenQuantity.Amount
		}
		if tx, found := a.NewliqKeeper.GetAppReserveFundsTxData(c.ctx, app); found {
			txBefore = len(tx.AssetTxData)
		}
	}
	msg := &auctypes.MsgPlaceMarketBidRequest{AuctionId: aid, Bidder: c.users[who].String(), Amount: sdk.Coin{Denom: denom, Amount: amt}}
	class, err, _ := execMsg(a, c.ctx, msg)
	if err != nil && os.Getenv("VERIF_DEBUG") != "" {
		c.tr.p("# %s", strings.ReplaceAll(err.Error(), "\n", " "))
	}
	bidAfter := a.NewaucKeeper.GetUserBidID(c.ctx)
	if class == "ok" && bidAfter == bidBefore+1 {
		b, _ := a.NewaucKeeper.GetUserBid(c.ctx, bidAfter)
		_, gerr := a.NewaucKeeper.GetAuction(c.ctx, aid)
		closed := gerr != nil
		exh := false
		topup := sdk.ZeroInt()
		if tx, found := a.NewliqKeeper.GetAppReserveFundsTxData(c.ctx, app); found && len(tx.AssetTxData) > txBefore {
			exh = true
			rs, _ := a.NewliqKeeper.GetAppReserveFunds(c.ctx, app, dAsset)
			topup = rsBefore.Sub(rs.TokenQuantity.Amount)
		}
		c.tr.p("op bid %d %d %s %s %s %s %s ok", aid, c.acct(who), b.DebtTokenAmount.Amount, b.CollateralTokenAmount.Amount, b2s(closed), b2s(exh), topup)
	} else {
		c.tr.p("op bidfail %d %d %s %s", aid, c.acct(who), amt, class)
	}
	c.obsLife()
}

func (c *lifeCase) aucTick() {
	cctx, write := c.ctx.CacheContext()
	pn, _ := safely(func() { auctionsV2.BeginBlocker(cctx, c.a.NewaucKeeper) })
	res := "ok"
	if pn {
		res = "panic"
	} else {
		write()
	}
	c.tr.p("op auctick %s", res)
	c.obsLife()
}

func (c *lifeCase) esmStart() {
	a := c.a
	app := c.apps[0]
	c.esmApp, c.esmOn = app, true
	c.esmEnd = c.now.Add(time.Duration(c.r.pickI(30, 600, 5000)) * time.Second)
	a.EsmKeeper.SetESMStatus(c.ctx, esmtypes.ESMStatus{AppId: app, Status: true, EndTime: c.esmEnd, SnapshotStatus: true})
	c.tr.p("op esm %d 1 %d 1 ok", app, c.esmEnd.Unix())
	c.obsLife()
	for _, as := range c.assets {
		if c.r.chance(92) {
			tw, _ := a.MarketKeeper.GetTwa(c.ctx, as.id)
			a.EsmKeeper.SetSnapshotOfPrices(c.ctx, app, as.id, tw.Twa)
			c.tr.p("op snap %d %d %d ok", app, as.id, tw.Twa)
			c.obsLife()
		}
	}
}

func (c *lifeCase) esmRedeem() {
	a := c.a
	app := c.esmApp
	if c.r.chance(10) {
		app = c.apps[c.r.intn(len(c.apps))]
	}
	// the esm BeginBlocker reaches this step only for apps that have an ESM status record; give the app one
	// (shutdown not executed) when it has none, so that the keeper function's own body is what is exercised
	if _, found := a.EsmKeeper.GetESMStatus(c.ctx, app); !found {
		a.EsmKeeper.SetESMStatus(c.ctx, esmtypes.ESMStatus{AppId: app, Status: false, EndTime: c.now, SnapshotStatus: false})
		c.tr.p("op esm %d 0 %d 0 ok", app, c.now.Unix())
		c.obsLife()
	}
	esmData, _ := a.EsmKeeper.GetESMTriggerParams(c.ctx, app)
	cctx, write := c.ctx.CacheContext()
	var err error
	pn, _ := safely(func() { err = a.EsmKeeper.SetUpCollateralRedemptionForVault(cctx, app, esmData) })
	res := "ok"
	if pn {
		res = "panic"
	} else if err != nil {
		res = "err"
	} else {
		write()
	}
	c.tr.p("op esmredeem %d %s", app, res)
	c.obsLife()
}

func (c *lifeCase) createNear() {
	// a vault at (or just above) the product's minimum ratio: the next price drop makes it unsafe
	r := c.r
	p := c.prods[r.intn(len(c.prods))]
	ui := r.intn(len(c.users))
	for k := 0; k < len(c.users) && c.vaultOf(ui, p) != 0; k++ { // prefer a user who has no vault in this product
		ui = (ui + 1) % len(c.users)
	}
	target := p.floor.Add(c.natural(p.out))
	ain := c.minColl(p, target)
	if ain.IsZero() {
		ain = c.natural(p.in)
	} else if r.chance(40) {
		ain = ain.MulRaw(int64(10 + r.intn(8))).QuoRaw(10)
	}
	res := c.exec(vaulttypes.NewMsgCreateRequest(c.users[ui], p.app, p.id, ain, target))
	c.tr.p("op create %d %d %d %s %s %s", c.acct(ui), p.app, p.id, ain, target, res)
	c.obsLife()
}

func lifeRunCase(t *testing.T, a *chain.App, base sdk.Context, tr *tracer, ci int, caseSeed uint64) {
	ctx, _ := base.CacheContext()
	vc := &vltCase{t: t, a: a, ctx: ctx, tr: tr, r: newRng(caseSeed), now: baseTime, height: 1, esmOn: map[uint64]bool{}}
	c := &lifeCase{vltCase: vc}
	r := c.r
	tr.p("case %d 0", ci)
	c.setupLife()
	c.now = c.now.Add(10 * time.Second)
	c.height = 2
	c.ctx = c.ctx.WithBlockTime(c.now).WithBlockHeight(c.height)
	tr.p("init")
	c.obsLife()
	nops := 26 + r.intn(22)
	esmAt := -1
	if r.chance(35) {
		esmAt = nops/2 + r.intn(nops/3)
	}
	for i := 0; i < nops; i++ {
		if i == esmAt {
			c.esmStart()
			continue
		}
		nv := len(a.VaultKeeper.GetVaults(c.ctx))
		nau := len(a.NewaucKeeper.GetAuctions(c.ctx))
		x := r.intn(100)
		switch {
		case nv < 2 && x < 60 && !c.esmOn:
			c.createNear()
		case x < 12:
			c.createNear()
		case x < 30:
			c.randomOp()
			c.obsLife()
		case x < 42:
			// the collateral price falls (mostly) or recovers
			cs := c.collaterals()
			as := cs[r.intn(len(cs))]
			if r.chance(80) {
				c.movePrice(as, uint64(55+r.intn(42)), 100, !r.chance(6))
			} else {
				c.movePrice(as, uint64(105+r.intn(60)), 100, true)
			}
		case x < 50:
			c.advance(r.pickI(60, 3600, 86400, 86400*30, 86400*365))
		case x < 60:
			c.liquidateMsg()
		case x < 70:
			c.sweepBlock()
		case x < 88:
			if nau == 0 && r.chance(70) {
				c.sweepBlock()
			} else {
				c.bidOp()
			}
		case x < 96:
			dur := int64(c.dur)
			c.advance(r.pickI(1, dur/4, dur/2, dur+1, 2*dur+1, dur))
			c.aucTick()
		default:
			if c.esmOn {
				if !c.now.After(c.esmEnd) && r.chance(60) {
					c.advance(int64(c.esmEnd.Sub(c.now).Seconds()) + 1)
				}
				c.esmRedeem()
			} else {
				c.aucTick()
			}
		}
	}
	// drain: settle what is still in auction with full bids, so that most cases end with no vault awaiting settlement
	for k := 0; k < 3; k++ {
		aus := a.NewaucKeeper.GetAuctions(c.ctx)
		if len(aus) == 0 || c.esmOn {
			break
		}
		c.bidOp()
	}
}

// TestC01Life is the workload "vault-life" of C01 and C02.
func TestC01Life(t *testing.T) {
	a, base := newApp(t)
	tr := newTracer(t, "c01life.trace")
	defer tr.close()
	r := newRng(newRng(seed()).next() ^ 0xC01F)
	ncases := envInt("VERIF_CASES", 40)
	only := envInt("VERIF_CASE", -1)
	for ci := 0; ci < ncases; ci++ {
		caseSeed := r.next()
		if only >= 0 && ci != only {
			continue
		}
		lifeRunCase(t, a, base, tr, ci, caseSeed)
	}
}
