//go:build verif

package verifharness

// Workload esm-life (C01 / C02): the emergency shutdown of an app driven end to end on the real keepers.
// Vaults and stable-mint vaults are opened through the real vault messages (draw-down fees fill the
// collector's net-fee records), users deposit governance tokens (MsgDepositESM: wrong denom, zero, below /
// at / above the target), MsgExecuteESM is tried before and after the target is met, the real
// esm.BeginBlocker takes the price snapshot (also with an inactive price), the cool-off period passes, the
// BeginBlocker runs the vault / stable-mint / collector set-up steps and, one block later, the share
// calculation; MsgCollateralRedemption is sent by several users before the cool-off ends, between the set-up
// and the share calculation, and afterwards with boundary amounts (1, the whole balance, the whole
// registered debt, one more than it, more than the balance, 0) and denominations (every debt asset, a
// collateral asset, the governance token, an unknown denom).  The keeper steps are also called directly in
// odd states.  After EVERY step the projection of c01_test.go is dumped, extended by the module accounts
// auctionsV2 / esm / liquidationsV2 / tokenmint, the governance-token balances, the ESM status record with its
// step flags, the price snapshots, DataAfterCoolOff, the AssetToAmount records (amount, side, share, debt
// token worth), the deposit statistics and the tokenmint supply.

import (
	"fmt"
	"os"
	"strings"
	"testing"
	"time"

	abci "github.com/cometbft/cometbft/abci/types"
	sdk "github.com/cosmos/cosmos-sdk/types"

	chain "github.com/comdex-official/comdex/app"
	assettypes "github.com/comdex-official/comdex/x/asset/types"
	auctypes "github.com/comdex-official/comdex/x/auctionsV2/types"
	"github.com/comdex-official/comdex/x/esm"
	esmtypes "github.com/comdex-official/comdex/x/esm/types"
	liqtypes "github.com/comdex-official/comdex/x/liquidationsV2/types"
	tokenminttypes "github.com/comdex-official/comdex/x/tokenmint/types"
	vaulttypes "github.com/comdex-official/comdex/x/vault/types"
)

type esmCase struct {
	*vltCase
	govs     map[uint64]*vltAsset
	target   map[uint64]sdk.Int
	hasParam map[uint64]bool
	coolp    map[uint64]uint64
	executed map[uint64]bool
	debts    []*vltAsset
	colls    []*vltAsset
}

var esmModAccts = []struct {
	idx  int
	name string
}{{-1, auctypes.ModuleName}, {-2, esmtypes.ModuleName}, {-3, liqtypes.ModuleName}, {-4, tokenminttypes.ModuleName}}

func (c *esmCase) allAssets() []*vltAsset {
	out := append([]*vltAsset{}, c.assets...)
	for _, app := range c.apps {
		if g, ok := c.govs[app]; ok {
			out = append(out, g)
		}
	}
	return out
}

func (c *esmCase) obsEsm() {
	a, ctx, tr := c.a, c.ctx, c.tr
	c.obsBody()
	all := c.allAssets()
	for _, m := range esmModAccts {
		var sb strings.Builder
		for _, as := range all {
			fmt.Fprintf(&sb, " %d %s", as.id, bal(a, ctx, modAddr(m.name), as.denom).String())
		}
		tr.p("b %d %d%s", m.idx, len(all), sb.String())
	}
	// governance tokens: custody, collector, users, supply
	accts := []sdk.AccAddress{modAddr("vaultV1"), modAddr("collectorV1")}
	accts = append(accts, c.users...)
	var ss strings.Builder
	ng := 0
	for _, app := range c.apps {
		g, ok := c.govs[app]
		if !ok {
			continue
		}
		ng++
		fmt.Fprintf(&ss, " %d %s", g.id, supply(a, ctx, g.denom).String())
	}
	for i, ad := range accts {
		var sb strings.Builder
		for _, app := range c.apps {
			if g, ok := c.govs[app]; ok {
				fmt.Fprintf(&sb, " %d %s", g.id, bal(a, ctx, ad, g.denom).String())
			}
		}
		tr.p("b %d %d%s", i, ng, sb.String())
	}
	tr.p("s %d%s", ng, ss.String())
	for _, app := range c.apps {
		st, found := a.EsmKeeper.GetESMStatus(ctx, app)
		end := int64(0)
		if found {
			end = st.EndTime.Unix()
		}
		tr.p("ef %d %s %s %d %s %s %s %s %s", app, b2s(found), b2s(st.Status), end, b2s(st.SnapshotStatus), b2s(st.VaultRedemptionStatus),
			b2s(st.StableVaultRedemptionStatus), b2s(st.CollectorTransaction), b2s(st.ShareCalculation))
		for _, as := range all {
			if p, f := a.EsmKeeper.GetSnapshotOfPrices(ctx, app, as.id); f {
				tr.p("sn %d %d %d", app, as.id, p)
			}
		}
		if co, f := a.EsmKeeper.GetDataAfterCoolOff(ctx, app); f {
			tr.p("co %d %s %s", app, co.CollateralTotalAmount.BigInt(), co.DebtTotalAmount.BigInt())
		}
		for _, x := range a.EsmKeeper.GetAllAssetToAmount(ctx, app) {
			tr.p("er %d %d %s %s %s %s", x.AppId, x.AssetID, x.Amount, b2s(x.IsCollateral), x.Share.BigInt(), x.DebtTokenWorth.BigInt())
		}
		if d, f := a.EsmKeeper.GetCurrentDepositStats(ctx, app); f {
			tr.p("dp %d %s", app, d.Balance.Amount)
		}
		for ui, u := range c.users {
			if d, f := a.EsmKeeper.GetUserDepositByApp(ctx, u.String(), app); f {
				tr.p("ud %d %d %s", c.acct(ui), app, d.Deposits.Amount)
			}
		}
		if g, ok := c.govs[app]; ok {
			if td, f := a.TokenmintKeeper.GetAssetDataInTokenMintByApp(ctx, app, g.id); f {
				tr.p("tm %d %s", app, td.CurrentSupply)
			}
		}
	}
	tr.p("eo")
}

// ---------- set-up ----------
func (c *esmCase) setupEsm() {
	r, a, t := c.r, c.a, c.t
	ctx := c.ctx
	c.govs, c.target, c.hasParam, c.coolp, c.executed = map[uint64]*vltAsset{}, map[uint64]sdk.Int{}, map[uint64]bool{}, map[uint64]uint64{}, map[uint64]bool{}
	napps := 1
	if r.chance(30) {
		napps = 2
	}
	names := []string{"eone", "etwo"}
	for i := 0; i < napps; i++ {
		c.apps = append(c.apps, addAppRecord(t, a, ctx, names[i]))
	}
	mk := func(name, denom string, dec int, debt, oracle bool) *vltAsset {
		scale := vltPow10(dec).Int64()
		as := &vltAsset{denom: denom, dec: scale, debt: debt}
		as.id = addAsset(t, a, ctx, name, denom, scale, oracle, debt)
		return as
	}
	// governance tokens first (lowest asset ids), not oracle priced
	for i, app := range c.apps {
		g := mk([]string{"EGA", "EGB"}[i], []string{"uega", "uegb"}[i], 6, false, false)
		c.govs[app] = g
		ad, _ := a.AssetKeeper.GetApp(ctx, app)
		ad.GenesisToken = []assettypes.MintGenesisToken{{AssetId: g.id, GenesisSupply: sdk.NewInt(1000000000000), IsGovToken: true, Recipient: addrN(1).String()}}
		a.AssetKeeper.SetApp(ctx, ad)
	}
	add := func(as *vltAsset) *vltAsset { c.assets = append(c.assets, as); return as }
	c1 := add(mk("ECA", "ueca", []int{6, 6, 8, 18}[r.intn(4)], false, true))
	c2 := add(mk("ECB", "uecb", 6, false, true))
	cs := add(mk("ECS", "uecs", []int{6, 6, 8}[r.intn(3)], false, true))
	d1 := add(mk("EDA", "ueda", []int{6, 6, 6, 6, 18}[r.intn(5)], true, true))
	c.colls = []*vltAsset{c1, c2, cs}
	c.debts = []*vltAsset{d1}
	var d2 *vltAsset
	if r.chance(35) {
		d2 = add(mk("EDB", "uedb", 6, true, true))
		c.debts = append(c.debts, d2)
	}
	pairIDs := map[[2]uint64]uint64{}
	nameIdx := 0
	addProd := func(app uint64, in, out *vltAsset, stable bool) {
		key := [2]uint64{in.id, out.id}
		pid, ok := pairIDs[key]
		if !ok {
			pid = addPair(t, a, ctx, in.id, out.id)
			pairIDs[key] = pid
		}
		p := &vltProd{app: app, pair: pid, in: in, out: out, stable: stable}
		p.stab = vltDecStr([]string{"0", "0", "0.02", "0.25"}[r.intn(4)])
		p.closing = vltDecStr([]string{"0", "0.005", "0"}[r.intn(3)])
		p.ddf = vltDecStr([]string{"0", "0.005", "0.01", "0.01"}[r.intn(4)])
		p.minCr = vltDecStr([]string{"1.5", "1.3", "2", "1.7"}[r.intn(4)])
		if stable {
			p.minCr = vltDecStr("1")
			p.ddf = vltDecStr([]string{"0", "0", "0.005"}[r.intn(3)])
		}
		outUnit := sdk.NewInt(out.dec)
		p.floor = c.pickInt(sdk.NewInt(1), outUnit, sdk.NewInt(1000))
		p.ceiling = c.pickInt(outUnit.MulRaw(100000), outUnit.MulRaw(10000000))
		p.active = true
		p.orc = r.chance(50)
		p.outPrice = r.pickU(1000000, 1000000, 1010000, 990000)
		name := "E" + string("ABCDEFGH"[nameIdx]) + "-X"
		nameIdx++
		p.id = addExtPair(t, a, ctx, extPairCfg{Name: name, App: app, Pair: pid, StabilityFee: p.stab, ClosingFee: p.closing,
			LiqPenalty: vltDecStr("0.12"), DrawDownFee: p.ddf, MinCr: p.minCr, DebtCeiling: p.ceiling, DebtFloor: p.floor,
			Stable: stable, Active: true, OraclePrice: p.orc, AssetOutPrice: p.outPrice, MinUsdValLeft: 100000})
		c.prods = append(c.prods, p)
	}
	addProd(c.apps[0], c1, d1, false)
	if r.chance(60) {
		in, out := c2, d1
		if d2 != nil && r.chance(70) {
			out = d2
			if r.chance(50) {
				in = c1
			}
		}
		addProd(c.apps[0], in, out, false)
	}
	if r.chance(65) {
		addProd(c.apps[0], cs, d1, true)
	}
	if napps == 2 {
		addProd(c.apps[1], c1, d1, false)
		if r.chance(40) {
			addProd(c.apps[1], cs, d1, true)
		}
	}
	for _, as := range c.assets {
		pr := uint64(1000000)
		if !as.debt && as != cs {
			pr = r.pickU(1000000, 2500000, 13370000, 250000, 999999)
		} else if r.chance(25) {
			pr = r.pickU(990000, 1010000, 1000001)
		}
		setPrice(a, ctx, as.id, pr, true)
	}
	// ESM trigger parameters
	for _, app := range c.apps {
		g := c.govs[app]
		c.target[app] = sdk.NewInt(r.pickI(1000000, 1000000, 5, 1, 250000000))
		c.coolp[app] = r.pickU(30, 600, 5000)
		c.hasParam[app] = !r.chance(3)
		var rates []esmtypes.DebtAssetsRates
		if r.chance(85) {
			rates = append(rates, esmtypes.DebtAssetsRates{AssetID: d1.id, Rates: r.pickU(1000000, 1000000, 990000)})
		}
		if r.chance(85) {
			rates = append(rates, esmtypes.DebtAssetsRates{AssetID: cs.id, Rates: r.pickU(1000000, 1000000, 1000001)})
		}
		if d2 != nil && r.chance(50) {
			rates = append(rates, esmtypes.DebtAssetsRates{AssetID: d2.id, Rates: 1000000})
		}
		if r.chance(10) {
			rates = append(rates, esmtypes.DebtAssetsRates{AssetID: c1.id, Rates: r.pickU(1000000, 2000000)})
		}
		if c.hasParam[app] {
			a.EsmKeeper.SetESMTriggerParams(ctx, esmtypes.ESMTriggerParams{AppId: app, TargetValue: sdk.NewCoin(g.denom, c.target[app]), CoolOffPeriod: c.coolp[app], AssetsRates: rates})
		}
		cur := sdk.NewInt(r.pickI(1000000000000, 1000000000000, 1000000000000, 1000000000000, 1000000000000, 1000000000000, 1000000000000, 1000000000000, 1000000000000, 1000000000000, 1200000, 3))
		if !r.chance(3) {
			a.TokenmintKeeper.SetTokenMint(ctx, tokenminttypes.TokenMint{AppId: app, MintedTokens: []*tokenminttypes.MintedTokens{{AssetId: g.id,
				GenesisSupply: sdk.NewInt(1000000000000), CreatedAt: c.now, CurrentSupply: cur}}})
		}
		if r.chance(50) {
			if err := a.Rewardskeeper.WhitelistAppIDVault(ctx, app); err != nil {
				t.Fatal(err)
			}
		}
	}
	// users
	nusers := 3 + r.intn(2)
	c.owner = map[string]int{}
	extDebt := r.chance(30)
	for i := 0; i < nusers; i++ {
		u := addrN(4000 + i)
		c.users = append(c.users, u)
		c.owner[u.String()] = c.acct(i)
		var coins sdk.Coins
		for _, as := range c.assets {
			if as.debt && !extDebt {
				continue
			}
			amt := sdk.NewInt(as.dec).MulRaw(int64(r.pickI(1000000, 50000, 1000000000)))
			coins = coins.Add(sdk.NewCoin(as.denom, amt))
		}
		for _, app := range c.apps {
			gamt := r.pickI(500000000, 500000000, 2000000, 3)
			if i == 0 {
				gamt = 500000000
			}
			coins = coins.Add(sdk.NewCoin(c.govs[app].denom, sdk.NewInt(gamt)))
		}
		fund(t, a, ctx, u, coins)
	}
	// trace header
	var sb strings.Builder
	for _, x := range c.apps {
		fmt.Fprintf(&sb, " %d", x)
	}
	c.tr.p("apps %d%s", len(c.apps), sb.String())
	sb.Reset()
	for _, as := range c.assets {
		fmt.Fprintf(&sb, " %d", as.id)
	}
	c.tr.p("assets %d%s", len(c.assets), sb.String())
	c.tr.p("eoracle %d%s", len(c.assets), sb.String())
	for _, as := range c.allAssets() {
		c.tr.p("adec %d %d", as.id, as.dec)
	}
	for _, p := range c.prods {
		c.tr.p("ep %d %d %d %d %d %d %s %s %s %s %s %s %s %s %s %d", p.id, p.app, p.in.id, p.out.id, p.in.dec, p.out.dec,
			p.stab.BigInt(), p.closing.BigInt(), p.ddf.BigInt(), p.minCr.BigInt(), p.floor, p.ceiling, b2s(p.stable), b2s(p.active), b2s(p.orc), p.outPrice)
	}
	for _, app := range c.apps {
		c.tr.p("gov %d %d", app, c.govs[app].id)
		c.tr.p("eparam %d %s %s %d", app, b2s(c.hasParam[app]), c.target[app], c.coolp[app])
		if pm, found := a.EsmKeeper.GetESMTriggerParams(ctx, app); found {
			for _, x := range pm.AssetsRates {
				c.tr.p("erate %d %d %d", app, x.AssetID, x.Rates)
			}
		}
	}
	c.tr.p("users %d", nusers)
}

// ---------- steps ----------
func (c *esmCase) advance(dt int64) {
	c.now = c.now.Add(time.Duration(dt) * time.Second)
	c.height += 1 + int64(c.r.intn(3))
	c.ctx = c.ctx.WithBlockTime(c.now).WithBlockHeight(c.height)
	c.tr.p("op time %d ok", dt)
	c.obsEsm()
}

func (c *esmCase) dbg(err error) {
	if err != nil && os.Getenv("VERIF_DEBUG") != "" {
		c.tr.p("# %s", strings.ReplaceAll(err.Error(), "\n", " "))
	}
}

func (c *esmCase) createHealthy() {
	r := c.r
	var cands []*vltProd
	for _, p := range c.prods {
		if !p.stable {
			cands = append(cands, p)
		}
	}
	p := cands[r.intn(len(cands))]
	ui := r.intn(len(c.users))
	for k := 0; k < len(c.users) && c.vaultOf(ui, p) != 0; k++ {
		ui = (ui + 1) % len(c.users)
	}
	target := p.floor.Add(c.natural(p.out))
	ain := c.minColl(p, target)
	if ain.IsZero() {
		ain = c.natural(p.in)
	} else {
		ain = ain.MulRaw(int64(12 + r.intn(25))).QuoRaw(10)
	}
	res := c.exec(vaulttypes.NewMsgCreateRequest(c.users[ui], p.app, p.id, ain, target))
	c.tr.p("op create %d %d %d %s %s %s", c.acct(ui), p.app, p.id, ain, target, res)
	c.obsEsm()
}

func (c *esmCase) stableOp() {
	r := c.r
	var cands []*vltProd
	for _, p := range c.prods {
		if p.stable {
			cands = append(cands, p)
		}
	}
	if len(cands) == 0 {
		c.createHealthy()
		return
	}
	p := cands[r.intn(len(cands))]
	ui := r.intn(len(c.users))
	amt := c.stableAmount(p.in)
	if ids := c.stableIds(p); len(ids) > 0 {
		res := c.exec(vaulttypes.NewMsgDepositStableMintRequest(c.users[ui], p.app, p.id, amt, ids[0]))
		c.tr.p("op sdeposit %d %d %d %d %s %s", c.acct(ui), p.app, p.id, ids[0], amt, res)
	} else {
		res := c.exec(vaulttypes.NewMsgCreateStableMintRequest(c.users[ui], p.app, p.id, amt))
		c.tr.p("op screate %d %d %d %s %s", c.acct(ui), p.app, p.id, amt, res)
	}
	c.obsEsm()
}

// the id the model uses for a denomination: the asset id, 999 for a denom no asset has
func (c *esmCase) denomID(denom string) uint64 {
	for _, as := range c.allAssets() {
		if as.denom == denom {
			return as.id
		}
	}
	return 999
}

func (c *esmCase) depositOp(app uint64, ui int, denom string, amt sdk.Int) string {
	class, err, _ := execMsg(c.a, c.ctx, esmtypes.NewMsgDeposit(c.users[ui].String(), app, sdk.Coin{Denom: denom, Amount: amt}))
	c.dbg(err)
	c.tr.p("op edeposit %d %d %d %s %s", c.acct(ui), app, c.denomID(denom), amt, class)
	c.obsEsm()
	return class
}

func (c *esmCase) executeOp(app uint64, ui int) string {
	class, err, _ := execMsg(c.a, c.ctx, esmtypes.NewMsgExecute(c.users[ui].String(), app))
	c.dbg(err)
	c.tr.p("op eexecute %d %d %s", c.acct(ui), app, class)
	c.obsEsm()
	if class == "ok" {
		c.executed[app] = true
	}
	return class
}

func (c *esmCase) randomDeposit(app uint64) {
	r := c.r
	ui := r.intn(len(c.users))
	g := c.govs[app]
	denom := g.denom
	b := bal(c.a, c.ctx, c.users[ui], g.denom)
	var amt sdk.Int
	switch x := r.intn(100); {
	case x < 35:
		amt = c.target[app].QuoRaw(int64(1 + r.intn(3))).AddRaw(int64(r.intn(2)))
	case x < 50:
		amt = c.target[app]
	case x < 60:
		amt = sdk.NewInt(int64(1 + r.intn(1000)))
	case x < 68:
		amt = sdk.ZeroInt()
	case x < 76:
		amt = b
	case x < 82:
		amt = b.AddRaw(1)
	case x < 90:
		denom = c.assets[r.intn(len(c.assets))].denom
		amt = sdk.NewInt(1000)
	default:
		amt = c.target[app].MulRaw(2)
	}
	if r.chance(4) {
		app = 77
	}
	c.depositOp(app, ui, denom, amt)
}

func (c *esmCase) redeemOp(app uint64) {
	r, a := c.r, c.a
	ui := r.intn(len(c.users))
	u := c.users[ui]
	d := c.debts[r.intn(len(c.debts))]
	if r.chance(80) { // mostly a debt asset that is registered for redemption and not yet exhausted
		for _, x := range c.debts {
			if rec, found := a.EsmKeeper.GetAssetToAmount(c.ctx, app, x.id); found && rec.Amount.IsPositive() {
				d = x
				break
			}
		}
	}
	// mostly the user who holds most of the debt asset
	if r.chance(70) {
		for k := range c.users {
			if bal(a, c.ctx, c.users[k], d.denom).GT(bal(a, c.ctx, c.users[ui], d.denom)) {
				ui = k
			}
		}
		u = c.users[ui]
	}
	denom := d.denom
	b := bal(a, c.ctx, u, d.denom)
	reg := sdk.ZeroInt()
	if x, found := a.EsmKeeper.GetAssetToAmount(c.ctx, app, d.id); found {
		reg = x.Amount
	}
	var amt sdk.Int
	switch x := r.intn(100); {
	case x < 30:
		amt = b
	case x < 48:
		amt = b.QuoRaw(int64(2 + r.intn(5)))
	case x < 56:
		amt = sdk.NewInt(1)
	case x < 62:
		amt = reg
	case x < 67:
		amt = reg.AddRaw(1)
	case x < 72:
		amt = b.AddRaw(1)
	case x < 76:
		amt = sdk.ZeroInt()
	case x < 82:
		amt = sdk.NewInt(d.dec).MulRaw(int64(1 + r.intn(20)))
	case x < 88:
		denom = c.colls[r.intn(len(c.colls))].denom
		amt = sdk.NewInt(1000)
	case x < 91:
		denom = c.govs[app].denom
		amt = sdk.NewInt(1)
	case x < 94:
		denom = "uunknown"
		amt = sdk.NewInt(5)
	default:
		amt = sdk.NewInt(int64(1 + r.intn(1000000)))
	}
	if amt.IsNegative() {
		amt = sdk.NewInt(1)
	}
	if denom == d.denom && reg.IsPositive() && amt.GT(reg) && r.chance(75) {
		amt = reg // a holder of external debt tokens can retire at most what is registered
	}
	if r.chance(3) {
		app = 77
	}
	class, err, _ := execMsg(a, c.ctx, &esmtypes.MsgCollateralRedemptionRequest{AppId: app, Amount: sdk.Coin{Denom: denom, Amount: amt}, From: u.String()})
	c.dbg(err)
	c.tr.p("op eredeem %d %d %d %s %s", c.acct(ui), app, c.denomID(denom), amt, class)
	c.obsEsm()
}

func (c *esmCase) feesOf(app uint64) string {
	var sb strings.Builder
	nf, _ := c.a.CollectorKeeper.GetAppNetFeeCollectedData(c.ctx, app)
	fmt.Fprintf(&sb, " %d %d", app, len(nf))
	for _, x := range nf {
		fmt.Fprintf(&sb, " %d %s", x.AssetId, x.NetFeesCollected)
	}
	return sb.String()
}

func (c *esmCase) beginOp() {
	var sb strings.Builder
	for _, app := range c.apps {
		sb.WriteString(c.feesOf(app))
	}
	cctx, write := c.ctx.CacheContext()
	pn, _ := safely(func() { esm.BeginBlocker(cctx, abci.RequestBeginBlock{}, c.a.EsmKeeper, c.a.AssetKeeper) })
	res := "ok"
	if pn {
		res = "panic"
	} else {
		write()
	}
	c.tr.p("op ebegin %d%s %s", len(c.apps), sb.String(), res)
	c.obsEsm()
}

// one keeper step called directly, on a cache context, as ApplyFuncIfNoError runs it
func (c *esmCase) keeperStep(app uint64) {
	a := c.a
	esmData, _ := a.EsmKeeper.GetESMTriggerParams(c.ctx, app)
	st, stFound := a.EsmKeeper.GetESMStatus(c.ctx, app)
	kind := c.r.intn(5)
	if kind == 4 && !stFound { // the BeginBlocker passes SnapshotOfPrices the status record it found
		kind = 3
	}
	line := ""
	cctx, write := c.ctx.CacheContext()
	var err error
	pn, _ := safely(func() {
		switch kind {
		case 0:
			line = fmt.Sprintf("op evault %d", app)
			err = a.EsmKeeper.SetUpCollateralRedemptionForVault(cctx, app, esmData)
		case 1:
			line = fmt.Sprintf("op estable %d", app)
			err = a.EsmKeeper.SetUpCollateralRedemptionForStableVault(cctx, app, esmData)
		case 2:
			line = fmt.Sprintf("op ecollector%s", c.feesOf(app))
			err = a.EsmKeeper.SetUpDebtRedemptionForCollector(cctx, app)
		case 3:
			line = fmt.Sprintf("op eshare %d", app)
			err = a.EsmKeeper.SetUpShareCalculation(cctx, app)
		default:
			line = fmt.Sprintf("op esnapshot %d", app)
			err = a.EsmKeeper.SnapshotOfPrices(cctx, st)
		}
	})
	res := "ok"
	if pn {
		res = "panic"
	} else if err != nil {
		res = "err"
	} else {
		write()
	}
	c.dbg(err)
	c.tr.p("%s %s", line, res)
	c.obsEsm()
}

func (c *esmCase) priceOp(activeOnly bool) {
	r := c.r
	as := c.assets[r.intn(len(c.assets))]
	tw, _ := c.a.MarketKeeper.GetTwa(c.ctx, as.id)
	np := tw.Twa * uint64(80+r.intn(45)) / 100
	if np == 0 {
		np = 1
	}
	active := activeOnly || !r.chance(35)
	setPrice(c.a, c.ctx, as.id, np, active)
	c.tr.p("op price %d %s %d ok", as.id, b2s(active), np)
	c.obsEsm()
}

func esmRunCase(t *testing.T, a *chain.App, base sdk.Context, tr *tracer, ci int, caseSeed uint64) {
	ctx, _ := base.CacheContext()
	vc := &vltCase{t: t, a: a, ctx: ctx, tr: tr, r: newRng(caseSeed), now: baseTime, height: 1, esmOn: map[uint64]bool{}}
	c := &esmCase{vltCase: vc}
	r := c.r
	tr.p("case %d 0", ci)
	c.setupEsm()
	c.now = c.now.Add(10 * time.Second)
	c.height = 2
	c.ctx = c.ctx.WithBlockTime(c.now).WithBlockHeight(c.height)
	tr.p("init")
	c.obsEsm()
	app := c.apps[0]
	// phase A: positions
	c.createHealthy()
	na := 4 + r.intn(8)
	for i := 0; i < na; i++ {
		switch x := r.intn(100); {
		case x < 35:
			c.createHealthy()
		case x < 60:
			c.stableOp()
		case x < 88:
			c.randomOp()
			c.obsEsm()
		case x < 94:
			c.advance(r.pickI(5, 60, 3600, 86400))
		default:
			c.beginOp()
		}
	}
	// phase B: deposits and the execution of the shutdown
	nb := 2 + r.intn(5)
	for i := 0; i < nb; i++ {
		switch x := r.intn(100); {
		case x < 70:
			c.randomDeposit(app)
		case x < 90:
			c.executeOp(app, r.intn(len(c.users)))
		default:
			c.beginOp()
		}
	}
	if !c.executed[app] && r.chance(93) {
		// meet the target with the richest user, then execute
		for k := 0; k < 3 && !c.executed[app]; k++ {
			best := 0
			for ui := range c.users {
				if bal(a, c.ctx, c.users[ui], c.govs[app].denom).GT(bal(a, c.ctx, c.users[best], c.govs[app].denom)) {
					best = ui
				}
			}
			amt := c.target[app]
			if b := bal(a, c.ctx, c.users[best], c.govs[app].denom); b.LT(amt) {
				amt = b
			}
			c.depositOp(app, best, c.govs[app].denom, amt)
			c.executeOp(app, r.intn(len(c.users)))
		}
	}
	if len(c.apps) > 1 && r.chance(50) {
		// the second app is shut down too (its own parameters, its own pool in the same esm account)
		for k := 0; k < 2 && !c.executed[c.apps[1]]; k++ {
			c.depositOp(c.apps[1], r.intn(len(c.users)), c.govs[c.apps[1]].denom, c.target[c.apps[1]])
			c.executeOp(c.apps[1], r.intn(len(c.users)))
		}
	}
	// phase C: snapshot, cool-off, set-up, redemption
	if r.chance(20) {
		c.priceOp(false)
	}
	c.beginOp()
	ncool := 1 + r.intn(4)
	for k := 0; k < ncool; k++ {
		switch x := r.intn(100); {
		case x < 30:
			c.redeemOp(app)
		case x < 60:
			c.randomOp()
			c.obsEsm()
		case x < 75:
			c.priceOp(true)
		case x < 85:
			c.keeperStep(app)
		default:
			c.beginOp()
		}
	}
	if st, found := a.EsmKeeper.GetESMStatus(c.ctx, app); found && !c.now.After(st.EndTime) {
		c.advance(int64(st.EndTime.Sub(c.now).Seconds()) + int64(r.pickI(1, 1, 2, 100)))
	}
	if r.chance(85) {
		// every feed active again: the snapshot can complete
		for _, as := range c.assets {
			if tw, _ := a.MarketKeeper.GetTwa(c.ctx, as.id); !tw.IsPriceActive {
				setPrice(a, c.ctx, as.id, tw.Twa, true)
				c.tr.p("op price %d 1 %d ok", as.id, tw.Twa)
				c.obsEsm()
			}
		}
		if st, found := a.EsmKeeper.GetESMStatus(c.ctx, app); found && !st.SnapshotStatus {
			c.beginOp()
			c.advance(r.pickI(1, 6))
		}
	}
	if r.chance(90) {
		c.beginOp()
	}
	if r.chance(25) {
		c.redeemOp(app) // between the set-up steps and the share calculation
	}
	if r.chance(90) {
		c.advance(r.pickI(1, 6, 60))
		c.beginOp()
	}
	nc := 8 + r.intn(12)
	if !c.executed[app] {
		nc = 3
	}
	for i := 0; i < nc; i++ {
		tgt := app
		if len(c.apps) > 1 && r.chance(25) {
			tgt = c.apps[1]
		}
		switch x := r.intn(100); {
		case x < 55:
			c.redeemOp(tgt)
		case x < 70:
			c.beginOp()
		case x < 78:
			c.keeperStep(tgt)
		case x < 85:
			c.randomOp()
			c.obsEsm()
		case x < 90:
			c.advance(r.pickI(1, 60, 3600))
		case x < 94:
			c.randomDeposit(tgt)
		case x < 97:
			c.executeOp(tgt, r.intn(len(c.users)))
		default:
			c.priceOp(false)
		}
	}
}

// TestEsmLife is the workload "esm-life" of C01 and C02.
func TestEsmLife(t *testing.T) {
	a, base := newApp(t)
	tr := newTracer(t, "esmlife.trace")
	defer tr.close()
	r := newRng(newRng(seed()).next() ^ 0xE5A1)
	ncases := envInt("VERIF_CASES", 40)
	only := envInt("VERIF_CASE", -1)
	for ci := 0; ci < ncases; ci++ {
		caseSeed := r.next()
		if only >= 0 && ci != only {
			continue
		}
		esmRunCase(t, a, base, tr, ci, caseSeed)
	}
}
