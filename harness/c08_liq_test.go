//go:build verif

package verifharness

import (
	"fmt"
	"testing"
	"time"

	sdk "github.com/cosmos/cosmos-sdk/types"

	auctionsV2types "github.com/comdex-official/comdex/x/auctionsV2/types"
	lendtypes "github.com/comdex-official/comdex/x/lend/types"
	liqV2types "github.com/comdex-official/comdex/x/liquidationsV2/types"
)

// enables the second-generation liquidation of lend positions for the lend app
func c08LiqSetup(f *c08Fix, ctx sdk.Context) {
	a := f.a
	dutch := liqV2types.DutchAuctionParam{Premium: c08Dec("0.1"), Discount: c08Dec("0.1"), DecrementFactor: sdk.NewInt(1)}
	a.NewliqKeeper.SetLiquidationWhiteListing(ctx, liqV2types.LiquidationWhiteListing{AppId: f.app, Initiator: true, IsDutchActivated: true,
		DutchAuctionParam: &dutch, IsEnglishActivated: false, KeeeperIncentive: c08Dec("0.1")})
	a.NewaucKeeper.SetAuctionParams(ctx, auctionsV2types.AuctionParams{AuctionDurationSeconds: 3600, Step: c08Dec("0.1"), WithdrawalFee: c08Dec("0.0"),
		ClosingFee: c08Dec("0.0"), MinUsdValueLeft: 100000, BidFactor: c08Dec("0.1"), LiquidationPenalty: c08Dec("0.1"), AuctionBonus: c08Dec("0.0")})
}

// C08 regression corpus (scripted): the witness of finding C08-F2.  A position is handed over to the
// liquidation auction (liquidationsV2 UpdateLockedBorrows) after the lend position it hangs on has
// earned rewards, so that AvailableToBorrow > 0 while AmountIn - collateral <= 0: the lend record is
// deleted and the published TotalLend keeps the rewards that no position holds any more.
func TestC08Handover(t *testing.T) {
	tr := newTracer(t, "c08h.trace")
	defer tr.close()
	f, base := c08Setup(t, tr)
	a := f.a
	k := a.LendKeeper
	ctx, _ := base.CacheContext()
	now := baseTime
	ctx = ctx.WithBlockTime(now).WithBlockHeight(3)
	A := f.assets
	p1 := f.pools[0]
	var pid uint64
	for _, p := range f.pairs {
		if p.AssetIn == A[1] && p.AssetOut == A[2] && !p.IsInterPool {
			pid = p.Id
		}
	}
	u1, u2 := f.users[0].String(), f.users[1].String()
	c := func(asset uint64, amt int64) sdk.Coin { return sdk.NewCoin(f.idDenom[asset], sdk.NewInt(amt)) }
	run := func(line string, msg sdk.Msg) {
		class, xerr, _ := execMsg(a, ctx, msg)
		if xerr != nil {
			tr.p("# %s", xerr.Error())
		}
		tr.p("op 0 %s %s", line, class)
		c08Project(f, ctx, tr)
	}
	tr.p("case 0 9")
	c08Project(f, ctx, tr)
	run(fmt.Sprintf("lend 2 %d %d 1000000000 %d %d 0", A[2], A[2], p1, f.app), lendtypes.NewMsgLend(u2, A[2], c(A[2], 1000000000), p1, f.app))
	run(fmt.Sprintf("lend 1 %d %d 1000000000 %d %d 0", A[1], A[1], p1, f.app), lendtypes.NewMsgLend(u1, A[1], c(A[1], 1000000000), p1, f.app))
	run(fmt.Sprintf("lend 3 %d %d 2000000000 %d %d 0", A[1], A[1], p1, f.app), lendtypes.NewMsgLend(f.users[2].String(), A[1], c(A[1], 2000000000), p1, f.app))
	// somebody borrows asset 2 so that lenders of asset 2 earn rewards
	run(fmt.Sprintf("lend 2 %d %d 1000000000 %d %d 0", A[0], A[0], p1, f.app), lendtypes.NewMsgLend(u2, A[0], c(A[0], 1000000000), p1, f.app))
	var p21 uint64
	for _, p := range f.pairs {
		if p.AssetIn == A[0] && p.AssetOut == A[1] && !p.IsInterPool {
			p21 = p.Id
		}
	}
	run(fmt.Sprintf("borrow 2 4 %d false %d 1000000000 %d 500000000 0 0 0 0 0 0", p21, f.cassets[0], A[1]),
		lendtypes.NewMsgBorrow(u2, 4, p21, false, c(f.cassets[0], 1000000000), c(A[1], 500000000)))
	// a month passes; user 1 collects rewards on its asset-2 position (id 2)
	now = now.Add(30 * 24 * time.Hour)
	ctx = ctx.WithBlockTime(now).WithBlockHeight(4)
	run(fmt.Sprintf("calc 1 0 1 %s", c08Ipb(f, ctx, 2)), lendtypes.NewMsgCalculateInterestAndRewards(u1))
	l2, _ := k.GetLend(ctx, 2)
	tr.p("# lend 2 after rewards: amount_in=%s available=%s", l2.AmountIn.Amount, l2.AvailableToBorrow)
	// user 1 pledges the whole deposited amount
	run(fmt.Sprintf("borrow 1 2 %d false %d 1000000000 %d 900000 0 0 0 0 0 0", pid, f.cassets[1], A[2]),
		lendtypes.NewMsgBorrow(u1, 2, pid, false, c(f.cassets[1], 1000000000), c(A[2], 900000)))
	// the collateral asset crashes; the position is handed over
	setPrice(a, ctx, A[1], 100000, true)
	tr.p("op 0 setprice %d 100000 ok", A[1])
	c08Project(f, ctx, tr)
	d, dint := c08LiqEnv(f, ctx, 2)
	run(fmt.Sprintf("handover 2 %d %s", d, dint), &liqV2types.MsgLiquidateInternalKeeperRequest{From: u2, LiqType: 1, Id: 2})
	for _, l := range k.GetAllLend(ctx) {
		tr.p("# after: lend %d asset %d amount_in %s available %s", l.ID, l.AssetID, l.AmountIn.Amount, l.AvailableToBorrow)
	}
	for _, p := range []uint64{A[0], A[1], A[2]} {
		st, _ := k.GetAssetStatsByPoolIDAndAssetID(ctx, p1, p)
		tr.p("# after: stats asset %d total_lend %s total_borrowed %s lend_ids %v borrow_ids %v", p, st.TotalLend, st.TotalBorrowed, st.LendIds, st.BorrowIds)
	}
}
