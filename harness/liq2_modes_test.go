//go:build verif

package verifharness

import "testing"

// TestC06Keeper — share fairness through the keeper: three apps whose pairs and pools have the SAME ids, pool
// heavy histories (deposits, withdrawals, farm / unfarm and their combined forms by several accounts, withdraw
// fee rates 0 / 0.3% / 50%), every pool message also sent with the coins of another app's pool of the same id;
// the runner replays Pool.deposit / Pool.withdraw on the observed reserves and supply of every executed request
// and judges reserves per share of EVERY pool after EVERY step (driver in c07_test.go).
func TestC06Keeper(t *testing.T) { liqDrive(t, "C06") }

// TestC05Keeper — matching through the keeper: order-life scenarios (a long-lived order partially matched, the
// last price moved past it, then matched again tick by tick by ladders of small counter orders) inside the C07
// order stream; the runner replays every batch's book on the matching-engine model (AMM.run_match) and judges
// every order's fill against its REMAINING offer coin (driver in c07_test.go).
func TestC05Keeper(t *testing.T) { liqDrive(t, "C05") }

// TestC05KeeperHunt — the known finding C05-F1 reached through the keeper by a directed search (liq2_hunt_test.go):
// one limit order against pools whose orders on a tick are worth about one quote unit; the batch does not conserve
// the base coin, and when the pair escrow cannot cover the deficit the whole batch of the app is rolled back at
// every following block.
func TestC05KeeperHunt(t *testing.T) { liqDrive(t, "C05F") }
