//go:build verif

package verifharness

// C20 rich states.  Each world is built with the fixtures of another property's workload and returns
// the context at the moment of the export plus a continuation (what happens on both chains afterwards).

import (
	"fmt"
	"testing"
	"time"

	sdkmath "cosmossdk.io/math"
	sdk "github.com/cosmos/cosmos-sdk/types"

	chain "github.com/comdex-official/comdex/app"
	auctionsV2types "github.com/comdex-official/comdex/x/auctionsV2/types"
	lendtypes "github.com/comdex-official/comdex/x/lend/types"
	liqv2types "github.com/comdex-official/comdex/x/liquidationsV2/types"
	"github.com/comdex-official/comdex/x/liquidity"
	liqtypes "github.com/comdex-official/comdex/x/liquidity/types"
	lockertypes "github.com/comdex-official/comdex/x/locker/types"
	rewardstypes "github.com/comdex-official/comdex/x/rewards/types"
	vaulttypes "github.com/comdex-official/comdex/x/vault/types"
)

type c20Rich struct {
	name  string
	a     *chain.App
	ctx   sdk.Context
	label string
	cont  func(tw *c20Twin)
}

// ---------------------------------------------------------------------------------------------
// World A "swap": the c19 base (three apps; three liquidity pairs with a basic pool each; lockers;
// a vault pair) with gauges, external reward programmes, farmers - plus ranged pools on pairs that
// already have a basic pool (pool id != pair id), live orders of every type, deposit / withdraw
// requests, queued farmers; exported in the middle of a block (moment 0), at the block boundary after
// the batch was executed - the handled requests and finished orders are still stored - (moment 1), or in
// the middle of the next block (moment 2).
func c20WorldSwap(t *testing.T, g *rng) *c20Rich {
	a, base := newApp(t)
	fx := c19Base(t, a, base)
	w := c19NewWorld(t, a, base, c20Scratch(), fx)
	moment := g.intn(3)
	k := a.LiquidityKeeper
	for _, d := range []string{"ucmdx", "ucmst", "uharbor", "uatom"} {
		w.opPrice(d, map[string]uint64{"ucmdx": 2000000, "ucmst": 1000000, "uharbor": 333333, "uatom": 10000000}[d], true)
	}
	for n := 1; n <= 4; n++ {
		w.opFarm(n, fx.pools[(n-1)%3], sdk.NewInt(int64(1+g.intn(900))*1000000))
	}
	w.opFarm(2, fx.pools[0], sdk.NewInt(777000000))
	w.opLocker(11, sdk.NewInt(int64(1+g.intn(50))*1000000))
	w.opLocker(12, sdk.NewInt(3000000))
	w.opVault(21, sdk.NewInt(500000000), sdk.NewInt(200000000))
	w.opVault(22, sdk.NewInt(int64(300+g.intn(300))*1000000), sdk.NewInt(100000000))
	w.opCreateGauge(c19GaugeSpec{creator: 80, denom: "uharbor", total: 5, dep: sdk.NewInt(5000000 + int64(g.intn(1000))), startOff: 0, durS: 43200,
		app: fx.appL, pool: fx.pools[0]})
	w.opCreateGauge(c19GaugeSpec{creator: 80, denom: "ucmdx", total: 3, dep: sdk.NewInt(9000001), startOff: 5, durS: 86400,
		app: fx.appL, pool: fx.pools[1], master: true, child: []uint64{fx.pools[0], fx.pools[2]}})
	w.opExtCreate(0, "uharbor", sdk.NewInt(7000000), 3, 3600, 81, false, false)
	w.opExtCreate(1, "ucmdx", sdk.NewInt(int64(1+g.intn(9))*1000000), 2, 3600, 81, false, false)
	w.opRangedPool() // pool 4 on pair 1
	// a farmer of the ranged pool (its pool id is not a pair id): active after the blocks below
	execMsg(a, w.ctx, liqtypes.NewMsgFarm(fx.appL, 4, addrN(90), sdk.NewCoin(liqtypes.PoolCoinDenom(fx.appL, 4), sdk.NewInt(int64(1+g.intn(500))*1000000))))
	w.opSwapFees(0, sdk.NewInt(123456))
	nb := 1 + g.intn(3)
	for i := 0; i < nb; i++ {
		dt := g.pickI(43201, 43201, 86401, 3600)
		if i == 0 {
			dt = 86401 // a day: every farmer queued so far becomes active
		}
		w.opBegin(dt)
	}
	w.opBegin(6)
	w.opFarm(5, fx.pools[0], sdk.NewInt(4000000)) // queued again
	w.opFarm(6, fx.pools[2], sdk.NewInt(int64(1+g.intn(100))*10000))
	w.opUnfarm(1, fx.pools[0], sdk.NewInt(1000))

	// ---- the last block(s) before the export: the liquidity module in full swing
	ctx := w.ctx
	h, now := w.height, w.now
	nextBlock := func(dt int64) {
		h++
		now = now.Add(time.Duration(dt) * time.Second)
		ctx = ctx.WithBlockHeight(h).WithBlockTime(now)
		liquidity.BeginBlocker(ctx, k, a.AssetKeeper)
	}
	counts := map[string]int{}
	exec := func(what string, m sdk.Msg) string {
		c, err, _ := execMsg(a, ctx, m)
		counts[what+":"+c]++
		if c != "ok" {
			c20Debug("swap %s: %s %v", what, c, err)
		}
		return c
	}
	lp := addrN(90)
	for _, n := range []int{11, 12, 13, 14, 15, 16} {
		fund(t, a, ctx, addrN(n), sdk.NewCoins(sdk.NewCoin("uatom", sdkmath.NewIntWithDecimal(1, 15)), sdk.NewCoin("uharbor", sdkmath.NewIntWithDecimal(1, 15))))
	}
	nextBlock(6)
	p1, _ := k.GetPair(ctx, fx.appL, fx.pairs[0])
	p2, _ := k.GetPair(ctx, fx.appL, fx.pairs[1])
	exec("rpool2", liqtypes.NewMsgCreateRangedPool(fx.appL, lp, p2.Id, sdk.NewCoins(sdk.NewInt64Coin(p2.QuoteCoinDenom, 1_000_000_000), sdk.NewInt64Coin(p2.BaseCoinDenom, 100_000_000)),
		sdk.MustNewDecFromStr("8"), sdk.MustNewDecFromStr("12"), sdk.MustNewDecFromStr("10")))
	var ranged []liqtypes.Pool
	for _, pl := range k.GetAllPools(ctx, fx.appL) {
		if pl.Id != pl.PairId {
			ranged = append(ranged, pl)
		}
	}
	if len(ranged) < 2 {
		t.Fatalf("world swap: %d pools with an id of their own", len(ranged))
	}
	limit := func(n int, p liqtypes.Pair, buy bool, price string, amt int64, life time.Duration) {
		pr := sdk.MustNewDecFromStr(price)
		if buy {
			offer := pr.MulInt64(amt).MulInt64(101).QuoInt64(100).Ceil().TruncateInt() // price * amount + swap fee, rounded up generously
			exec("limit", liqtypes.NewMsgLimitOrder(fx.appL, addrN(n), p.Id, liqtypes.OrderDirectionBuy, sdk.NewCoin(p.QuoteCoinDenom, offer), p.BaseCoinDenom, pr, sdk.NewInt(amt), life))
		} else {
			exec("limit", liqtypes.NewMsgLimitOrder(fx.appL, addrN(n), p.Id, liqtypes.OrderDirectionSell, sdk.NewCoin(p.BaseCoinDenom, sdk.NewInt(amt+amt/100+1)), p.QuoteCoinDenom, pr, sdk.NewInt(amt), life))
		}
	}
	batchOrders := func(round int) {
		amt := int64(1+g.intn(9)) * 1000000
		limit(11, p1, true, "1.9", amt, time.Hour)                  // rests
		limit(12, p1, true, "2.05", 5*amt, time.Hour)               // crosses the pools
		limit(13, p1, false, "2.1", amt, 0)                         // expires with the batch
		limit(14, p1, false, "1.95", 3*amt, time.Hour)              // crosses
		limit(15, p1, true, "2.1", 50000000000+amt, 10*time.Second) // too large to fill: partially matched
		limit(16, p2, true, "10.1", amt, time.Hour)
		limit(11, p2, false, "9.9", amt/2+1, time.Hour)
		exec("market", liqtypes.NewMsgMarketOrder(fx.appL, addrN(12), p1.Id, liqtypes.OrderDirectionBuy, sdk.NewCoin(p1.QuoteCoinDenom, sdk.NewInt(3*amt)), p1.BaseCoinDenom, sdk.NewInt(amt), 0))
		exec("market", liqtypes.NewMsgMarketOrder(fx.appL, addrN(13), p1.Id, liqtypes.OrderDirectionSell, sdk.NewCoin(p1.BaseCoinDenom, sdk.NewInt(amt+amt/100+1)), p1.QuoteCoinDenom, sdk.NewInt(amt), time.Minute))
		if round == 0 {
			exec("mm", liqtypes.NewMsgMMOrder(fx.appL, addrN(16), p1.Id, sdk.MustNewDecFromStr("2.15"), sdk.MustNewDecFromStr("2.05"), sdk.NewInt(10*amt),
				sdk.MustNewDecFromStr("1.95"), sdk.MustNewDecFromStr("1.85"), sdk.NewInt(10*amt), time.Hour))
		}
		// deposits into the second pool of a pair (pool id != pair id), into a basic pool, a withdrawal, farmers
		r0, _ := k.GetPair(ctx, fx.appL, ranged[0].PairId)
		exec("deposit", liqtypes.NewMsgDeposit(fx.appL, addrN(13), ranged[0].Id, sdk.NewCoins(sdk.NewCoin(r0.QuoteCoinDenom, sdk.NewInt(2*amt)), sdk.NewCoin(r0.BaseCoinDenom, sdk.NewInt(amt)))))
		r1, _ := k.GetPair(ctx, fx.appL, ranged[1].PairId)
		exec("deposit", liqtypes.NewMsgDeposit(fx.appL, addrN(15), ranged[1].Id, sdk.NewCoins(sdk.NewCoin(r1.QuoteCoinDenom, sdk.NewInt(10*amt)), sdk.NewCoin(r1.BaseCoinDenom, sdk.NewInt(amt)))))
		exec("deposit", liqtypes.NewMsgDeposit(fx.appL, addrN(14), fx.pools[0], sdk.NewCoins(sdk.NewCoin("ucmst", sdk.NewInt(2*amt)), sdk.NewCoin("ucmdx", sdk.NewInt(amt)))))
		exec("deposit", liqtypes.NewMsgDeposit(fx.appL, addrN(14), fx.pools[2], sdk.NewCoins(sdk.NewCoin("ucmst", sdk.NewInt(3)), sdk.NewCoin("uharbor", sdk.NewInt(1))))) // fails in the batch
		exec("withdraw", liqtypes.NewMsgWithdraw(fx.appL, addrN(1+round), fx.pools[1], sdk.NewCoin(liqtypes.PoolCoinDenom(fx.appL, fx.pools[1]), sdk.NewInt(1000000+amt))))
		exec("farm", liqtypes.NewMsgFarm(fx.appL, ranged[1].Id, lp, sdk.NewCoin(ranged[1].PoolCoinDenom, sdk.NewInt(amt)))) // queued, in the second pool of pair 2
		exec("farm", liqtypes.NewMsgFarm(fx.appL, fx.pools[1], addrN(3+round), sdk.NewCoin(liqtypes.PoolCoinDenom(fx.appL, fx.pools[1]), sdk.NewInt(amt))))
	}
	batchOrders(0)
	if moment >= 1 {
		liquidity.EndBlocker(ctx, k, a.AssetKeeper)
	}
	if moment == 2 {
		nextBlock(6)
		// cancel a resting order of the previous batch, then the next batch's messages
		for _, o := range k.GetAllOrders(ctx, fx.appL) {
			if o.Status == liqtypes.OrderStatusNotMatched || o.Status == liqtypes.OrderStatusPartiallyMatched {
				exec("cancel", liqtypes.NewMsgCancelOrder(fx.appL, sdk.MustAccAddressFromBech32(o.Orderer), o.PairId, o.Id))
				break
			}
		}
		batchOrders(1)
	}
	// what the state looks like (evidence; the runner ignores the line)
	ost, rst := map[string]int{}, map[string]int{}
	for _, o := range k.GetAllOrders(ctx, fx.appL) {
		ost[fmt.Sprintf("%s/%s", o.Type, o.Status)]++
	}
	for _, r := range k.GetAllDepositRequests(ctx, fx.appL) {
		rst[fmt.Sprintf("dep/pool%d/pair%d/%s", r.PoolId, func() uint64 { p, _ := k.GetPool(ctx, fx.appL, r.PoolId); return p.PairId }(), r.Status)]++
	}
	for _, r := range k.GetAllWithdrawRequests(ctx, fx.appL) {
		rst[fmt.Sprintf("wd/pool%d/%s", r.PoolId, r.Status)]++
	}
	act, que := k.GetActiveAndQueuedFarmersForGenesis(ctx, fx.appL)
	label := fmt.Sprintf("moment=%d blocks=%d orders=%v requests=%v active-farmers=%d queued-farmers=%d gauges=%d msgs=%v", moment, nb, ost, rst, len(act), len(que),
		len(a.Rewardskeeper.GetAllGauges(ctx)), counts)
	c20Debug("world swap: %s", label)

	cont := func(tw *c20Twin) {
		user := func(n int) sdk.AccAddress { return addrN(n) }
		if moment != 1 {
			tw.end()
		}
		tw.begin(6*time.Second, "rewards", "liquidity")
		tw.msg("liq.deposit-ranged", "liquidity", func(ctx sdk.Context) sdk.Msg {
			return liqtypes.NewMsgDeposit(fx.appL, user(12), ranged[0].Id, sdk.NewCoins(sdk.NewCoin("ucmst", sdk.NewInt(4000000)), sdk.NewCoin("ucmdx", sdk.NewInt(2000000))))
		})
		tw.msg("liq.limit", "liquidity", func(ctx sdk.Context) sdk.Msg {
			return liqtypes.NewMsgLimitOrder(fx.appL, user(16), p1.Id, liqtypes.OrderDirectionSell, sdk.NewCoin("ucmdx", sdk.NewInt(2500000)), "ucmst", sdk.MustNewDecFromStr("1.98"), sdk.NewInt(2500000), time.Hour)
		})
		tw.msg("liq.cancel-old", "liquidity", func(ctx sdk.Context) sdk.Msg {
			for _, o := range k.GetAllOrders(ctx, fx.appL) {
				if o.Status == liqtypes.OrderStatusNotMatched || o.Status == liqtypes.OrderStatusPartiallyMatched {
					return liqtypes.NewMsgCancelOrder(fx.appL, sdk.MustAccAddressFromBech32(o.Orderer), o.PairId, o.Id)
				}
			}
			return liqtypes.NewMsgCancelOrder(fx.appL, user(11), p1.Id, 1)
		})
		tw.msg("liq.cancel-all", "liquidity", func(ctx sdk.Context) sdk.Msg {
			return liqtypes.NewMsgCancelAllOrders(fx.appL, user(12), []uint64{p1.Id})
		})
		tw.msg("liq.withdraw-ranged", "liquidity", func(ctx sdk.Context) sdk.Msg {
			have := a.BankKeeper.GetBalance(ctx, user(13), ranged[0].PoolCoinDenom)
			return liqtypes.NewMsgWithdraw(fx.appL, user(13), ranged[0].Id, sdk.NewCoin(ranged[0].PoolCoinDenom, have.Amount.QuoRaw(2).AddRaw(1)))
		})
		tw.msg("liq.unfarm", "liquidity", func(ctx sdk.Context) sdk.Msg {
			return liqtypes.NewMsgUnfarm(fx.appL, fx.pools[0], user(2), sdk.NewCoin(liqtypes.PoolCoinDenom(fx.appL, fx.pools[0]), sdk.NewInt(500000)))
		})
		tw.msg("liq.farm", "liquidity", func(ctx sdk.Context) sdk.Msg {
			return liqtypes.NewMsgFarm(fx.appL, fx.pools[2], user(4), sdk.NewCoin(liqtypes.PoolCoinDenom(fx.appL, fx.pools[2]), sdk.NewInt(700000)))
		})
		tw.msg("locker.deposit", "locker", func(ctx sdk.Context) sdk.Msg {
			m, _ := a.LockerKeeper.GetUserLockerAssetMapping(ctx, user(11).String(), fx.appH, fx.asset["ucmst"])
			return lockertypes.NewMsgDepositAssetRequest(user(11).String(), m.LockerId, sdk.NewInt(1000000), fx.asset["ucmst"], fx.appH)
		})
		tw.msg("vault.deposit", "vault", func(ctx sdk.Context) sdk.Msg {
			m, _ := a.VaultKeeper.GetUserAppExtendedPairMappingData(ctx, user(21).String(), fx.appV, fx.extPair)
			return vaulttypes.NewMsgDepositRequest(user(21), fx.appV, fx.extPair, m.VaultId, sdk.NewInt(1000000))
		})
		// a new external reward programme for lockers / vaults: the id each chain hands out and how many
		// programmes exist afterwards (the id counters, rewards prefixes 21 / 22, are not exported; since
		// fix C20-F18 InitGenesis recomputes them as the maximum imported programme id: both chains agree)
		fund(t, a, tw.orig, user(81), sdk.NewCoins(sdk.NewCoin("uharbor", sdk.NewInt(100000000)), sdk.NewCoin("ucmdx", sdk.NewInt(100000000))))
		fund(t, a, tw.reimp, user(81), sdk.NewCoins(sdk.NewCoin("uharbor", sdk.NewInt(100000000)), sdk.NewCoin("ucmdx", sdk.NewInt(100000000))))
		tw.msg("rewards.ext-locker-new", "rewards", func(ctx sdk.Context) sdk.Msg {
			return rewardstypes.NewMsgActivateExternalRewardsLockers(fx.appH, fx.asset["ucmst"], sdk.NewCoin("uharbor", sdk.NewInt(3000000)), 2, 3600, user(81))
		})
		tw.msg("rewards.ext-vault-new", "rewards", func(ctx sdk.Context) sdk.Msg {
			return rewardstypes.NewMsgActivateExternalRewardsVault(fx.appV, fx.extPair, sdk.NewCoin("ucmdx", sdk.NewInt(2000000)), 2, 3600, user(81))
		})
		tw.tr.p("# external reward programmes after a new one of each kind: lockers %d/%d (id counter %d/%d), vaults %d/%d (id counter %d/%d)",
			len(a.Rewardskeeper.GetExternalRewardsLockers(tw.orig)), len(a.Rewardskeeper.GetExternalRewardsLockers(tw.reimp)),
			a.Rewardskeeper.GetExternalRewardsLockersID(tw.orig), a.Rewardskeeper.GetExternalRewardsLockersID(tw.reimp),
			len(a.Rewardskeeper.GetExternalRewardVaults(tw.orig)), len(a.Rewardskeeper.GetExternalRewardVaults(tw.reimp)),
			a.Rewardskeeper.GetExternalRewardsVaultID(tw.orig), a.Rewardskeeper.GetExternalRewardsVaultID(tw.reimp))
		tw.end()
		tw.begin(43201*time.Second, "rewards", "liquidity")
		tw.end()
		tw.begin(6*time.Second, "rewards", "liquidity")
		tw.msg("liq.pair", "liquidity", func(ctx sdk.Context) sdk.Msg { return liqtypes.NewMsgCreatePair(fx.appL, addrN(90), "uatom", "ucmdx") })
		tw.msg("liq.deposit-ranged2", "liquidity", func(ctx sdk.Context) sdk.Msg {
			return liqtypes.NewMsgDeposit(fx.appL, user(15), ranged[1].Id, sdk.NewCoins(sdk.NewCoin("ucmst", sdk.NewInt(50000000)), sdk.NewCoin("uatom", sdk.NewInt(5000000))))
		})
		tw.end()
		tw.begin(86401*time.Second, "rewards", "liquidity")
		tw.end()
	}
	return &c20Rich{name: "swap", a: a, ctx: ctx, label: label, cont: cont}
}

// ---------------------------------------------------------------------------------------------
// World B "lend": the c09 borrow world (two lend pools, thirteen pairs: same-pool, e-mode, cross-pool
// bridged through a transit asset, stable-rate) with borrows of every kind, interest pending over a
// long gap, a closed borrow (a gap in the id space), and one or two borrows liquidated by the
// generation-2 liquidation - their dutch auctions running, one of them with a partial bid.
func c20WorldLend(t *testing.T, g *rng) *c20Rich {
	w := c09bSetup(t)
	a := w.a
	c := c09bNewCase(w, c20Scratch(), 0, "rich", 3)
	var ids []uint64
	plan := []struct {
		pair   int
		stable bool
	}{{0, false}, {4, false}, {8, false}, {10, false}, {1, true}, {5, false}, {11, false}, {2, false}}
	for i, p := range plan {
		amt := int64(1+g.intn(40)) * 10000000
		if id := c.newBorrow(p.pair, amt, int64(300+g.intn(650)), p.stable); id != 0 {
			ids = append(ids, id)
		}
		if i == 3 {
			c.skip(int64(3600 * (1 + g.intn(48))))
		}
	}
	if len(ids) < 5 {
		t.Fatalf("world lend: only %d borrows opened", len(ids))
	}
	c.skip(int64(86400 * (1 + g.intn(20)))) // interest accrues, nobody touches the positions
	c.drawOrRepay(ids[1], false, 200)
	c.drawOrRepay(ids[2], true, 50)
	if g.chance(60) {
		c.closeBorrow(ids[g.intn(2)*(len(ids)-1)]) // the oldest or the newest borrow: a gap / a re-issued id
	}
	// liquidation of one or two borrows through the message, at half the collateral price
	nliq := 1 + g.intn(2)
	bidder := addrN(1900)
	var cs sdk.Coins
	for j := 0; j < 4; j++ {
		cs = cs.Add(sdk.NewCoin(w.idDenom[w.assets[j]], sdk.NewInt(1000000000000000)))
	}
	fund(t, a, c.ctx, bidder, cs)
	liquidated := 0
	for _, id := range ids[2:] {
		if liquidated >= nliq {
			break
		}
		b, found := a.LendKeeper.GetBorrow(c.ctx, id)
		if !found || b.IsLiquidated {
			continue
		}
		pr, _ := a.LendKeeper.GetLendPair(c.ctx, b.PairID)
		c.setPrice(pr.AssetIn, w.normal[pr.AssetIn]/2, true)
		before := a.NewaucKeeper.GetAuctionID(c.ctx)
		c.liqMsg(1, id)
		c.setPrice(pr.AssetIn, w.normal[pr.AssetIn], true)
		if a.NewaucKeeper.GetAuctionID(c.ctx) > before {
			liquidated++
		}
	}
	aucs := a.NewaucKeeper.GetAuctions(c.ctx)
	// the app's reserve funds (a bid that leaves too little collateral draws on them)
	for j := 0; j < 4; j++ {
		execMsg(a, c.ctx, liqv2types.NewMsgAppReserveFundsRequest(bidder.String(), w.app, w.assets[j], sdk.NewCoin(w.idDenom[w.assets[j]], sdk.NewInt(1000000000000))))
	}
	partial := 0
	if len(aucs) > 0 && g.chance(80) {
		div := int64(4 + g.intn(8))
		for _, au := range aucs {
			cl, err, _ := execMsg(a, c.ctx, auctionsV2types.NewMsgPlaceMarketBid(bidder.String(), au.AuctionId, sdk.NewCoin(au.DebtToken.Denom, au.DebtToken.Amount.QuoRaw(div))))
			if cl == "ok" {
				partial++
				break
			}
			c20Debug("lend partial bid on auction %d (%s for %s): %s %v", au.AuctionId, au.CollateralToken, au.DebtToken, cl, err)
		}
	}
	c.skip(int64(6 + g.intn(600)))
	label := fmt.Sprintf("borrows=%d lends=%d liquidated=%d auctions=%d partial-bid=%d", len(a.LendKeeper.GetAllBorrow(c.ctx)), len(a.LendKeeper.GetAllLend(c.ctx)),
		liquidated, len(a.NewaucKeeper.GetAuctions(c.ctx)), partial)
	c20Debug("world lend: %s", label)

	cont := func(tw *c20Twin) {
		on := func(name string, op func(x *c09bCase)) {
			tw.step(name, "lend", func(ctx sdk.Context) (sdk.Context, string) {
				x := *c
				x.ctx = ctx
				op(&x)
				return x.ctx, "ok"
			})
		}
		tw.begin(6*time.Second, "lend", "liquidationsV2", "auctionsV2")
		on("lend.repay", func(x *c09bCase) { x.drawOrRepay(ids[0], false, 100) })
		on("lend.draw", func(x *c09bCase) { x.drawOrRepay(ids[3], true, 30) })
		tw.msg("lend.deposit", "lend", func(ctx sdk.Context) sdk.Msg {
			id, _ := a.LendKeeper.GetLendIDForAssetIDPoolID(ctx, w.whale.String(), w.assets[1], w.pools[0])
			return lendtypes.NewMsgDeposit(w.whale.String(), id, sdk.NewCoin(w.idDenom[w.assets[1]], sdk.NewInt(777000000)))
		})
		on("lend.new-borrow", func(x *c09bCase) { x.nextUser = 500; x.newBorrow(3, 5000000000, 500, false) })
		tw.step("lend.ids", "lend", func(ctx sdk.Context) (sdk.Context, string) {
			return ctx, fmt.Sprintf("ok")
		})
		tw.msg("aucv2.bid", "auctionsV2", func(ctx sdk.Context) sdk.Msg {
			as := a.NewaucKeeper.GetAuctions(ctx)
			if len(as) == 0 {
				return auctionsV2types.NewMsgPlaceMarketBid(bidder.String(), 1, sdk.NewCoin("uasset1", sdk.NewInt(1)))
			}
			au := as[len(as)-1]
			return auctionsV2types.NewMsgPlaceMarketBid(bidder.String(), au.AuctionId, sdk.NewCoin(au.DebtToken.Denom, au.DebtToken.Amount.QuoRaw(2)))
		})
		on("lend.close", func(x *c09bCase) { x.closeBorrow(ids[1]) })
		tw.begin(3600*time.Second, "lend", "liquidationsV2", "auctionsV2")
		tw.msg("lend.interest", "lend", func(ctx sdk.Context) sdk.Msg {
			return lendtypes.NewMsgCalculateInterestAndRewards(c.owner[ids[3]].String())
		})
		on("lend.price-drop", func(x *c09bCase) { x.setPrice(w.assets[1], w.normal[w.assets[1]]*45/100, true) })
		tw.begin(6*time.Second, "lend", "liquidationsV2", "auctionsV2") // the sweep finds the borrows the price drop made unsafe
		tw.begin(4000*time.Second, "lend", "liquidationsV2", "auctionsV2")
		tw.msg("lend.withdraw", "lend", func(ctx sdk.Context) sdk.Msg {
			id, _ := a.LendKeeper.GetLendIDForAssetIDPoolID(ctx, w.whale.String(), w.assets[3], w.pools[1])
			return lendtypes.NewMsgWithdraw(w.whale.String(), id, sdk.NewCoin(w.idDenom[w.assets[3]], sdk.NewInt(1000000)))
		})
	}
	return &c20Rich{name: "lend", a: a, ctx: c.ctx, label: label, cont: cont}
}

// ---------------------------------------------------------------------------------------------
// World C "fees": the c13 world (two apps with governance tokens minted through tokenmint, vault pairs,
// collector lookup tables, lockers earning rewards over time, fee inflows, surplus / debt auctions of
// both generations, generation-2 liquidations) after a random history, with - at the export - a
// generation-1 surplus auction carrying a standing bid and a generation-2 english (debt) auction with a
// standing bid, lockers whose rewards have accrued since they were last touched.
func c20WorldFees(t *testing.T, g *rng) *c20Rich {
	a, base := newApp(t)
	apps, assets, denom, ep := c13Base(t, a, base)
	w := c13NewWorld(t, a, base, c20Scratch())
	w.apps, w.assets, w.denom, w.ep = apps, assets, denom, ep
	w.users = []sdk.AccAddress{addrN(21), addrN(22), addrN(23)}
	w.vuser = addrN(29)
	for _, u := range w.users {
		for _, as := range assets[1:] {
			fund(t, a, w.ctx, u, sdk.NewCoins(sdk.NewCoin(denom[as], sdk.NewInt(int64(1+g.intn(9))*1000000000))))
		}
	}
	fund(t, a, w.ctx, w.vuser, sdk.NewCoins(sdk.NewCoin(denom[assets[0]], sdk.NewInt(1000000000000000)), sdk.NewCoin(denom[assets[1]], sdk.NewInt(1000000000000)),
		sdk.NewCoin(denom[assets[2]], sdk.NewInt(1000000000000))))
	w.c13AucInit()
	for _, app := range apps {
		for ai, as := range assets[1:] {
			w.c13AddLookup(app, as, assets[2-ai], c13Lsr(g), 10000000, 5000000, 2000000, 2000000)
			w.c13WlLocker(app, as)
			w.c13WlReward(app, as)
		}
	}
	w.c13InflowOrders(g)
	for i := 0; i < 2+g.intn(4); i++ {
		w.c13Create(g.intn(len(w.users)), apps[g.intn(2)], assets[1+g.intn(2)], c13Amount(g))
	}
	// a random history.  c13RandomOp also calls keeper functions with arguments no entry point passes
	// (WasmUpdateCollectorLookupTable for an (app, asset) without a lookup record stores a zero record
	// under that key): an operation that leaves such a record is rolled back
	nops := 15 + g.intn(25)
	for i := 0; i < nops; i++ {
		saved := w.ctx
		cctx, write := saved.CacheContext()
		w.ctx = cctx
		w.c13RandomOp(g, 3)
		bad := false
		for _, lk := range a.CollectorKeeper.GetAllCollectorLookupTable(w.ctx) {
			if lk.AppId == 0 {
				bad = true
			}
		}
		h, tm := w.ctx.BlockHeight(), w.ctx.BlockTime()
		w.ctx = saved
		if !bad {
			write()
			w.ctx = saved.WithBlockHeight(h).WithBlockTime(tm)
		}
	}
	// the awkward end: auctions in mid-life, rewards accrued
	for _, app := range apps {
		w.c13SetEsm(app, false)
		w.c13SetBreaker(app, false)
	}
	w.c13SetFlags(apps[0], assets[1], true, false, false)
	w.c13FeeIn(apps[0], assets[1], sdk.NewInt(13000000+int64(g.intn(1000))))
	w.c13V1Surplus(apps[0], assets[1])
	w.c13Bid(g, 0)
	w.c13SetFlags(apps[1], assets[2], false, true, false)
	w.c13FeeIn(apps[1], assets[2], sdk.NewInt(int64(1+g.intn(1000))*1000))
	w.c13V2CheckStats(apps[1], assets[2])
	w.c13Bid(g, 2)
	// a vault being liquidated: its generation-2 dutch auction running with a partial bid; a limit bid waiting
	dutch := 0
	{
		app, out := apps[g.intn(2)], assets[1+g.intn(2)]
		in := sdk.NewInt(int64(20+g.intn(60)) * 1000000)
		fresh := addrN(31)
		fund(t, a, w.ctx, fresh, sdk.NewCoins(sdk.NewCoin(denom[assets[0]], sdk.NewInt(1000000000000))))
		cl0, err0, _ := execMsg(a, w.ctx, vaulttypes.NewMsgCreateRequest(fresh, app, ep[[2]uint64{app, out}], in, in))
		if cl0 != "ok" {
			c20Debug("fees vault to liquidate: %s %v", cl0, err0)
		}
		if cl0 == "ok" {
			vid := a.VaultKeeper.GetIDForVault(w.ctx)
			setPrice(a, w.ctx, assets[0], 1200000, true)
			before := a.NewaucKeeper.GetAuctionID(w.ctx)
			execMsg(a, w.ctx, liqv2types.NewMsgLiquidateInternalKeeperRequest(w.c13Keeper(), 0, vid))
			if after := a.NewaucKeeper.GetAuctionID(w.ctx); after == before+1 {
				au, _ := a.NewaucKeeper.GetAuction(w.ctx, after)
				cl, err, _ := execMsg(a, w.ctx, auctionsV2types.NewMsgPlaceMarketBid(w.c13Bidder().String(), after, sdk.NewCoin(au.DebtToken.Denom, au.DebtToken.Amount.QuoRaw(int64(3+g.intn(3))))))
				if cl == "ok" {
					dutch = 1
				} else {
					c20Debug("fees partial dutch bid: %s %v", cl, err)
				}
			}
			cl, err, _ := execMsg(a, w.ctx, auctionsV2types.NewMsgDepositLimitBid(w.c13Bidder().String(), assets[0], out, sdk.NewInt(int64(3+g.intn(5))), sdk.NewCoin(denom[out], sdk.NewInt(5000000))))
			if cl != "ok" {
				c20Debug("fees limit bid: %s %v", cl, err)
			}
			if g.chance(50) {
				setPrice(a, w.ctx, assets[0], 2000000, true)
			}
		}
	}
	// an exhausted net-fee record: the collected fees of one (app, asset) drawn down to exactly zero (what
	// surplus pay-outs and locker rewards do through DecreaseNetFeeCollectedData); the record stays, with
	// amount 0, and has to survive the round trip like any other
	exhausted := 0
	if g.chance(60) {
		app, as := apps[g.intn(2)], assets[1+g.intn(2)]
		if d, ok := a.CollectorKeeper.GetNetFeeCollectedData(w.ctx, app, as); ok && d.NetFeesCollected.IsPositive() {
			if err := a.CollectorKeeper.DecreaseNetFeeCollectedData(w.ctx, app, as, d.NetFeesCollected); err == nil {
				exhausted = 1
			}
		}
	}
	w.c13Advance(int64(10 + g.intn(80)))
	v1s, v1d := 0, 0
	for _, app := range apps {
		v1s += len(a.AuctionKeeper.GetSurplusAuctions(w.ctx, app))
		v1d += len(a.AuctionKeeper.GetDebtAuctions(w.ctx, app))
	}
	label := fmt.Sprintf("ops=%d dutch-partial=%d exhausted-net-fee=%d lockers=%d vaults=%d v1surplus=%d v1debt=%d v2auctions=%d v2bids=%d", nops, dutch, exhausted, len(a.LockerKeeper.GetLockers(w.ctx)), len(a.VaultKeeper.GetVaults(w.ctx)),
		v1s, v1d, len(a.NewaucKeeper.GetAuctions(w.ctx)), len(a.NewaucKeeper.GetUserBids(w.ctx)))
	c20Debug("world fees: %s", label)

	cont := func(tw *c20Twin) {
		on := func(name, mod string, op func(x *c13World, r *rng)) {
			rs := *g // the same random draws on both chains
			tw.step(name, mod, func(ctx sdk.Context) (sdk.Context, string) {
				x := *w
				x.ctx = ctx
				r := rs
				op(&x, &r)
				return x.ctx, "ok"
			})
			g.next()
		}
		tw.begin(6*time.Second, "auction", "rewards", "liquidationsV2", "auctionsV2")
		lk := a.LockerKeeper.GetLockers(w.ctx)
		if len(lk) > 0 {
			l := lk[0]
			on("locker.deposit", "locker", func(x *c13World, r *rng) {
				x.c13Deposit(x.c13UserIdx(l.Depositor), l.AppId, l.AssetDepositId, l.LockerId, sdk.NewInt(1000000))
			})
			on("locker.withdraw", "locker", func(x *c13World, r *rng) {
				x.c13Withdraw(x.c13UserIdx(l.Depositor), l.AppId, l.AssetDepositId, l.LockerId, sdk.NewInt(500000))
			})
			on("locker.reward", "locker", func(x *c13World, r *rng) { x.c13RewardCalc(x.c13UserIdx(l.Depositor), l.AppId, l.LockerId) })
		}
		on("locker.create", "locker", func(x *c13World, r *rng) { x.c13Create(2, apps[1], assets[1], sdk.NewInt(2000000)) })
		on("auc.bid-surplus", "auction", func(x *c13World, r *rng) { x.c13Bid(r, 0) })
		on("aucv2.bid-english", "auctionsV2", func(x *c13World, r *rng) { x.c13Bid(r, 2) })
		on("collector.fee-in", "collector", func(x *c13World, r *rng) { x.c13FeeIn(apps[0], assets[2], sdk.NewInt(777777)) })
		on("liqv2.liquidation", "liquidationsV2", func(x *c13World, r *rng) { x.c13V2Liquidation(apps[0], assets[1], 20000000, 1) })
		on("time", "asset", func(x *c13World, r *rng) { x.c13Advance(400) })
		on("auc.v1-surplus-close", "auction", func(x *c13World, r *rng) { x.c13V1Surplus(apps[0], assets[1]) })
		on("aucv2.close", "auctionsV2", func(x *c13World, r *rng) { x.c13V2Close() })
		tw.begin(6*time.Second, "auction", "rewards", "liquidationsV2", "auctionsV2")
		for i := 0; i < 8; i++ {
			on(fmt.Sprintf("random%d", i), "collector", func(x *c13World, r *rng) { x.c13RandomOp(r, 3) })
		}
		tw.begin(700*time.Second, "auction", "rewards", "liquidationsV2", "auctionsV2")
	}
	return &c20Rich{name: "fees", a: a, ctx: w.ctx, label: label, cont: cont}
}

// ---------------------------------------------------------------------------------------------
// World D "esm": the esm-life world (vault products incl. stable-mint ones on one or two apps, governance
// token deposits) with the emergency shutdown EXECUTED and the chain exported in the middle of the
// cool-off period: trigger parameters, user deposits, the status record with its end time, the price
// snapshot, vaults still open.  The continuation runs the cool-off out, the redemption set-up and
// redemptions.
func c20WorldEsm(t *testing.T, g *rng) *c20Rich {
	a, base := newApp(t)
	ctx, _ := base.CacheContext()
	vc := &vltCase{t: t, a: a, ctx: ctx, tr: c20Scratch(), r: newRng(g.next()), now: baseTime, height: 1, esmOn: map[uint64]bool{}}
	c := &esmCase{vltCase: vc}
	r := c.r
	c.setupEsm()
	c.now = c.now.Add(10 * time.Second)
	c.height = 2
	c.ctx = c.ctx.WithBlockTime(c.now).WithBlockHeight(c.height)
	app := c.apps[0]
	c.createHealthy()
	na := 6 + r.intn(8)
	for i := 0; i < na; i++ {
		switch x := r.intn(100); {
		case x < 35:
			c.createHealthy()
		case x < 60:
			c.stableOp()
		case x < 90:
			c.randomOp()
		default:
			c.advance(r.pickI(5, 60, 3600, 86400))
		}
	}
	// a partial deposit of another user (stays on record), then the target is met and the shutdown executed
	c.depositOp(app, r.intn(len(c.users)), c.govs[app].denom, c.target[app].QuoRaw(int64(3+r.intn(3))))
	moment := g.intn(3) // 0: target not yet met (deposits pending); 1: executed, before the first begin blocker; 2: snapshot taken, mid cool-off
	if moment >= 1 {
		for k := 0; k < 3 && !c.executed[app]; k++ {
			best := 0
			for ui := range c.users {
				if bal(a, c.ctx, c.users[ui], c.govs[app].denom).GT(bal(a, c.ctx, c.users[best], c.govs[app].denom)) {
					best = ui
				}
			}
			amt := c.target[app]
			if b := bal(a, c.ctx, c.users[best], c.govs[app].denom); b.LT(amt) {
				amt = b
			}
			c.depositOp(app, best, c.govs[app].denom, amt)
			c.executeOp(app, r.intn(len(c.users)))
		}
	}
	if moment == 2 {
		c.beginOp()
		c.advance(int64(1 + r.intn(30)))
		c.beginOp()
	}
	st, stFound := a.EsmKeeper.GetESMStatus(c.ctx, app)
	label := fmt.Sprintf("moment=%d apps=%d vaults=%d stable-vaults=%d executed=%v status=%v/%v snapshot=%v", moment, len(c.apps), len(a.VaultKeeper.GetVaults(c.ctx)),
		len(a.VaultKeeper.GetStableMintVaults(c.ctx)), c.executed[app], stFound, st.Status, st.SnapshotStatus)
	c20Debug("world esm: %s", label)

	cont := func(tw *c20Twin) {
		on := func(name string, op func(x *esmCase)) {
			rs := *c.r
			tw.step(name, "esm", func(ctx sdk.Context) (sdk.Context, string) {
				vc2 := *c.vltCase
				rr := rs
				vc2.r = &rr
				vc2.ctx = ctx
				vc2.now, vc2.height = ctx.BlockTime(), ctx.BlockHeight()
				x := *c
				x.vltCase = &vc2
				op(&x)
				return vc2.ctx, "ok"
			})
			c.r.next()
		}
		on("esm.begin", func(x *esmCase) { x.beginOp() })
		on("esm.deposit", func(x *esmCase) { x.randomDeposit(app) })
		on("esm.execute", func(x *esmCase) { x.executeOp(app, 0) })
		on("vault.op", func(x *esmCase) { x.randomOp() })
		on("esm.begin2", func(x *esmCase) { x.beginOp() })
		on("time", func(x *esmCase) {
			dt := int64(3700)
			if s, found := a.EsmKeeper.GetESMStatus(x.ctx, app); found && x.now.Before(s.EndTime) {
				dt = int64(s.EndTime.Sub(x.now).Seconds()) + 5
			}
			x.advance(dt)
		})
		for i := 0; i < 3; i++ {
			on(fmt.Sprintf("esm.setup%d", i), func(x *esmCase) { x.beginOp() })
		}
		for i := 0; i < 4; i++ {
			on(fmt.Sprintf("esm.redeem%d", i), func(x *esmCase) { x.redeemOp(app) })
		}
		tw.begin(6*time.Second, "auction", "rewards", "esm", "liquidationsV2", "auctionsV2")
		on("vault.op2", func(x *esmCase) { x.randomOp() })
		on("esm.redeem-last", func(x *esmCase) { x.redeemOp(app) })
	}
	return &c20Rich{name: "esm", a: a, ctx: c.ctx, label: label, cont: cont}
}
