//go:build verif

package verifharness

// C20 rich states.  Each world is built with the fixtures of another property's workload and returns
// the context at the moment of the export plus a continuation (what happens on both chains afterwards).

import (
	"fmt"
	"testing"
	"time"

	sdkmath "cosmossdk.io/math"
	sdk "github.com/cosmos/cosmos-sdk/types"

	chain "github.com/comdex-official/comdex/app"
	"github.com/comdex-official/comdex/x/liquidity"
	liqtypes "github.com/comdex-official/comdex/x/liquidity/types"
	lockertypes "github.com/comdex-official/comdex/x/locker/types"
	vaulttypes "github.com/comdex-official/comdex/x/vault/types"
)

type c20Rich struct {
	name  string
	a     *chain.App
	ctx   sdk.Context
	label string
	cont  func(tw *c20Twin)
}

// ---------------------------------------------------------------------------------------------
// World A "swap": the c19 base (three apps; three liquidity pairs with a basic pool each; lockers;
// a vault pair) with gauges, external reward programmes, farmers - plus ranged pools on pairs that
// already have a basic pool (pool id != pair id), live orders of every type, deposit / withdraw
// requests, queued farmers; exported in the middle of a block (moment 0), at the block boundary after
// the batch was executed - the handled requests and finished orders are still stored - (moment 1), or in
// the middle of the next block (moment 2).
func c20WorldSwap(t *testing.T, g *rng) *c20Rich {
	a, base := newApp(t)
	fx := c19Base(t, a, base)
	w := c19NewWorld(t, a, base, c20Scratch(), fx)
	moment := g.intn(3)
	k := a.LiquidityKeeper
	for _, d := range []string{"ucmdx", "ucmst", "uharbor", "uatom"} {
		w.opPrice(d, map[string]uint64{"ucmdx": 2000000, "ucmst": 1000000, "uharbor": 333333, "uatom": 10000000}[d], true)
	}
	for n := 1; n <= 4; n++ {
		w.opFarm(n, fx.pools[(n-1)%3], sdk.NewInt(int64(1+g.intn(900))*1000000))
	}
	w.opFarm(2, fx.pools[0], sdk.NewInt(777000000))
	w.opLocker(11, sdk.NewInt(int64(1+g.intn(50))*1000000))
	w.opLocker(12, sdk.NewInt(3000000))
	w.opVault(21, sdk.NewInt(500000000), sdk.NewInt(200000000))
	w.opVault(22, sdk.NewInt(int64(300+g.intn(300))*1000000), sdk.NewInt(100000000))
	w.opCreateGauge(c19GaugeSpec{creator: 80, denom: "uharbor", total: 5, dep: sdk.NewInt(5000000 + int64(g.intn(1000))), startOff: 0, durS: 43200,
		app: fx.appL, pool: fx.pools[0]})
	w.opCreateGauge(c19GaugeSpec{creator: 80, denom: "ucmdx", total: 3, dep: sdk.NewInt(9000001), startOff: 5, durS: 86400,
		app: fx.appL, pool: fx.pools[1], master: true, child: []uint64{fx.pools[0], fx.pools[2]}})
	w.opExtCreate(0, "uharbor", sdk.NewInt(7000000), 3, 3600, 81, false, false)
	w.opExtCreate(1, "ucmdx", sdk.NewInt(int64(1+g.intn(9))*1000000), 2, 3600, 81, false, false)
	w.opRangedPool() // pool 4 on pair 1
	w.opSwapFees(0, sdk.NewInt(123456))
	nb := 1 + g.intn(3)
	for i := 0; i < nb; i++ {
		w.opBegin(g.pickI(43201, 43201, 86401, 3600))
	}
	w.opFarm(5, fx.pools[0], sdk.NewInt(4000000)) // queued again
	w.opFarm(6, fx.pools[2], sdk.NewInt(int64(1+g.intn(100))*10000))
	w.opUnfarm(1, fx.pools[0], sdk.NewInt(1000))

	// ---- the last block(s) before the export: the liquidity module in full swing
	ctx := w.ctx
	h, now := w.height, w.now
	nextBlock := func(dt int64) {
		h++
		now = now.Add(time.Duration(dt) * time.Second)
		ctx = ctx.WithBlockHeight(h).WithBlockTime(now)
		liquidity.BeginBlocker(ctx, k, a.AssetKeeper)
	}
	counts := map[string]int{}
	exec := func(what string, m sdk.Msg) string {
		c, err, _ := execMsg(a, ctx, m)
		counts[what+":"+c]++
		if c != "ok" {
			c20Debug("swap %s: %s %v", what, c, err)
		}
		return c
	}
	lp := addrN(90)
	for _, n := range []int{11, 12, 13, 14, 15, 16} {
		fund(t, a, ctx, addrN(n), sdk.NewCoins(sdk.NewCoin("uatom", sdkmath.NewIntWithDecimal(1, 15)), sdk.NewCoin("uharbor", sdkmath.NewIntWithDecimal(1, 15))))
	}
	nextBlock(6)
	p1, _ := k.GetPair(ctx, fx.appL, fx.pairs[0])
	p2, _ := k.GetPair(ctx, fx.appL, fx.pairs[1])
	exec("rpool2", liqtypes.NewMsgCreateRangedPool(fx.appL, lp, p2.Id, sdk.NewCoins(sdk.NewInt64Coin(p2.QuoteCoinDenom, 1_000_000_000), sdk.NewInt64Coin(p2.BaseCoinDenom, 100_000_000)),
		sdk.MustNewDecFromStr("8"), sdk.MustNewDecFromStr("12"), sdk.MustNewDecFromStr("10")))
	var ranged []liqtypes.Pool
	for _, pl := range k.GetAllPools(ctx, fx.appL) {
		if pl.Id != pl.PairId {
			ranged = append(ranged, pl)
		}
	}
	if len(ranged) < 2 {
		t.Fatalf("world swap: %d pools with an id of their own", len(ranged))
	}
	limit := func(n int, p liqtypes.Pair, buy bool, price string, amt int64, life time.Duration) {
		pr := sdk.MustNewDecFromStr(price)
		if buy {
			offer := pr.MulInt64(amt).MulInt64(101).QuoInt64(100).Ceil().TruncateInt() // price * amount + swap fee, rounded up generously
			exec("limit", liqtypes.NewMsgLimitOrder(fx.appL, addrN(n), p.Id, liqtypes.OrderDirectionBuy, sdk.NewCoin(p.QuoteCoinDenom, offer), p.BaseCoinDenom, pr, sdk.NewInt(amt), life))
		} else {
			exec("limit", liqtypes.NewMsgLimitOrder(fx.appL, addrN(n), p.Id, liqtypes.OrderDirectionSell, sdk.NewCoin(p.BaseCoinDenom, sdk.NewInt(amt+amt/100+1)), p.QuoteCoinDenom, pr, sdk.NewInt(amt), life))
		}
	}
	batchOrders := func(round int) {
		amt := int64(1+g.intn(9)) * 1000000
		limit(11, p1, true, "1.9", amt, time.Hour)                 // rests
		limit(12, p1, true, "2.05", 5*amt, time.Hour)              // crosses the pools
		limit(13, p1, false, "2.1", amt, 0)                        // expires with the batch
		limit(14, p1, false, "1.95", 3*amt, time.Hour)             // crosses
		limit(15, p1, true, "2.1", 400000000+amt, 10*time.Second)  // too large to fill: partially matched
		limit(16, p2, true, "10.1", amt, time.Hour)
		limit(11, p2, false, "9.9", amt/2+1, time.Hour)
		exec("market", liqtypes.NewMsgMarketOrder(fx.appL, addrN(12), p1.Id, liqtypes.OrderDirectionBuy, sdk.NewCoin(p1.QuoteCoinDenom, sdk.NewInt(3*amt)), p1.BaseCoinDenom, sdk.NewInt(amt), 0))
		exec("market", liqtypes.NewMsgMarketOrder(fx.appL, addrN(13), p1.Id, liqtypes.OrderDirectionSell, sdk.NewCoin(p1.BaseCoinDenom, sdk.NewInt(amt+amt/100+1)), p1.QuoteCoinDenom, sdk.NewInt(amt), time.Minute))
		if round == 0 {
			exec("mm", liqtypes.NewMsgMMOrder(fx.appL, addrN(16), p1.Id, sdk.MustNewDecFromStr("2.15"), sdk.MustNewDecFromStr("2.05"), sdk.NewInt(10*amt),
				sdk.MustNewDecFromStr("1.95"), sdk.MustNewDecFromStr("1.85"), sdk.NewInt(10*amt), time.Hour))
		}
		// deposits into the second pool of a pair (pool id != pair id), into a basic pool, a withdrawal, farmers
		r0, _ := k.GetPair(ctx, fx.appL, ranged[0].PairId)
		exec("deposit", liqtypes.NewMsgDeposit(fx.appL, addrN(13), ranged[0].Id, sdk.NewCoins(sdk.NewCoin(r0.QuoteCoinDenom, sdk.NewInt(2*amt)), sdk.NewCoin(r0.BaseCoinDenom, sdk.NewInt(amt)))))
		r1, _ := k.GetPair(ctx, fx.appL, ranged[1].PairId)
		exec("deposit", liqtypes.NewMsgDeposit(fx.appL, addrN(15), ranged[1].Id, sdk.NewCoins(sdk.NewCoin(r1.QuoteCoinDenom, sdk.NewInt(10*amt)), sdk.NewCoin(r1.BaseCoinDenom, sdk.NewInt(amt)))))
		exec("deposit", liqtypes.NewMsgDeposit(fx.appL, addrN(14), fx.pools[0], sdk.NewCoins(sdk.NewCoin("ucmst", sdk.NewInt(2*amt)), sdk.NewCoin("ucmdx", sdk.NewInt(amt)))))
		exec("deposit", liqtypes.NewMsgDeposit(fx.appL, addrN(14), fx.pools[2], sdk.NewCoins(sdk.NewCoin("ucmst", sdk.NewInt(3)), sdk.NewCoin("uharbor", sdk.NewInt(1))))) // fails in the batch
		exec("withdraw", liqtypes.NewMsgWithdraw(fx.appL, addrN(1+round), fx.pools[1], sdk.NewCoin(liqtypes.PoolCoinDenom(fx.appL, fx.pools[1]), sdk.NewInt(1000000+amt))))
		exec("farm", liqtypes.NewMsgFarm(fx.appL, fx.pools[1], addrN(3+round), sdk.NewCoin(liqtypes.PoolCoinDenom(fx.appL, fx.pools[1]), sdk.NewInt(amt))))
	}
	batchOrders(0)
	if moment >= 1 {
		liquidity.EndBlocker(ctx, k, a.AssetKeeper)
	}
	if moment == 2 {
		nextBlock(6)
		// cancel a resting order of the previous batch, then the next batch's messages
		for _, o := range k.GetAllOrders(ctx, fx.appL) {
			if o.Status == liqtypes.OrderStatusNotMatched || o.Status == liqtypes.OrderStatusPartiallyMatched {
				exec("cancel", liqtypes.NewMsgCancelOrder(fx.appL, sdk.MustAccAddressFromBech32(o.Orderer), o.PairId, o.Id))
				break
			}
		}
		batchOrders(1)
	}
	// what the state looks like (evidence; the runner ignores the line)
	ost, rst := map[string]int{}, map[string]int{}
	for _, o := range k.GetAllOrders(ctx, fx.appL) {
		ost[fmt.Sprintf("%s/%s", o.Type, o.Status)]++
	}
	for _, r := range k.GetAllDepositRequests(ctx, fx.appL) {
		rst[fmt.Sprintf("dep/pool%d/pair%d/%s", r.PoolId, func() uint64 { p, _ := k.GetPool(ctx, fx.appL, r.PoolId); return p.PairId }(), r.Status)]++
	}
	for _, r := range k.GetAllWithdrawRequests(ctx, fx.appL) {
		rst[fmt.Sprintf("wd/pool%d/%s", r.PoolId, r.Status)]++
	}
	act, que := k.GetActiveAndQueuedFarmersForGenesis(ctx, fx.appL)
	label := fmt.Sprintf("moment=%d blocks=%d orders=%v requests=%v active-farmers=%d queued-farmers=%d gauges=%d msgs=%v", moment, nb, ost, rst, len(act), len(que),
		len(a.Rewardskeeper.GetAllGauges(ctx)), counts)
	c20Debug("world swap: %s", label)

	cont := func(tw *c20Twin) {
		user := func(n int) sdk.AccAddress { return addrN(n) }
		if moment != 1 {
			tw.end()
		}
		tw.begin(6*time.Second, "rewards", "liquidity")
		tw.msg("liq.deposit-ranged", "liquidity", func(ctx sdk.Context) sdk.Msg {
			return liqtypes.NewMsgDeposit(fx.appL, user(12), ranged[0].Id, sdk.NewCoins(sdk.NewCoin("ucmst", sdk.NewInt(4000000)), sdk.NewCoin("ucmdx", sdk.NewInt(2000000))))
		})
		tw.msg("liq.limit", "liquidity", func(ctx sdk.Context) sdk.Msg {
			return liqtypes.NewMsgLimitOrder(fx.appL, user(16), p1.Id, liqtypes.OrderDirectionSell, sdk.NewCoin("ucmdx", sdk.NewInt(2500000)), "ucmst", sdk.MustNewDecFromStr("1.98"), sdk.NewInt(2500000), time.Hour)
		})
		tw.msg("liq.cancel-old", "liquidity", func(ctx sdk.Context) sdk.Msg {
			for _, o := range k.GetAllOrders(ctx, fx.appL) {
				if o.Status == liqtypes.OrderStatusNotMatched || o.Status == liqtypes.OrderStatusPartiallyMatched {
					return liqtypes.NewMsgCancelOrder(fx.appL, sdk.MustAccAddressFromBech32(o.Orderer), o.PairId, o.Id)
				}
			}
			return liqtypes.NewMsgCancelOrder(fx.appL, user(11), p1.Id, 1)
		})
		tw.msg("liq.cancel-all", "liquidity", func(ctx sdk.Context) sdk.Msg { return liqtypes.NewMsgCancelAllOrders(fx.appL, user(12), []uint64{p1.Id}) })
		tw.msg("liq.withdraw-ranged", "liquidity", func(ctx sdk.Context) sdk.Msg {
			have := a.BankKeeper.GetBalance(ctx, user(13), ranged[0].PoolCoinDenom)
			return liqtypes.NewMsgWithdraw(fx.appL, user(13), ranged[0].Id, sdk.NewCoin(ranged[0].PoolCoinDenom, have.Amount.QuoRaw(2).AddRaw(1)))
		})
		tw.msg("liq.unfarm", "liquidity", func(ctx sdk.Context) sdk.Msg {
			return liqtypes.NewMsgUnfarm(fx.appL, fx.pools[0], user(2), sdk.NewCoin(liqtypes.PoolCoinDenom(fx.appL, fx.pools[0]), sdk.NewInt(500000)))
		})
		tw.msg("liq.farm", "liquidity", func(ctx sdk.Context) sdk.Msg {
			return liqtypes.NewMsgFarm(fx.appL, fx.pools[2], user(4), sdk.NewCoin(liqtypes.PoolCoinDenom(fx.appL, fx.pools[2]), sdk.NewInt(700000)))
		})
		tw.msg("locker.deposit", "locker", func(ctx sdk.Context) sdk.Msg {
			m, _ := a.LockerKeeper.GetUserLockerAssetMapping(ctx, user(11).String(), fx.appH, fx.asset["ucmst"])
			return lockertypes.NewMsgDepositAssetRequest(user(11).String(), m.LockerId, sdk.NewInt(1000000), fx.asset["ucmst"], fx.appH)
		})
		tw.msg("vault.deposit", "vault", func(ctx sdk.Context) sdk.Msg {
			m, _ := a.VaultKeeper.GetUserAppExtendedPairMappingData(ctx, user(21).String(), fx.appV, fx.extPair)
			return vaulttypes.NewMsgDepositRequest(user(21), fx.appV, fx.extPair, m.VaultId, sdk.NewInt(1000000))
		})
		tw.end()
		tw.begin(43201*time.Second, "rewards", "liquidity")
		tw.end()
		tw.begin(6*time.Second, "rewards", "liquidity")
		tw.msg("liq.pair", "liquidity", func(ctx sdk.Context) sdk.Msg { return liqtypes.NewMsgCreatePair(fx.appL, addrN(90), "uatom", "ucmdx") })
		tw.msg("liq.deposit-ranged2", "liquidity", func(ctx sdk.Context) sdk.Msg {
			return liqtypes.NewMsgDeposit(fx.appL, user(15), ranged[1].Id, sdk.NewCoins(sdk.NewCoin("ucmst", sdk.NewInt(50000000)), sdk.NewCoin("uatom", sdk.NewInt(5000000))))
		})
		tw.end()
		tw.begin(86401*time.Second, "rewards", "liquidity")
		tw.end()
	}
	return &c20Rich{name: "swap", a: a, ctx: ctx, label: label, cont: cont}
}
