//go:build verif

package verifharness

import (
	"fmt"
	"strings"
	"testing"

	abci "github.com/cometbft/cometbft/abci/types"
	sdk "github.com/cosmos/cosmos-sdk/types"

	assettypes "github.com/comdex-official/comdex/x/asset/types"
	bandtypes "github.com/comdex-official/comdex/x/bandoracle/types"
	"github.com/comdex-official/comdex/x/market"
)

// TestC17 drives UpdatePriceList and market.BeginBlocker of the real keepers with generated
// sample histories and dumps every asset's Twa record after every step.
func TestC17(t *testing.T) {
	a, base := newApp(t)
	tr := newTracer(t, "c17.trace")
	defer tr.close()
	r := newRng(seed())
	ncases := envInt("VERIF_CASES", 300)
	only := envInt("VERIF_CASE", -1)
	exhaustive := envInt("VERIF_EXHAUSTIVE", 0)

	alphabet := []uint64{0, 1, 2, 7, 1000000, 1000001, 1 << 63, ^uint64(0), 1<<63 - 1, 1 << 62}

	obs := func(ctx sdk.Context, ids []uint64) {
		for _, id := range ids {
			tw, found := a.MarketKeeper.GetTwa(ctx, id)
			var sb strings.Builder
			for _, v := range tw.PriceValue {
				fmt.Fprintf(&sb, " %d", v)
			}
			latest := "E"
			var lv uint64
			var lerr error
			if p, _ := safely(func() { lv, lerr = a.MarketKeeper.GetLatestPrice(ctx, id) }); p {
				latest = "P"
			} else if lerr == nil {
				latest = fmt.Sprint(lv)
			}
			calc := "err"
			var cerr error
			if p, _ := safely(func() { _, cerr = a.MarketKeeper.CalcAssetPrice(ctx, id, sdk.NewInt(1000000)) }); p {
				calc = "panic"
			} else if cerr == nil {
				calc = "ok"
			}
			tr.p("o %d %s %s %d %d %d %d%s %s %s", id, b2s(found), b2s(tw.IsPriceActive), tw.Twa, tw.CurrentIndex,
				tw.DiscardedHeightDiff, len(tw.PriceValue), sb.String(), latest, calc)
		}
	}

	runCase := func(ci int, n uint64, gap int64, reqs []bool, ops func(emit func(kind int, args ...uint64))) {
		ctx, _ := base.CacheContext()
		var ids []uint64
		var sb strings.Builder
		for i, rq := range reqs {
			name := string(rune('A'+i)) + "SSET"
			err := a.AssetKeeper.AddAssetRecords(ctx, assettypes.Asset{Name: name, Denom: "u" + strings.ToLower(name),
				Decimals: sdk.NewInt(1000000), IsOnChain: true, IsOraclePriceRequired: rq})
			if err != nil {
				t.Fatal(err)
			}
			as, _ := a.AssetKeeper.GetAssetForDenom(ctx, "u"+strings.ToLower(name))
			ids = append(ids, as.Id)
			fmt.Fprintf(&sb, " %d %s", as.Id, b2s(rq))
		}
		a.BandoracleKeeper.SetFetchPriceMsg(ctx, bandtypes.MsgFetchPriceData{OracleScriptID: 7, TwaBatchSize: n, AcceptedHeightDiff: gap,
			FeeLimit: sdk.NewCoins(sdk.NewCoin("uband", sdk.NewInt(1)))})
		tr.p("case %d %d %d %d%s", ci, n, gap, len(reqs), sb.String())
		dead := false
		ops(func(kind int, args ...uint64) {
			if dead {
				return
			}
			switch kind {
			case 0: // direct sample: asset index, height, rate
				id := ids[args[0]]
				h := int64(args[1])
				p, _ := safely(func() { a.MarketKeeper.UpdatePriceList(ctx.WithBlockHeight(h), id, 7, args[2], n, gap) })
				res := "ok"
				if p {
					res = "panic"
					dead = true
				}
				tr.p("op s %d %d %d %s", id, h, args[2], res)
			case 1: // begin block: height, valid, last, discard, rates...
				h := int64(args[0])
				valid := args[1] == 1
				last := int64(args[2])
				disc := args[3] == 1
				rates := args[4:]
				a.BandoracleKeeper.SetOracleValidationResult(ctx, valid)
				a.BandoracleKeeper.SetLastBlockHeight(ctx, last)
				a.BandoracleKeeper.SetDiscardData(ctx, bandtypes.DiscardData{BlockHeight: -1, DiscardBool: disc})
				a.BandoracleKeeper.SetLastFetchPriceID(ctx, 5)
				a.BandoracleKeeper.SetFetchPriceResult(ctx, 5, bandtypes.FetchPriceResult{Rates: rates})
				p, _ := safely(func() {
					market.BeginBlocker(ctx.WithBlockHeight(h), abci.RequestBeginBlock{}, a.MarketKeeper, a.BandoracleKeeper, a.AssetKeeper)
				})
				res := "ok"
				if p {
					res = "panic"
					dead = true
				}
				var rs strings.Builder
				for _, x := range rates {
					fmt.Fprintf(&rs, " %d", x)
				}
				nd := a.BandoracleKeeper.GetDiscardData(ctx).DiscardBool
				tr.p("op b %d %s %d %s %d%s %s %s", h, b2s(valid), last, b2s(disc), len(rates), rs.String(), res, b2s(nd))
			}
			if !dead {
				obs(ctx, ids)
			}
		})
	}

	ci := 0
	if exhaustive > 0 {
		// all sample sequences of length <= L over a 4-letter alphabet for n <= 3 (direct samples, one asset)
		letters := []uint64{0, 3, 1 << 63, ^uint64(0)}
		L := exhaustive
		for n := uint64(1); n <= 3; n++ {
			for _, gap := range []int64{0, 40} {
				for length := 1; length <= L; length++ {
					total := 1
					for i := 0; i < length; i++ {
						total *= len(letters)
					}
					for code := 0; code < total; code++ {
						c := code
						seq := make([]uint64, length)
						for i := range seq {
							seq[i] = letters[c%len(letters)]
							c /= len(letters)
						}
						runCase(ci, n, gap, []bool{true}, func(emit func(int, ...uint64)) {
							for i, v := range seq {
								emit(0, 0, uint64(20*(i+1)), v)
							}
						})
						ci++
					}
				}
			}
		}
		return
	}
	// corpus: minimised regression inputs of repaired defects always run first
	corpus := []struct {
		n   uint64
		seq []uint64
	}{
		{1, []uint64{5, 6, 7}},             // C17-F1: window size 1, second sample used to panic
		{2, []uint64{1 << 63, 1 << 63, 4}}, // C17-F2: uint64 sum used to wrap to 0
		{3, []uint64{^uint64(0), ^uint64(0), ^uint64(0), 1}},
		{1 << 63, []uint64{5, 7, 9}},       // C17-F3: window size >= 2^63, second sample used to panic (int(twaBatch) < 0)
		{^uint64(0), []uint64{5, 7, 9, 11}}, // same at the top of the range
	}
	for _, c := range corpus {
		c := c
		if only < 0 || only == ci {
			runCase(ci, c.n, 40, []bool{true}, func(emit func(int, ...uint64)) {
				for i, v := range c.seq {
					emit(0, 0, uint64(20*(i+1)), v)
				}
			})
		}
		ci++
	}
	ncases += len(corpus)
	for ; ci < ncases; ci++ {
		// draw all parameters first so that VERIF_CASE replays exactly
		n := r.pickU(1, 2, 2, 3, 3, 4, 5, 6, 2, 3)
		gap := r.pickI(0, 1, 20, 40, 41, 100)
		na := 1 + r.intn(3)
		reqs := make([]bool, na)
		for i := range reqs {
			reqs[i] = r.chance(80)
		}
		nops := 5 + r.intn(36)
		type op struct {
			kind int
			args []uint64
		}
		var plan []op
		h := uint64(0)
		small := uint64(1 + r.intn(50))
		for i := 0; i < nops; i++ {
			pick := func() uint64 {
				switch r.intn(10) {
				case 0:
					return 0
				case 1, 2:
					return alphabet[r.intn(len(alphabet))]
				case 3:
					return small
				default:
					return uint64(1 + r.intn(2000000))
				}
			}
			if r.chance(30) {
				h += uint64(1 + r.intn(60))
				plan = append(plan, op{0, []uint64{uint64(r.intn(na)), h, pick()}})
			} else {
				if r.chance(85) {
					h = (h/20 + 1 + uint64(r.intn(3))) * 20
				} else {
					h += uint64(1 + r.intn(19))
				}
				valid := uint64(1)
				if r.chance(12) {
					valid = 0
				}
				last := uint64(1)
				if r.chance(5) {
					last = 0
				}
				disc := uint64(0)
				if r.chance(8) {
					disc = 1
				}
				nr := na
				if r.chance(20) {
					nr = r.intn(na + 2)
				}
				args := []uint64{h, valid, last, disc}
				for j := 0; j < nr; j++ {
					args = append(args, pick())
				}
				plan = append(plan, op{1, args})
			}
		}
		if only >= 0 && ci != only {
			continue
		}
		runCase(ci, n, gap, reqs, func(emit func(int, ...uint64)) {
			for _, o := range plan {
				emit(o.kind, o.args...)
			}
		})
	}
}
