//go:build verif

package verifharness

import (
	"bufio"
	"fmt"
	"io"
	"strings"
	"testing"
	"time"

	sdk "github.com/cosmos/cosmos-sdk/types"

	chain "github.com/comdex-official/comdex/app"
	"github.com/comdex-official/comdex/app/wasm/bindings"
	assettypes "github.com/comdex-official/comdex/x/asset/types"
	esmtypes "github.com/comdex-official/comdex/x/esm/types"
	lockertypes "github.com/comdex-official/comdex/x/locker/types"
	rewardstypes "github.com/comdex-official/comdex/x/rewards/types"
	tokenminttypes "github.com/comdex-official/comdex/x/tokenmint/types"
	vaulttypes "github.com/comdex-official/comdex/x/vault/types"
)

// ---------------------------------------------------------------------------------------------
// C13 — locker balances and collector net fees are backed.
// Drives the real locker / vault message servers and the collector, rewards, esm keepers
// (auction flows: c13_auc_test.go) and dumps, after every op: every locker, every lookup table,
// every net-fee record, trackers, collector lookup / auction flags, esm switches and the
// lockerV1 / collectorV1 / user balances.
// ---------------------------------------------------------------------------------------------

type c13World struct {
	t      *testing.T
	a      *chain.App
	ctx    sdk.Context
	tr     *tracer
	apps   []uint64
	assets []uint64          // ids
	denom  map[uint64]string // asset id -> denom
	users  []sdk.AccAddress  // projected users (index = model user id)
	vuser  sdk.AccAddress    // runs the vault messages (not projected)
	ep     map[[2]uint64]uint64 // (app, assetOut) -> extended pair id
	height int64
	aucHeavy bool // the case concentrates on auction flows
	bmode    bool // TestC13B: asset 3 = ucmst, the ESM / refund / mismatched-coin ops are mixed in (c13b_test.go)
}

func c13U(n uint64) string { return fmt.Sprint(n) }

// run f on a cache context; keep writes only when it returns nil and does not panic
func (w *c13World) c13Apply(f func(ctx sdk.Context) error) string {
	cctx, write := w.ctx.CacheContext()
	var err error
	if p, _ := safely(func() { err = f(cctx) }); p {
		return "panic"
	}
	if err != nil {
		return "err"
	}
	write()
	return "ok"
}

func (w *c13World) c13UserIdx(addr string) int {
	for i, u := range w.users {
		if u.String() == addr {
			return i
		}
	}
	return 99
}

// the Dec that rewards.CalculationOfRewards returns for the call the handler is about to make
// (same operands, read from the store before the op); -1 = error, -2 = panic
func (w *c13World) c13Reward(app, asset, lockerID uint64, useOldLsr bool) string {
	lk, found := w.a.LockerKeeper.GetLocker(w.ctx, lockerID)
	if !found {
		return "0"
	}
	cl, found := w.a.CollectorKeeper.GetCollectorLookupTable(w.ctx, app, asset)
	if !found || cl.LockerSavingRate.IsNil() {
		return "0"
	}
	base := lk.BlockTime.Unix()
	if lk.BlockHeight == 0 {
		base = cl.BlockTime.Unix()
	}
	var d sdk.Dec
	var err error
	if p, _ := safely(func() { d, err = w.a.Rewardskeeper.CalculationOfRewards(w.ctx, lk.NetBalance, cl.LockerSavingRate, base) }); p {
		return "-2"
	}
	if err != nil {
		return "-1"
	}
	return d.BigInt().String()
}

func (w *c13World) c13Obs() {
	a, ctx, tr := w.a, w.ctx, w.tr
	ls := a.LockerKeeper.GetLockers(ctx)
	var sb strings.Builder
	for _, l := range ls {
		fmt.Fprintf(&sb, " %d %d %d %d %s %s", l.LockerId, w.c13UserIdx(l.Depositor), l.AppId, l.AssetDepositId, l.NetBalance, l.ReturnsAccumulated)
	}
	tr.p("L %d %d%s", a.LockerKeeper.GetIDForLocker(ctx), len(ls), sb.String())
	for _, app := range w.apps {
		esm, _ := a.EsmKeeper.GetESMStatus(ctx, app)
		ks, _ := a.EsmKeeper.GetKillSwitchData(ctx, app)
		tr.p("E %d %s %s", app, b2s(esm.Status), b2s(ks.BreakerEnable))
		for _, as := range w.assets {
			lk, f1 := a.LockerKeeper.GetLockerLookupTable(ctx, app, as)
			sb.Reset()
			for _, id := range lk.LockerIds {
				fmt.Fprintf(&sb, " %d", id)
			}
			dep := "0"
			if f1 {
				dep = lk.DepositedAmount.String()
			}
			tr.p("K %d %d %s %s %d%s", app, as, b2s(f1), dep, len(lk.LockerIds), sb.String())
			nf, f2 := a.CollectorKeeper.GetNetFeeCollectedData(ctx, app, as)
			v := "0"
			if f2 {
				v = nf.NetFeesCollected.String()
			}
			tr.p("N %d %d %s %s", app, as, b2s(f2), v)
			cl, f3 := a.CollectorKeeper.GetCollectorLookupTable(ctx, app, as)
			if f3 {
				tr.p("C %d %d 1 %s %s %s %s %s %d %d %d", app, as, cl.LockerSavingRate.BigInt(), cl.SurplusThreshold, cl.DebtThreshold, cl.LotSize, cl.DebtLotSize,
					cl.SecondaryAssetId, cl.AppId, cl.CollectorAssetId)
			} else {
				tr.p("C %d %d 0 0 0 0 0 0 0 0 0", app, as)
			}
			am, f4 := a.CollectorKeeper.GetAuctionMappingForApp(ctx, app, as)
			tr.p("A %d %d %s %s %s %s %s", app, as, b2s(f4), b2s(am.IsSurplusAuction), b2s(am.IsDebtAuction), b2s(am.IsDistributor), b2s(am.IsAuctionActive))
			_, f5 := a.LockerKeeper.GetLockerProductAssetMapping(ctx, app, as)
			_, f6 := a.Rewardskeeper.GetReward(ctx, app, as)
			inDenoms := false
			if adm, ok := a.CollectorKeeper.GetAppToDenomsMapping(ctx, app); ok {
				for _, x := range adm.AssetIds {
					inDenoms = inDenoms || x == as
				}
			}
			tr.p("W %d %d %s %s %s", app, as, b2s(f5), b2s(f6), b2s(inDenoms))
			for ui, u := range w.users {
				um, _ := a.LockerKeeper.GetUserLockerAssetMapping(ctx, u.String(), app, as)
				if um.LockerId != 0 {
					tr.p("U %d %d %d %d", ui, app, as, um.LockerId)
				}
			}
		}
	}
	for _, t := range a.Rewardskeeper.GetAllLockerRewardTracker(ctx) {
		tr.p("T %d %d %s", t.LockerId, t.AppMappingId, t.RewardsAccumulated.BigInt())
	}
	for _, as := range w.assets {
		d := w.denom[as]
		tr.p("B 0 %d %s", as, bal(a, ctx, modAddr("lockerV1"), d))
		tr.p("B 1 %d %s", as, bal(a, ctx, modAddr("collectorV1"), d))
		for ui, u := range w.users {
			tr.p("B %d %d %s", 10+ui, as, bal(a, ctx, u, d))
		}
	}
	tr.p("end")
}

func c13NewWorld(t *testing.T, a *chain.App, base sdk.Context, tr *tracer) *c13World {
	ctx, _ := base.CacheContext()
	w := &c13World{t: t, a: a, ctx: ctx, tr: tr, denom: map[uint64]string{}, ep: map[[2]uint64]uint64{}, height: 10}
	w.ctx = w.ctx.WithBlockHeight(w.height).WithBlockTime(baseTime)
	return w
}

// c13Base builds, once, the configuration every case starts from: 2 apps, 3 assets, vault pairs,
// funded users.  Everything the model needs to know about it is printed on the case line.
func c13Base(t *testing.T, a *chain.App, ctx sdk.Context) (apps, assets []uint64, denom map[uint64]string, ep map[[2]uint64]uint64) {
	return c13BaseCfg(t, a, ctx, false)
}

// cmstThird: asset 2 = uharbor, asset 3 = ucmst (the configuration collector/refund.go hard-codes)
func c13BaseCfg(t *testing.T, a *chain.App, ctx sdk.Context, cmstThird bool) (apps, assets []uint64, denom map[uint64]string, ep map[[2]uint64]uint64) {
	denom = map[uint64]string{}
	ep = map[[2]uint64]uint64{}
	a1 := addAsset(t, a, ctx, "CMDX", "ucmdx", 1000000, true, false)
	n2, d2, n3, d3 := "CMST", "ucmst", "HARBOR", "uharbor"
	if cmstThird {
		n2, d2, n3, d3 = n3, d3, n2, d2
	}
	a2 := addAsset(t, a, ctx, n2, d2, 1000000, true, true)
	a3 := addAsset(t, a, ctx, n3, d3, 1000000, true, true)
	gov := a3
	if cmstThird {
		gov = a2
	}
	// the apps carry tokenmint data for the secondary (governance) asset: the auction closes burn / mint it
	for i, name := range []string{"appone", "apptwo"} {
		err := a.AssetKeeper.AddAppRecords(ctx, assettypes.AppData{Name: name, ShortName: name, MinGovDeposit: sdk.NewInt(0), GovTimeInSeconds: 0,
			GenesisToken: []assettypes.MintGenesisToken{{AssetId: gov, GenesisSupply: sdk.NewInt(1000000000000000), IsGovToken: i == 0, Recipient: addrN(80).String()}}})
		if err != nil {
			t.Fatalf("AddAppRecords: %v", err)
		}
		all, _ := a.AssetKeeper.GetApps(ctx)
		for _, ap := range all {
			if ap.Name == name {
				apps = append(apps, ap.Id)
			}
		}
		if cls, err, _ := execMsg(a, ctx, &tokenminttypes.MsgMintNewTokensRequest{From: addrN(80).String(), AppId: apps[i], AssetId: gov}); cls != "ok" {
			t.Fatalf("MsgMintNewTokens: %s %v", cls, err)
		}
	}
	assets = []uint64{a1, a2, a3}
	denom[a1], denom[a2], denom[a3] = "ucmdx", d2, d3
	setPrice(a, ctx, a1, 2000000, true)
	setPrice(a, ctx, a2, 1000000, true)
	setPrice(a, ctx, a3, 1000000, true)
	p2 := addPair(t, a, ctx, a1, a2)
	p3 := addPair(t, a, ctx, a1, a3)
	for i, app := range apps {
		for j, pr := range []uint64{p2, p3} {
			out := []uint64{a2, a3}[j]
			id := addExtPair(t, a, ctx, extPairCfg{Name: "CMDX-" + string(rune(65+i)) + string(rune(65+j)), App: app, Pair: pr,
				StabilityFee: sdk.NewDecWithPrec(25, 2), ClosingFee: sdk.NewDecWithPrec(1, 2), LiqPenalty: sdk.NewDecWithPrec(12, 2),
				DrawDownFee: []sdk.Dec{sdk.NewDecWithPrec(1, 2), sdk.NewDecWithPrec(5, 3)}[j], MinCr: sdk.NewDecWithPrec(15, 1),
				DebtCeiling: sdk.NewInt(1000000000000000), DebtFloor: sdk.NewInt(1000000), Active: true, OraclePrice: true,
				AssetOutPrice: 1000000, MinUsdValLeft: 100000})
			ep[[2]uint64{app, out}] = id
			// a second extended pair on the same pair WITHOUT draw-down / closing fee: a vault opened on it pays
			// nothing into the collector, so a liquidation penalty can be the FIRST inflow of its (app, asset)
			c13Epz[[2]uint64{app, out}] = addExtPair(t, a, ctx, extPairCfg{Name: "CMDXZ-" + string(rune(65+i)) + string(rune(65+j)), App: app, Pair: pr,
				StabilityFee: sdk.NewDecWithPrec(25, 2), ClosingFee: sdk.ZeroDec(), LiqPenalty: sdk.NewDecWithPrec(12, 2),
				DrawDownFee: sdk.ZeroDec(), MinCr: sdk.NewDecWithPrec(15, 1),
				DebtCeiling: sdk.NewInt(1000000000000000), DebtFloor: sdk.NewInt(1000000), Active: true, OraclePrice: true,
				AssetOutPrice: 1000000, MinUsdValLeft: 100000})
		}
		// vault interest accrues only for whitelisted apps
		if err := a.Rewardskeeper.WhitelistAppIDVault(ctx, app); err != nil {
			t.Fatalf("WhitelistAppIDVault: %v", err)
		}
	}
	return
}

// (app, assetOut) -> the extended pair without draw-down / closing fee (built once by c13BaseCfg)
var c13Epz = map[[2]uint64]uint64{}

var c13Huge, _ = sdk.NewIntFromString("100000000000000000000") // 1e20 > int64

func c13Amount(r *rng) sdk.Int {
	switch r.intn(12) {
	case 0:
		return sdk.NewInt(1)
	case 1:
		return sdk.NewInt(2)
	case 2:
		return c13Huge
	case 3:
		return sdk.NewInt(1000000)
	default:
		return sdk.NewInt(int64(1+r.intn(5000)) * int64(r.pickI(1, 1000, 1000000)))
	}
}

func c13Lsr(r *rng) sdk.Dec {
	return []sdk.Dec{sdk.ZeroDec(), sdk.NewDecWithPrec(5, 2), sdk.NewDecWithPrec(1, 1), sdk.NewDec(1), sdk.NewDec(7)}[r.intn(5)]
}

// ---- ops -------------------------------------------------------------------------------------
func (w *c13World) c13AddLookup(app, asset, secondary uint64, lsr sdk.Dec, sthr, dthr, lot, dlot int64) {
	res := w.c13Apply(func(ctx sdk.Context) error {
		return w.a.CollectorKeeper.WasmSetCollectorLookupTable(ctx, &bindings.MsgSetCollectorLookupTable{AppID: app, CollectorAssetID: asset,
			SecondaryAssetID: secondary, SurplusThreshold: sdk.NewInt(sthr), DebtThreshold: sdk.NewInt(dthr), LockerSavingRate: lsr,
			LotSize: sdk.NewInt(lot), BidFactor: sdk.NewDecWithPrec(1, 2), DebtLotSize: sdk.NewInt(dlot)})
	})
	w.tr.p("op addlk %d %d %d %s %d %d %d %d %s", app, asset, secondary, lsr.BigInt(), sthr, dthr, lot, dlot, res)
}

func (w *c13World) c13UpdLookup(app, asset uint64, lsr sdk.Dec, sthr, dthr, lot, dlot int64) {
	// rewards per locker id of the lookup, computed with the OLD rate (what LockerIterateRewards uses)
	lk, _ := w.a.LockerKeeper.GetLockerLookupTable(w.ctx, app, asset)
	var sb strings.Builder
	for _, id := range lk.LockerIds {
		fmt.Fprintf(&sb, " %s", w.c13Reward(app, asset, id, true))
	}
	res := w.c13Apply(func(ctx sdk.Context) error {
		return w.a.CollectorKeeper.WasmUpdateCollectorLookupTable(ctx, &bindings.MsgUpdateCollectorLookupTable{AppID: app, AssetID: asset,
			DebtThreshold: sdk.NewInt(dthr), SurplusThreshold: sdk.NewInt(sthr), LotSize: sdk.NewInt(lot), DebtLotSize: sdk.NewInt(dlot),
			BidFactor: sdk.NewDecWithPrec(1, 2), LSR: lsr})
	})
	w.tr.p("op updlk %d %d %s %d %d %d %d %d%s %s", app, asset, lsr.BigInt(), sthr, dthr, lot, dlot, len(lk.LockerIds), sb.String(), res)
}

func (w *c13World) c13WlLocker(app, asset uint64) {
	res := w.c13Apply(func(ctx sdk.Context) error {
		_, err := w.a.LockerKeeper.AddWhiteListedAsset(ctx, &lockertypes.MsgAddWhiteListedAssetRequest{From: w.vuser.String(), AppId: app, AssetId: asset})
		return err
	})
	w.tr.p("op wll %d %d %s", app, asset, res)
}

func (w *c13World) c13WlReward(app, asset uint64) {
	res := w.c13Apply(func(ctx sdk.Context) error {
		_, err := w.a.Rewardskeeper.Whitelist(ctx, &rewardstypes.WhitelistAsset{AppMappingId: app, From: w.vuser.String(), AssetId: asset})
		return err
	})
	w.tr.p("op wlr %d %d %s", app, asset, res)
}

func (w *c13World) c13SetFlags(app, asset uint64, su, de, di bool) {
	res := w.c13Apply(func(ctx sdk.Context) error {
		return w.a.CollectorKeeper.WasmSetAuctionMappingForApp(ctx, &bindings.MsgSetAuctionMappingForApp{AppID: app, AssetIDs: asset,
			IsSurplusAuctions: su, IsDebtAuctions: de, IsDistributor: di, AssetOutOraclePrices: false, AssetOutPrices: 1000000})
	})
	w.tr.p("op flags %d %d %s %s %s %s", app, asset, b2s(su), b2s(de), b2s(di), res)
}

func (w *c13World) c13SetEsm(app uint64, on bool) {
	w.a.EsmKeeper.SetESMStatus(w.ctx, esmtypes.ESMStatus{AppId: app, Status: on})
	w.tr.p("op esm %d %s ok", app, b2s(on))
}

func (w *c13World) c13SetBreaker(app uint64, on bool) {
	_ = w.a.EsmKeeper.SetKillSwitchData(w.ctx, esmtypes.KillSwitchParams{AppId: app, BreakerEnable: on})
	w.tr.p("op brk %d %s ok", app, b2s(on))
}

func (w *c13World) c13Advance(dt int64) {
	w.height++
	w.ctx = w.ctx.WithBlockHeight(w.height).WithBlockTime(w.ctx.BlockTime().Add(time.Duration(dt) * time.Second))
	w.tr.p("op time %d ok", dt)
}

func (w *c13World) c13Create(u int, app, asset uint64, amt sdk.Int) {
	class, _, _ := execMsg(w.a, w.ctx, lockertypes.NewMsgCreateLockerRequest(w.users[u].String(), amt, asset, app))
	w.tr.p("op create %d %d %d %s %s", u, app, asset, amt, class)
}

func (w *c13World) c13Deposit(u int, app, asset, lid uint64, amt sdk.Int) {
	rw := w.c13Reward(app, asset, lid, false)
	class, _, _ := execMsg(w.a, w.ctx, lockertypes.NewMsgDepositAssetRequest(w.users[u].String(), lid, amt, asset, app))
	w.tr.p("op deposit %d %d %d %d %s %s %s", u, app, asset, lid, amt, rw, class)
}

func (w *c13World) c13Withdraw(u int, app, asset, lid uint64, amt sdk.Int) {
	rw := w.c13Reward(app, asset, lid, false)
	class, _, _ := execMsg(w.a, w.ctx, lockertypes.NewMsgWithdrawAssetRequest(w.users[u].String(), lid, amt, asset, app))
	w.tr.p("op withdraw %d %d %d %d %s %s %s", u, app, asset, lid, amt, rw, class)
}

func (w *c13World) c13Close(u int, app, asset, lid uint64) {
	rw := w.c13Reward(app, asset, lid, false)
	class, _, _ := execMsg(w.a, w.ctx, lockertypes.NewMsgCloseLockerRequest(w.users[u].String(), app, asset, lid))
	w.tr.p("op close %d %d %d %d %s %s", u, app, asset, lid, rw, class)
}

func (w *c13World) c13RewardCalc(u int, app, lid uint64) {
	lk, _ := w.a.LockerKeeper.GetLocker(w.ctx, lid)
	rw := w.c13Reward(app, lk.AssetDepositId, lid, false)
	class, _, _ := execMsg(w.a, w.ctx, lockertypes.NewMsgLockerRewardCalcRequest(w.users[u].String(), app, lid))
	w.tr.p("op calc %d %d %s %s", app, lid, rw, class)
}

// a vault message of the (unprojected) vault user; what it paid into the collector is the env
// value of the model's FeeIn op (the fee arithmetic is the subject of C02/C03/C18)
func (w *c13World) c13Vault(kind string, app, assetOut uint64, msg sdk.Msg) string {
	d := w.denom[assetOut]
	before := bal(w.a, w.ctx, modAddr("collectorV1"), d)
	class, _, _ := execMsg(w.a, w.ctx, msg)
	delta := bal(w.a, w.ctx, modAddr("collectorV1"), d).Sub(before)
	w.tr.p("op vault %s %d %d %s %s", kind, app, assetOut, delta, class)
	return class
}

func (w *c13World) c13GetAmount(app, asset uint64, amt sdk.Int) {
	res := w.c13Apply(func(ctx sdk.Context) error {
		_, err := w.a.CollectorKeeper.GetAmountFromCollector(ctx, app, asset, amt)
		return err
	})
	w.tr.p("op getamt %d %d %s %s", app, asset, amt, res)
}

func (w *c13World) c13DecNetFee(app, asset uint64, amt sdk.Int) {
	res := w.c13Apply(func(ctx sdk.Context) error { return w.a.CollectorKeeper.DecreaseNetFeeCollectedData(ctx, app, asset, amt) })
	w.tr.p("op decnf %d %d %s %s", app, asset, amt, res)
}

func (w *c13World) c13SurplusFund(app, asset uint64, u int, amt sdk.Int) {
	res := w.c13Apply(func(ctx sdk.Context) error {
		return w.a.CollectorKeeper.WasmMsgGetSurplusFund(ctx, app, asset, w.users[u], sdk.NewCoin(w.denom[asset], amt))
	})
	w.tr.p("op sfund %d %d %d %d %s %s", app, asset, u, asset, amt, res)
}

// ---- one random case ---------------------------------------------------------------------------
func (w *c13World) c13VaultIDs(app uint64) []vaulttypes.Vault {
	var out []vaulttypes.Vault
	for _, v := range w.a.VaultKeeper.GetVaults(w.ctx) {
		if v.AppId == app && v.Owner == w.vuser.String() {
			out = append(out, v)
		}
	}
	return out
}

func (w *c13World) c13RandomOp(r *rng, stage int) {
	app := w.apps[r.intn(len(w.apps))]
	asset := w.assets[1+r.intn(2)] // lockers / fees live on assets 2 and 3
	if r.chance(4) {
		asset = w.assets[0]
	}
	if r.chance(3) {
		app = 7 // unknown app
	}
	u := r.intn(len(w.users))
	lockers := w.a.LockerKeeper.GetLockers(w.ctx)
	pick := func() (lockertypes.Locker, bool) {
		if len(lockers) == 0 {
			return lockertypes.Locker{}, false
		}
		return lockers[r.intn(len(lockers))], true
	}
	k := r.intn(100)
	if w.aucHeavy && r.chance(35) {
		k = 99
	}
	switch {
	case k < 10:
		w.c13Create(u, app, asset, c13Amount(r))
	case k < 24:
		if l, ok := pick(); ok {
			uu, aa, as := w.c13UserIdx(l.Depositor), l.AppId, l.AssetDepositId
			if r.chance(8) {
				uu = (uu + 1) % len(w.users)
			}
			if r.chance(5) {
				as = w.assets[r.intn(3)]
			}
			if r.chance(5) {
				aa = w.apps[r.intn(2)]
			}
			w.c13Deposit(uu, aa, as, l.LockerId, c13Amount(r))
		} else if r.chance(20) {
			w.c13Deposit(u, app, asset, uint64(1+r.intn(3)), c13Amount(r))
		} else {
			w.c13Create(u, app, asset, c13Amount(r))
		}
	case k < 38:
		if l, ok := pick(); ok {
			uu, aa, as := w.c13UserIdx(l.Depositor), l.AppId, l.AssetDepositId
			if r.chance(8) {
				uu = (uu + 1) % len(w.users)
			}
			if r.chance(5) {
				as = w.assets[r.intn(3)]
			}
			amt := c13Amount(r)
			switch r.intn(6) {
			case 0:
				amt = l.NetBalance
			case 1:
				amt = l.NetBalance.AddRaw(1)
			case 2:
				if l.NetBalance.GT(sdk.OneInt()) {
					amt = l.NetBalance.SubRaw(1)
				}
			case 3:
				if l.NetBalance.GT(sdk.NewInt(4)) {
					amt = l.NetBalance.QuoRaw(3)
				}
			}
			if !amt.IsPositive() {
				amt = sdk.OneInt()
			}
			w.c13Withdraw(uu, aa, as, l.LockerId, amt)
		} else if r.chance(20) {
			w.c13Withdraw(u, app, asset, uint64(1+r.intn(3)), c13Amount(r))
		} else {
			w.c13Create(u, app, asset, c13Amount(r))
		}
	case k < 44:
		if l, ok := pick(); ok {
			uu := w.c13UserIdx(l.Depositor)
			if r.chance(10) {
				uu = (uu + 1) % len(w.users)
			}
			w.c13Close(uu, l.AppId, l.AssetDepositId, l.LockerId)
		} else if r.chance(20) {
			w.c13Close(u, app, asset, uint64(1+r.intn(3)))
		} else {
			w.c13Create(u, app, asset, c13Amount(r))
		}
	case k < 52:
		if l, ok := pick(); ok {
			aa := l.AppId
			if r.chance(10) {
				aa = w.apps[r.intn(2)]
			}
			w.c13RewardCalc(u, aa, l.LockerId)
		} else if r.chance(20) {
			w.c13RewardCalc(u, app, uint64(1+r.intn(3)))
		} else {
			w.c13Create(u, app, asset, c13Amount(r))
		}
	case k < 62:
		w.c13Advance(r.pickI(0, 1, 3600, 86400, 2592000, 31557600))
	case k < 67:
		w.c13UpdLookup(app, asset, c13Lsr(r), 10000000, 5000000, 2000000, 2000000)
	case k < 69:
		switch r.intn(4) {
		case 0:
			w.c13AddLookup(app, asset, w.assets[r.intn(3)], c13Lsr(r), 10000000, 5000000, 2000000, 2000000)
		case 1:
			w.c13WlLocker(app, asset)
		case 2:
			w.c13WlReward(app, asset)
		default:
			w.c13SetFlags(app, asset, r.chance(40), r.chance(40), r.chance(30))
		}
	case k < 72:
		if r.chance(50) {
			w.c13SetEsm(w.apps[r.intn(2)], r.chance(40))
		} else {
			w.c13SetBreaker(w.apps[r.intn(2)], r.chance(40))
		}
	case k < 84 && stage >= 2:
		// vault messages generating fees (draw-down fee, interest, closing fee)
		if app == 7 {
			app = w.apps[0]
		}
		out := w.assets[1+r.intn(2)]
		ep := w.ep[[2]uint64{app, out}]
		vs := w.c13VaultIDs(app)
		var mine []vaulttypes.Vault
		for _, v := range vs {
			if v.ExtendedPairVaultID == ep {
				mine = append(mine, v)
			}
		}
		if len(mine) == 0 || r.chance(15) {
			in := int64(1+r.intn(900)) * 1000000
			w.c13Vault("create", app, out, vaulttypes.NewMsgCreateRequest(w.vuser, app, ep, sdk.NewInt(in), sdk.NewInt(in/2+int64(r.intn(int(in/2))))))
		} else {
			v := mine[r.intn(len(mine))]
			switch r.intn(5) {
			case 0:
				w.c13Vault("draw", app, out, vaulttypes.NewMsgDrawRequest(w.vuser, app, ep, v.Id, sdk.NewInt(int64(1+r.intn(100))*int64(r.pickI(1, 1000, 100000)))))
			case 1, 2:
				amt := sdk.NewInt(int64(1+r.intn(100)) * int64(r.pickI(1, 1000, 100000)))
				if r.chance(30) && v.InterestAccumulated.IsPositive() {
					amt = v.InterestAccumulated
				}
				w.c13Vault("repay", app, out, vaulttypes.NewMsgRepayRequest(w.vuser, app, ep, v.Id, amt))
			case 3:
				w.c13Vault("close", app, out, &vaulttypes.MsgCloseRequest{From: w.vuser.String(), AppId: app, ExtendedPairVaultId: ep, UserVaultId: v.Id})
			default:
				in := int64(1+r.intn(50)) * 1000000
				w.c13Vault("depdraw", app, out, vaulttypes.NewMsgDepositAndDrawRequest(w.vuser, app, ep, v.Id, sdk.NewInt(in)))
			}
		}
	case k < 88 && stage >= 2:
		nf, _ := w.a.CollectorKeeper.GetNetFeeCollectedData(w.ctx, app, asset)
		amt := c13Amount(r)
		if !nf.NetFeesCollected.IsNil() && nf.NetFeesCollected.IsPositive() {
			switch r.intn(4) {
			case 0:
				amt = nf.NetFeesCollected
			case 1:
				amt = nf.NetFeesCollected.SubRaw(1)
			case 2:
				amt = nf.NetFeesCollected.QuoRaw(2)
			}
		}
		switch r.intn(3) {
		case 0:
			w.c13GetAmount(app, asset, amt)
		case 1:
			w.c13DecNetFee(app, asset, amt)
		default:
			w.c13SurplusFund(app, asset, u, amt)
		}
	case stage >= 3:
		w.c13AuctionOp(r, app, asset)
	default:
		w.c13Advance(r.pickI(1, 3600, 86400))
	}
}

func c13RunCase(t *testing.T, a *chain.App, base sdk.Context, tr *tracer, r *rng, ci int, emit bool, directed int, bmode bool, apps, assets []uint64,
	denom map[uint64]string, ep map[[2]uint64]uint64) {
	w := c13NewWorld(t, a, base, tr)
	w.bmode = bmode
	if !emit {
		w.tr = &tracer{f: nil, w: bufio.NewWriter(io.Discard)}
	}
	w.apps, w.assets, w.denom, w.ep = apps, assets, denom, ep
	w.users = []sdk.AccAddress{addrN(21), addrN(22), addrN(23)}
	w.vuser = addrN(29)
	stage := 3
	nops := 20 + r.intn(31)
	w.aucHeavy = r.chance(30)
	var sb strings.Builder
	for _, x := range apps {
		fmt.Fprintf(&sb, " %d", x)
	}
	fmt.Fprintf(&sb, " %d", len(assets))
	for _, x := range assets {
		fmt.Fprintf(&sb, " %d", x)
	}
	w.tr.p("case %d %d%s %d", ci, len(apps), sb.String(), len(w.users))
	// funding (outside the model's ops: printed as fund lines)
	for ui, u := range w.users {
		for _, as := range assets[1:] {
			amt := sdk.NewInt(int64(1+r.intn(9)) * 1000000000)
			if r.chance(25) {
				amt = c13Huge.MulRaw(3)
			} else if bmode {
				amt = amt.MulRaw(10) // the refund needs 20 163 520 000 ucmst in the collector
			}
			fund(t, a, w.ctx, u, sdk.NewCoins(sdk.NewCoin(denom[as], amt)))
			w.tr.p("fund %d %d %s", ui, as, amt)
		}
	}
	fund(t, a, w.ctx, w.vuser, sdk.NewCoins(sdk.NewCoin(denom[assets[0]], sdk.NewInt(1000000000000000)), sdk.NewCoin(denom[assets[1]], sdk.NewInt(1000000000000)),
		sdk.NewCoin(denom[assets[2]], sdk.NewInt(1000000000000))))
	w.c13AucInit()
	w.tr.p("op init ok")
	w.c13Obs()
	switch directed {
	case 1:
		w.c13DirectedPenalty()
		return
	case 2:
		w.c13DirectedV2English(true)
		return
	case 3:
		w.c13DirectedV2English(false)
		return
	case 4:
		w.c13DirectedIterate()
		return
	case 5:
		w.c13DirectedEsm()
		return
	case 6:
		w.c13DirectedRefund()
		return
	}
	// mostly-valid setup prefix: lookup tables, whitelists, reward whitelists
	for _, app := range apps {
		for ai, as := range assets[1:] {
			if r.chance(92) {
				sec := assets[2-ai]
				w.c13AddLookup(app, as, sec, c13Lsr(r), 10000000, 5000000, 2000000, 2000000)
				w.c13Obs()
			}
			if r.chance(92) {
				w.c13WlLocker(app, as)
				w.c13Obs()
			}
			if r.chance(75) {
				w.c13WlReward(app, as)
				w.c13Obs()
			}
			if r.chance(50) {
				su := r.chance(50)
				w.c13SetFlags(app, as, su, !su && r.chance(60), !su && r.chance(30))
				w.c13Obs()
			}
		}
	}
	// the collector's inflow paths in every ORDER for one (app, asset): the first inflow of a net-fee record is a
	// vault fee (UpdateCollector, first-time branch), a penalty / auction close (SetNetFeeCollectedData alone), ...
	if r.chance(60) {
		w.c13InflowOrders(r)
	}
	for i := 0; i < 1+r.intn(4); i++ { // a few lockers to start with
		w.c13Create(r.intn(len(w.users)), apps[r.intn(2)], assets[1+r.intn(2)], c13Amount(r))
		w.c13Obs()
	}
	for i := 0; i < nops; i++ {
		if w.bmode && r.chance(22) {
			w.c13BOp(r)
		} else {
			w.c13RandomOp(r, stage)
		}
		w.c13Obs()
	}
}

func TestC13(t *testing.T) {
	a, base := newApp(t)
	tr := newTracer(t, "c13.trace")
	defer tr.close()
	r := newRng(seed())
	ncases := envInt("VERIF_CASES", 40)
	only := envInt("VERIF_CASE", -1)
	apps, assets, denom, ep := c13Base(t, a, base)
	// cases 0..2: the directed witnesses of the known-finding classes (seed-independent); then random
	for ci := 0; ci < ncases; ci++ {
		directed := 0
		if ci < 3 {
			directed = ci + 1
		}
		c13RunCase(t, a, base, tr, r, ci, only < 0 || only == ci, directed, false, apps, assets, denom, ep)
	}
}
