//go:build verif

package verifharness

import (
	"fmt"
	"math/big"
	"testing"

	sdk "github.com/cosmos/cosmos-sdk/types"

	"github.com/comdex-official/comdex/x/auctionsV2"
	auctypes "github.com/comdex-official/comdex/x/auctionsV2/types"
	lendtypes "github.com/comdex-official/comdex/x/lend/types"
	liqV2types "github.com/comdex-official/comdex/x/liquidationsV2/types"
)

// C08, the life of a handed-over position: the generation-2 auction the hand-over created is bid on through
// the real auctionsV2 message server (MsgPlaceMarketBid) by a bidder outside the projection; the closing bid
// runs liquidationsV2 MsgCloseDutchAuctionForBorrow on the real lend keeper.  Auction internals are ENV: is
// the bid accepted, does it close, the auction's target debt, the owner and the seized collateral returned
// to the owner.  Also: MsgRepayWithdraw, MsgFundModuleAccounts, MsgFundReserveAccounts.

func c08Bidder() sdk.AccAddress { return addrN(10) }
func c08Funder() sdk.AccAddress { return addrN(11) }

func c08CloseSetup(t *testing.T, f *c08Fix, ctx sdk.Context) {
	a := f.a
	huge := sdk.NewIntFromUint64(1 << 62)
	var cs sdk.Coins
	for j := 0; j < 4; j++ {
		cs = cs.Add(sdk.NewCoin(f.idDenom[f.assets[j]], huge))
	}
	fund(t, a, ctx, c08Bidder(), cs)
	fund(t, a, ctx, c08Funder(), cs)
	// the app's reserve tops the auction up when the collateral is exhausted before the target debt is met
	for j := 0; j < 4; j++ {
		if class, err, _ := execMsg(a, ctx, liqV2types.NewMsgAppReserveFundsRequest(c08Funder().String(), f.app, f.assets[j],
			sdk.NewCoin(f.idDenom[f.assets[j]], sdk.NewIntFromUint64(1<<60)))); class != "ok" {
			t.Fatalf("app reserve funds: %v", err)
		}
	}
}

// the live generation-2 auction of a handed-over borrow position
func c08AuctionOf(f *c08Fix, ctx sdk.Context, borrowID uint64) (auctypes.Auction, liqV2types.LockedVault, bool) {
	for _, au := range f.a.NewaucKeeper.GetAuctions(ctx) {
		lv, found := f.a.NewliqKeeper.GetLockedVault(ctx, au.AppId, au.LockedVaultId)
		if found && lv.InitiatorType == "lend" && lv.OriginalVaultId == borrowID {
			return au, lv, true
		}
	}
	return auctypes.Auction{}, liqV2types.LockedVault{}, false
}

// One market bid on the auction of borrow position id.  amtClass: 0 three times the remaining debt (closes),
// 1 exactly the remaining debt, 2 a share (partial), 3 one coin, 4 remaining - 1 (leaves dust: rejected).
// Returns the trace line (without the leading "op <dt>") including the result class.
func c08Bid(f *c08Fix, ctx sdk.Context, tr *tracer, id uint64, amtClass int, share int64, tick bool) string {
	a := f.a
	if tick { // the real block hook of the auction module: price update / restart (no limit bids are ever deposited)
		safely(func() { auctionsV2.BeginBlocker(ctx, a.NewaucKeeper) })
	}
	au, lv, found := c08AuctionOf(f, ctx, id)
	aid := uint64(7777)
	amt := sdk.NewInt(1000000)
	denom := f.denoms[0]
	if found {
		aid = au.AuctionId
		denom = au.DebtToken.Denom
		rem := au.DebtToken.Amount
		switch amtClass {
		case 0:
			amt = rem.MulRaw(3)
		case 1:
			amt = rem
		case 2:
			amt = rem.MulRaw(share).QuoRaw(100)
		case 3:
			amt = sdk.NewInt(1)
		default:
			amt = rem.SubRaw(1)
		}
		if !amt.IsPositive() {
			amt = sdk.NewInt(1)
		}
	}
	msg := &auctypes.MsgPlaceMarketBidRequest{AuctionId: aid, Bidder: c08Bidder().String(), Amount: sdk.Coin{Denom: denom, Amount: amt}}
	var owner sdk.AccAddress
	ownerNo := 0
	collDenom := f.denoms[0]
	if found {
		owner, _ = sdk.AccAddressFromBech32(lv.Owner)
		ownerNo = f.userNo[lv.Owner]
		collDenom = au.CollateralToken.Denom
	}
	before := sdk.ZeroInt()
	if found {
		before = bal(a, ctx, owner, collDenom)
	}
	bidID0 := a.NewaucKeeper.GetUserBidID(ctx)
	// a dry run on a throw-away context tells how far a failing bid got: CreateUserBid (the bid counter) is the last
	// step before MsgCloseDutchAuctionForBorrow, the return of unsold collateral to the owner comes before it
	reached := false
	backDry := sdk.ZeroInt()
	if found {
		cc, _ := ctx.CacheContext()
		if h := a.MsgServiceRouter().Handler(msg); h != nil {
			safely(func() { _, _ = h(cc, msg) })
		}
		reached = a.NewaucKeeper.GetUserBidID(cc) > bidID0
		backDry = bal(a, cc, owner, collDenom).Sub(before)
	}
	class, xerr, _ := execMsg(a, ctx, msg)
	if xerr != nil && envInt("VERIF_DEBUG", 0) == 1 {
		tr.p("# %s", xerr.Error())
	}
	if !found {
		return fmt.Sprintf("aucbid %d 0 %s", id, class)
	}
	_, _, still := c08AuctionOf(f, ctx, id)
	switch {
	case class == "ok" && still:
		return fmt.Sprintf("aucbid %d 1 ok", id)
	case class == "ok":
		back := bal(a, ctx, owner, collDenom).Sub(before)
		return fmt.Sprintf("aucclose %d %s %d %s ok", id, lv.TargetDebt.Amount, ownerNo, back)
	case reached: // a closing bid that failed inside (or after) the close
		return fmt.Sprintf("aucclose %d %s %d %s %s", id, lv.TargetDebt.Amount, ownerNo, backDry, class)
	default: // rejected by the auction before the close
		d := 0
		if class == "panic" {
			d = 2
		}
		return fmt.Sprintf("aucbid %d %d %s", id, d, class)
	}
}

// MsgRepayWithdraw: the env of the CloseBorrow half is measured on the message's pre-state, the env of the
// WithdrawAsset half on a throw-away context after that CloseBorrow
func c08RepayWithdrawLine(f *c08Fix, ctx sdk.Context, un int, us string, b lendtypes.BorrowAsset) string {
	k := f.a.LendKeeper
	e := c08BI(f, ctx, b.ID)
	ipb := "0"
	cc, _ := ctx.CacheContext()
	var err error
	p, _ := safely(func() { err = k.CloseBorrow(cc, us, b.ID) })
	if !p && err == nil {
		ipb = c08Ipb(f, cc, b.LendingID)
	}
	return fmt.Sprintf("repaywithdraw %d %d %s %s", un, b.ID, e, ipb)
}

func c08FundAmount(cr *rng) *big.Int {
	return c08Pick(cr, []*big.Int{c08bi(1), c08bi(int64(1000 + cr.intn(100000000))), c08bi(int64(1000000 + cr.intn(2000000000))), c08bi(3000000000000)})
}
