//go:build verif

package verifharness

import (
	"fmt"
	"math/big"
	"testing"

	sdk "github.com/cosmos/cosmos-sdk/types"

	"github.com/comdex-official/comdex/x/auctionsV2"
	auctionv1types "github.com/comdex-official/comdex/x/auction/types"
	auctypes "github.com/comdex-official/comdex/x/auctionsV2/types"
	liqv1types "github.com/comdex-official/comdex/x/liquidation/types"
	lendtypes "github.com/comdex-official/comdex/x/lend/types"
	liqV2types "github.com/comdex-official/comdex/x/liquidationsV2/types"
)

// C08, the life of a handed-over position: the generation-2 auction the hand-over created is bid on through
// the real auctionsV2 message server (MsgPlaceMarketBid) by a bidder outside the projection; the closing bid
// runs liquidationsV2 MsgCloseDutchAuctionForBorrow on the real lend keeper.  Auction internals are ENV: is
// the bid accepted, does it close, the auction's target debt, the owner and the seized collateral returned
// to the owner.  Also: MsgRepayWithdraw, MsgFundModuleAccounts, MsgFundReserveAccounts.

func c08Bidder() sdk.AccAddress { return addrN(10) }
func c08Funder() sdk.AccAddress { return addrN(11) }

func c08CloseSetup(t *testing.T, f *c08Fix, ctx sdk.Context) {
	a := f.a
	huge := sdk.NewIntFromUint64(1 << 62)
	var cs sdk.Coins
	for j := 0; j < 4; j++ {
		cs = cs.Add(sdk.NewCoin(f.idDenom[f.assets[j]], huge))
	}
	fund(t, a, ctx, c08Bidder(), cs)
	fund(t, a, ctx, c08Funder(), cs)
	// generation 1 (x/liquidation MsgLiquidateBorrow is still routed): auction parameters of the lend app
	if err := a.LendKeeper.AddAuctionParamsData(ctx, lendtypes.AuctionParams{AppId: f.app, AuctionDurationSeconds: 3600, Buffer: c08Dec("1.2"),
		Cusp: c08Dec("0.7"), Step: sdk.NewInt(360), PriceFunctionType: 1, DutchId: 3, BidDurationSeconds: 3600}); err != nil {
		t.Fatal(err)
	}
	a.LiquidationKeeper.SetParams(ctx, liqv1types.NewParams(100))
	// the app's reserve tops the auction up when the collateral is exhausted before the target debt is met
	for j := 0; j < 4; j++ {
		if class, err, _ := execMsg(a, ctx, liqV2types.NewMsgAppReserveFundsRequest(c08Funder().String(), f.app, f.assets[j],
			sdk.NewCoin(f.idDenom[f.assets[j]], sdk.NewIntFromUint64(1<<60)))); class != "ok" {
			t.Fatalf("app reserve funds: %v", err)
		}
	}
}

// the live generation-2 auction of a handed-over borrow position
func c08AuctionOf(f *c08Fix, ctx sdk.Context, borrowID uint64) (auctypes.Auction, liqV2types.LockedVault, bool) {
	for _, au := range f.a.NewaucKeeper.GetAuctions(ctx) {
		lv, found := f.a.NewliqKeeper.GetLockedVault(ctx, au.AppId, au.LockedVaultId)
		if found && lv.InitiatorType == "lend" && lv.OriginalVaultId == borrowID {
			return au, lv, true
		}
	}
	return auctypes.Auction{}, liqV2types.LockedVault{}, false
}

// One market bid on the auction of borrow position id.  amtClass: 0 three times the remaining debt (closes),
// 1 exactly the remaining debt, 2 a share (partial), 3 one coin, 4 remaining - 1 (leaves dust: rejected).
// Returns the trace line (without the leading "op <dt>") including the result class.
func c08Bid(f *c08Fix, ctx sdk.Context, tr *tracer, id uint64, amtClass int, share int64, tick bool) string {
	a := f.a
	if tick { // the real block hook of the auction module: price update / restart (no limit bids are ever deposited)
		safely(func() { auctionsV2.BeginBlocker(ctx, a.NewaucKeeper) })
	}
	au, lv, found := c08AuctionOf(f, ctx, id)
	aid := uint64(7777)
	amt := sdk.NewInt(1000000)
	denom := f.denoms[0]
	if found {
		aid = au.AuctionId
		denom = au.DebtToken.Denom
		rem := au.DebtToken.Amount
		switch amtClass {
		case 0:
			amt = rem.MulRaw(3)
		case 1:
			amt = rem
		case 2:
			amt = rem.MulRaw(share).QuoRaw(100)
		case 3:
			amt = sdk.NewInt(1)
		default:
			amt = rem.SubRaw(1)
		}
		if !amt.IsPositive() {
			amt = sdk.NewInt(1)
		}
	}
	msg := &auctypes.MsgPlaceMarketBidRequest{AuctionId: aid, Bidder: c08Bidder().String(), Amount: sdk.Coin{Denom: denom, Amount: amt}}
	var owner sdk.AccAddress
	ownerNo := 0
	collDenom := f.denoms[0]
	if found {
		owner, _ = sdk.AccAddressFromBech32(lv.Owner)
		ownerNo = f.userNo[lv.Owner]
		collDenom = au.CollateralToken.Denom
	}
	before := sdk.ZeroInt()
	if found {
		before = bal(a, ctx, owner, collDenom)
	}
	bidID0 := a.NewaucKeeper.GetUserBidID(ctx)
	// a dry run on a throw-away context tells how far a failing bid got: CreateUserBid (the bid counter) is the last
	// step before MsgCloseDutchAuctionForBorrow, the return of unsold collateral to the owner comes before it
	reached := false
	backDry := sdk.ZeroInt()
	if found {
		cc, _ := ctx.CacheContext()
		if h := a.MsgServiceRouter().Handler(msg); h != nil {
			safely(func() { _, _ = h(cc, msg) })
		}
		reached = a.NewaucKeeper.GetUserBidID(cc) > bidID0
		backDry = bal(a, cc, owner, collDenom).Sub(before)
	}
	class, xerr, _ := execMsg(a, ctx, msg)
	if xerr != nil && envInt("VERIF_DEBUG", 0) == 1 {
		tr.p("# %s", xerr.Error())
	}
	if !found {
		return fmt.Sprintf("aucbid %d 0 %s", id, class)
	}
	_, _, still := c08AuctionOf(f, ctx, id)
	switch {
	case class == "ok" && still:
		return fmt.Sprintf("aucbid %d 1 ok", id)
	case class == "ok":
		back := bal(a, ctx, owner, collDenom).Sub(before)
		return fmt.Sprintf("aucclose %d %s %d %s ok", id, lv.TargetDebt.Amount, ownerNo, back)
	case reached: // a closing bid that failed inside (or after) the close
		return fmt.Sprintf("aucclose %d %s %d %s %s", id, lv.TargetDebt.Amount, ownerNo, backDry, class)
	default: // rejected by the auction before the close
		d := 0
		if class == "panic" {
			d = 2
		}
		return fmt.Sprintf("aucbid %d %d %s", id, d, class)
	}
}

// MsgRepayWithdraw: the env of the CloseBorrow half is measured on the message's pre-state, the env of the
// WithdrawAsset half on a throw-away context after that CloseBorrow
func c08RepayWithdrawLine(f *c08Fix, ctx sdk.Context, un int, us string, b lendtypes.BorrowAsset) string {
	k := f.a.LendKeeper
	e := c08BI(f, ctx, b.ID)
	ipb := "0"
	cc, _ := ctx.CacheContext()
	var err error
	p, _ := safely(func() { err = k.CloseBorrow(cc, us, b.ID) })
	if !p && err == nil {
		ipb = c08Ipb(f, cc, b.LendingID)
	}
	return fmt.Sprintf("repaywithdraw %d %d %s %s", un, b.ID, e, ipb)
}

// the ENV of a generation-1 hand-over (x/liquidation MsgLiquidateBorrow), measured on a dry run of the message
// itself: result d (0 ok without hand-over, 1 handed over, 2 error, 3 panic), interest added, coins sent to the
// generation-1 auction module account, penalty sent to the reserve, total deduction (= cTokens burnt)
func c08V1Env(f *c08Fix, ctx sdk.Context, id uint64, msg sdk.Msg) string {
	a := f.a
	k := a.LendKeeper
	b0, found := k.GetBorrow(ctx, id)
	if !found {
		return fmt.Sprintf("handoverv1 %d 2 0 0 0 0", id)
	}
	pair, _ := k.GetLendPair(ctx, b0.PairID)
	rin, _ := k.GetAssetRatesParams(ctx, pair.AssetIn)
	din, cden := f.idDenom[pair.AssetIn], f.idDenom[rin.CAssetID]
	cc, _ := ctx.CacheContext()
	var err error
	pn := true
	if h := a.MsgServiceRouter().Handler(msg); h != nil {
		pn, _ = safely(func() { _, err = h(cc, msg) })
	}
	switch {
	case pn:
		return fmt.Sprintf("handoverv1 %d 3 0 0 0 0", id)
	case err != nil:
		return fmt.Sprintf("handoverv1 %d 2 0 0 0 0", id)
	}
	b1, _ := k.GetBorrow(cc, id)
	if !b1.IsLiquidated {
		return fmt.Sprintf("handoverv1 %d 0 0 0 0 0", id)
	}
	v1mod := modAddr(auctionv1types.ModuleName)
	return fmt.Sprintf("handoverv1 %d 1 %s %s %s %s", id, b1.InterestAccumulated.Sub(b0.InterestAccumulated).BigInt(),
		bal(a, cc, v1mod, din).Sub(bal(a, ctx, v1mod, din)),
		bal(a, cc, modAddr(lendtypes.ModuleName), din).Sub(bal(a, ctx, modAddr(lendtypes.ModuleName), din)),
		supply(a, ctx, cden).Sub(supply(a, cc, cden)))
}

func c08FundAmount(cr *rng) *big.Int {
	return c08Pick(cr, []*big.Int{c08bi(1), c08bi(int64(1000 + cr.intn(100000000))), c08bi(int64(1000000 + cr.intn(2000000000))), c08bi(3000000000000)})
}

// C08 regression corpus (scripted), the close of a handed-over position:
//   case 0  finding C08-F3 (a): a same-pool position accrues interest for 30 days, is handed over and closed.  The
//           auction recovers principal + ordinary penalty; the close forwards the reserve share of the interest and
//           raises TotalInterestAccumulated (mints cTokens) for the rest although no interest was recovered.
//   case 1  finding C08-F3 (b): an e-mode pair whose e-mode penalty (0.08) is above the ordinary one (0.05), closed at
//           once (no interest): the auction collected 5 %, the close forwards 8 % of the principal to the reserve.
//   case 2  finding C10-F7 seen from the lend books: a cross-pool position that pledged its lend position's whole
//           AmountIn; the hand-over deletes the lend record, every closing bid panics, the position stays flagged.
func TestC08Close(t *testing.T) {
	tr := newTracer(t, "c08c.trace")
	defer tr.close()
	f, base := c08Setup(t, tr)
	a := f.a
	k := a.LendKeeper
	A := f.assets
	p1, p2 := f.pools[0], f.pools[1]
	pairOf := func(in, out uint64, inter bool) uint64 {
		for _, p := range f.pairs {
			if p.AssetIn == in && p.AssetOut == out && p.IsInterPool == inter {
				return p.Id
			}
		}
		t.Fatalf("no pair %d -> %d", in, out)
		return 0
	}
	u1, u2, u3 := f.users[0].String(), f.users[1].String(), f.users[2].String()
	c := func(asset uint64, amt int64) sdk.Coin { return sdk.NewCoin(f.idDenom[asset], sdk.NewInt(amt)) }
	var ctx sdk.Context
	run := func(line string, msg sdk.Msg) {
		class, xerr, _ := execMsg(a, ctx, msg)
		if xerr != nil {
			tr.p("# %s", xerr.Error())
		}
		tr.p("op 0 %s %s", line, class)
		c08Project(f, ctx, tr)
	}
	report := func(what string, pool uint64, asset uint64) {
		pl, _ := k.GetPool(ctx, pool)
		st, _ := k.GetAssetStatsByPoolIDAndAssetID(ctx, pool, asset)
		tr.p("# %s: pool balance %s reserve balance %s total_lend %s total_borrowed %s total_interest_accumulated %s ctoken supply %s", what,
			bal(a, ctx, modAddr(pl.ModuleName), f.idDenom[asset]), bal(a, ctx, modAddr(lendtypes.ModuleName), f.idDenom[asset]),
			st.TotalLend, st.TotalBorrowed, st.TotalInterestAccumulated, supply(a, ctx, f.idDenom[f.cassets[asset-f.assets[0]]]))
	}
	crash := func(asset uint64, p uint64) {
		setPrice(a, ctx, asset, p, true)
		tr.p("op 0 setprice %d %d ok", asset, p)
		c08Project(f, ctx, tr)
	}
	handover := func(id uint64, who string) {
		d, dint := c08LiqEnv(f, ctx, id)
		run(fmt.Sprintf("handover %d %d %s", id, d, dint), &liqV2types.MsgLiquidateInternalKeeperRequest{From: who, LiqType: 1, Id: id})
	}
	bid := func(id uint64) {
		line := c08Bid(f, ctx, tr, id, 0, 50, true)
		tr.p("op 0 %s", line)
		c08Project(f, ctx, tr)
	}

	// ---- case 0: interest accrued before the hand-over
	ctx, _ = base.CacheContext()
	now := baseTime
	ctx = ctx.WithBlockTime(now).WithBlockHeight(3)
	tr.p("case 0 9")
	c08Project(f, ctx, tr)
	run(fmt.Sprintf("lend 2 %d %d 1000000000 %d %d 0", A[2], A[2], p1, f.app), lendtypes.NewMsgLend(u2, A[2], c(A[2], 1000000000), p1, f.app))
	run(fmt.Sprintf("lend 1 %d %d 2000000000 %d %d 0", A[1], A[1], p1, f.app), lendtypes.NewMsgLend(u1, A[1], c(A[1], 2000000000), p1, f.app))
	pid := pairOf(A[1], A[2], false)
	run(fmt.Sprintf("borrow 1 2 %d false %d 1000000000 %d 900000 0 0 0 0 0 0", pid, f.cassets[1], A[2]),
		lendtypes.NewMsgBorrow(u1, 2, pid, false, c(f.cassets[1], 1000000000), c(A[2], 900000)))
	now = now.Add(30 * 24 * 3600 * 1e9)
	ctx = ctx.WithBlockTime(now).WithBlockHeight(4)
	run(fmt.Sprintf("calc 1 1 %s 1 %s", c08BI(f, ctx, 1), c08Ipb(f, ctx, 2)), lendtypes.NewMsgCalculateInterestAndRewards(u1))
	crash(A[1], 700000)
	handover(1, u2)
	report("before the close", p1, A[2])
	bid(1)
	report("after the close", p1, A[2])
	// nothing of asset 3 is lent out any more, yet its only lender cannot take its 1 000 000 000 coins back
	run(fmt.Sprintf("closelend 2 1 %s", c08Ipb(f, ctx, 1)), lendtypes.NewMsgCloseLend(u2, 1))

	// ---- case 1: e-mode pair, no interest
	ctx, _ = base.CacheContext()
	ctx = ctx.WithBlockTime(baseTime).WithBlockHeight(3)
	tr.p("case 1 6")
	c08Project(f, ctx, tr)
	run(fmt.Sprintf("lend 2 %d %d 1000000000 %d %d 0", A[2], A[2], p1, f.app), lendtypes.NewMsgLend(u2, A[2], c(A[2], 1000000000), p1, f.app))
	run(fmt.Sprintf("lend 3 %d %d 1000000000 %d %d 0", A[0], A[0], p1, f.app), lendtypes.NewMsgLend(u3, A[0], c(A[0], 1000000000), p1, f.app))
	var epid uint64
	for _, p := range f.pairs {
		if p.IsEModeEnabled {
			epid = p.Id
		}
	}
	run(fmt.Sprintf("borrow 3 2 %d false %d 500000000 %d 1000000 0 0 0 0 0 0", epid, f.cassets[0], A[2]),
		lendtypes.NewMsgBorrow(u3, 2, epid, false, c(f.cassets[0], 500000000), c(A[2], 1000000)))
	crash(A[0], 1000000)
	handover(1, u2)
	report("before the close", p1, A[2])
	bid(1)
	report("after the close", p1, A[2])

	// ---- case 2: cross-pool position on a lend position that pledged everything
	ctx, _ = base.CacheContext()
	ctx = ctx.WithBlockTime(baseTime).WithBlockHeight(3)
	tr.p("case 2 8")
	c08Project(f, ctx, tr)
	run(fmt.Sprintf("lend 2 %d %d 2000000000 %d %d 0", A[3], A[3], p2, f.app), lendtypes.NewMsgLend(u2, A[3], c(A[3], 2000000000), p2, f.app))
	run(fmt.Sprintf("lend 2 %d %d 1000000000 %d %d 0", A[2], A[2], p1, f.app), lendtypes.NewMsgLend(u2, A[2], c(A[2], 1000000000), p1, f.app))
	run(fmt.Sprintf("lend 1 %d %d 1000000000 %d %d 0", A[1], A[1], p1, f.app), lendtypes.NewMsgLend(u1, A[1], c(A[1], 1000000000), p1, f.app))
	xpid := pairOf(A[1], A[3], true)
	run(fmt.Sprintf("borrow 1 3 %d false %d 1000000000 %d 1000000000 0 0 0 0 0 0", xpid, f.cassets[1], A[3]),
		lendtypes.NewMsgBorrow(u1, 3, xpid, false, c(f.cassets[1], 1000000000), c(A[3], 1000000000)))
	crash(A[1], 600000)
	handover(1, u2)
	bid(1)
	bid(1)
	b, found := k.GetBorrow(ctx, 1)
	_, lfound := k.GetLend(ctx, 3)
	tr.p("# after two closing bids: borrow 1 found %v liquidated %v bridged %s; lend 3 found %v", found, b.IsLiquidated, b.BridgedAssetAmount, lfound)

	// ---- case 3: finding C08-F4, the generation-1 hand-over message (x/liquidation MsgLiquidateBorrow, still routed)
	ctx, _ = base.CacheContext()
	ctx = ctx.WithBlockTime(baseTime).WithBlockHeight(3)
	tr.p("case 3 5")
	c08Project(f, ctx, tr)
	run(fmt.Sprintf("lend 2 %d %d 1000000000 %d %d 0", A[2], A[2], p1, f.app), lendtypes.NewMsgLend(u2, A[2], c(A[2], 1000000000), p1, f.app))
	run(fmt.Sprintf("lend 1 %d %d 2000000000 %d %d 0", A[1], A[1], p1, f.app), lendtypes.NewMsgLend(u1, A[1], c(A[1], 2000000000), p1, f.app))
	run(fmt.Sprintf("borrow 1 2 %d false %d 1000000000 %d 900000 0 0 0 0 0 0", pid, f.cassets[1], A[2]),
		lendtypes.NewMsgBorrow(u1, 2, pid, false, c(f.cassets[1], 1000000000), c(A[2], 900000)))
	crash(A[1], 700000)
	report("before the generation-1 hand-over", p1, A[2])
	v1msg := &liqv1types.MsgLiquidateBorrowRequest{From: u2, BorrowId: 1}
	run(c08V1Env(f, ctx, 1, v1msg), v1msg)
	report("after the generation-1 hand-over", p1, A[2])
	b, _ = k.GetBorrow(ctx, 1)
	l2, _ := k.GetLend(ctx, 2)
	st2, _ := k.GetAssetStatsByPoolIDAndAssetID(ctx, p1, A[1])
	tr.p("# borrow 1: liquidated %v amount_in %s amount_out %s; lend 2: amount_in %s available %s; total_lend of asset 2 %s", b.IsLiquidated, b.AmountIn.Amount,
		b.AmountOut.Amount, l2.AmountIn.Amount, l2.AvailableToBorrow, st2.TotalLend)
}
