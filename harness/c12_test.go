//go:build verif

package verifharness

import (
	"crypto/sha256"
	"encoding/hex"
	"encoding/json"
	"errors"
	"fmt"
	"os"
	"reflect"
	"strings"
	"testing"

	wasmvmtypes "github.com/CosmWasm/wasmvm/types"
	sdk "github.com/cosmos/cosmos-sdk/types"
	sdkerrors "github.com/cosmos/cosmos-sdk/types/errors"

	chain "github.com/comdex-official/comdex/app"
	comdexwasm "github.com/comdex-official/comdex/app/wasm"
	"github.com/comdex-official/comdex/app/wasm/bindings"
	esmtypes "github.com/comdex-official/comdex/x/esm/types"
	lendtypes "github.com/comdex-official/comdex/x/lend/types"
	lockertypes "github.com/comdex-official/comdex/x/locker/types"
	markettypes "github.com/comdex-official/comdex/x/market/types"
	vaulttypes "github.com/comdex-official/comdex/x/vault/types"
)

// c12ErrKind maps an error to a small enum by identity of the registered error (never by text).
func c12ErrKind(err error) string {
	switch {
	case err == nil:
		return "none"
	case errors.Is(err, esmtypes.ErrESMAlreadyExecuted):
		return "esm"
	case errors.Is(err, esmtypes.ErrCircuitBreakerEnabled):
		return "breaker"
	case errors.Is(err, esmtypes.ErrCoolOffPeriodPassed):
		return "cooloff"
	case errors.Is(err, vaulttypes.ErrVaultAccessUnauthorised), errors.Is(err, lockertypes.ErrorUnauthorized),
		errors.Is(err, lendtypes.ErrLendAccessUnauthorized), errors.Is(err, sdkerrors.ErrUnauthorized),
		errors.Is(err, esmtypes.ErrorUnauthorized):
		return "unauth"
	case errors.Is(err, markettypes.ErrorPriceNotActive):
		return "price"
	}
	return "other"
}

// c12RunMsg executes one message on its own branch of ctx and reports class, error kind and
// whether the digest of all DeFi stores + bank changed on the PARENT context (it changes only if
// execMsg committed the branch).
func c12RunMsg(a *chain.App, ctx sdk.Context, msg sdk.Msg) (cls, kind string, changed bool) {
	before := storeDigest(a, ctx)
	cls, err, _ := execMsg(a, ctx, msg)
	after := storeDigest(a, ctx)
	return cls, c12ErrKind(err), before != after
}

// the designated governance contracts (decoded from the same bech32 strings the chain compares against)
var c12Gov = map[string][2]string{
	"comdex-1": {"comdex17p9rzwnnfxcjp32un9ug7yhhzgtkhvl9jfksztgw5uh69wac2pgs4jg6dx",
		"comdex1nc5tatafv6eyq7llkr2gv50ff9e22mnf70qgjlv737ktmt4eswrqdfklyz"},
	"comdex-test3": {"comdex1qwlgtx52gsdu7dtp0cekka5zehdl0uj3fhp9acg325fvgs8jdzksjvgq6q",
		"comdex1ghd753shjuwexxywmgs4xz7x2q732vcnkm6h2pyv9s6ah3hylvrqfy9rd8"},
}

func c12SetPrefixes() {
	cfg := sdk.GetConfig()
	cfg.SetBech32PrefixForAccount(chain.AccountAddressPrefix, chain.AccountPubKeyPrefix)
	cfg.SetBech32PrefixForValidator(chain.ValidatorAddressPrefix, chain.ValidatorPubKeyPrefix)
	cfg.SetBech32PrefixForConsensusNode(chain.ConsensusNodeAddressPrefix, chain.ConsensusNodePubKeyPrefix)
}

// c12WasmVariants: the closed list of custom message variants, read off the real bindings type by
// reflection, each with a JSON body holding a zero-valued payload of that variant.
func c12WasmVariants(t *testing.T) (names []string, bodies [][]byte) {
	rt := reflect.TypeOf(bindings.ComdexMessages{})
	for i := 0; i < rt.NumField(); i++ {
		v := reflect.New(rt).Elem()
		v.Field(i).Set(reflect.New(rt.Field(i).Type.Elem()))
		body, err := json.Marshal(v.Interface())
		if err != nil {
			// a payload with a nil big integer: fall back to an empty object under the variant's json tag
			tag := rt.Field(i).Tag.Get("json")
			for j := 0; j < len(tag); j++ {
				if tag[j] == ',' {
					tag = tag[:j]
					break
				}
			}
			body = []byte(`{"` + tag + `":{}}`)
		}
		names = append(names, rt.Field(i).Name)
		bodies = append(bodies, body)
	}
	return
}

// c12VictimDigest: the balances of one position owner and every position record of his (fetched
// through the keepers by the ids of his view).  "A non-owner's message does not touch them."
func c12VictimDigest(a *chain.App, ctx sdk.Context, v *c12World) string {
	h := sha256.New()
	p := func(x ...interface{}) { fmt.Fprintln(h, x...) }
	p(a.BankKeeper.GetAllBalances(ctx, v.Owner).String())
	va, f1 := a.VaultKeeper.GetVault(ctx, v.VaultID)
	p("vault", f1, va.String())
	lo, f2 := a.LockerKeeper.GetLocker(ctx, v.LockerID)
	p("locker", f2, lo.String())
	l1, f3 := a.LendKeeper.GetLend(ctx, v.LendID)
	p("lend", f3, l1.String())
	l2, f4 := a.LendKeeper.GetLend(ctx, v.BorrowLendID)
	p("lendB", f4, l2.String())
	bo, f5 := a.LendKeeper.GetBorrow(ctx, v.BorrowID)
	p("borrow", f5, bo.String())
	for _, id := range append([]uint64{v.OrderID}, v.MMOrderIDs...) {
		o, f := a.LiquidityKeeper.GetOrder(ctx, v.LiqApp, v.LiqPair, id)
		p("order", id, f, o.String())
	}
	af, f6 := a.LiquidityKeeper.GetActiveFarmer(ctx, v.LiqApp, v.LiqPool, v.Owner)
	p("afarm", f6, af.String())
	qf, f7 := a.LiquidityKeeper.GetQueuedFarmer(ctx, v.LiqApp, v.LiqPool, v.Owner)
	p("qfarm", f7, qf.String())
	bd, f8 := a.NewaucKeeper.GetUserLimitBidData(ctx, v.BidDebtAsset, v.BidCollateralAsset, v.BidPremium, v.Owner.String())
	p("bid", f8, bd.String())
	return hex.EncodeToString(h.Sum(nil))[:24]
}

// the position-id fields of the messages and the kind of position each names
var c12IDFieldKind = map[string]string{"UserVaultId": "vault", "LockerId": "locker", "LendId": "lend", "BorrowId": "borrow", "OrderId": "order"}

// c12NamedIDs: (kind, id) for every position-id field of the message (read off the struct by reflection)
func c12NamedIDs(msg sdk.Msg) map[string]uint64 {
	out := map[string]uint64{}
	rv := reflect.ValueOf(msg)
	if rv.Kind() == reflect.Ptr {
		rv = rv.Elem()
	}
	if rv.Kind() != reflect.Struct {
		return out
	}
	for i := 0; i < rv.NumField(); i++ {
		if k, ok := c12IDFieldKind[rv.Type().Field(i).Name]; ok && rv.Field(i).Kind() == reflect.Uint64 {
			out[k] = rv.Field(i).Uint()
		}
	}
	return out
}

// c12Collides: the signer (a position owner, view s) owns a position of ANOTHER kind whose numeric
// id equals an id named by the message
func c12Collides(msg sdk.Msg, s *c12World) bool {
	own := map[string][]uint64{"vault": {s.VaultID}, "locker": {s.LockerID}, "lend": {s.LendID, s.BorrowLendID}, "borrow": {s.BorrowID}, "order": {s.OrderID}}
	for kind, id := range c12NamedIDs(msg) {
		for k2, ids := range own {
			if k2 == kind {
				continue
			}
			for _, x := range ids {
				if x == id {
					return true
				}
			}
		}
	}
	return false
}

// TestC12: (1) every message of the five msg servers, naming the positions of EVERY one of three
// position owners whose position ids are deliberately misaligned across kinds (c12Orders), signed by
// the owner, by each of the two OTHER position owners (who own a position of another kind with the
// same numeric id and one of the same kind with another id), by an account that owns nothing and
// by a fresh funded account; (2) every custom wasm message variant x chain id x sender through the
// real CustomMessenger, (3) the kill switch x {admin, others}.
func TestC12(t *testing.T) {
	// the chain compares contractAddr.String() with "comdex1..." literals: use the chain's own
	// bech32 prefixes (the test app otherwise runs with the SDK default "cosmos")
	c12SetPrefixes()
	a, base := newApp(t)
	tr := newTracer(t, "c12.trace")
	defer tr.close()
	r := newRng(seed())
	only := envInt("VERIF_CASE", -1)
	hist := envInt("VERIF_HIST", 2) // history variants per (message, owner, signer)
	views := c12SetupN(t, a, base, 3)
	w := views[0]
	ci := 0
	for _, v := range views {
		tr.p("# owner %d: vault %d locker %d lend %d lendB %d borrow %d order %d", v.OwnerIdx, v.VaultID, v.LockerID, v.LendID, v.BorrowLendID, v.BorrowID, v.OrderID)
	}

	// ---------- (1) position messages ----------
	// Case ids do not depend on VERIF_HIST / VERIF_FOCUS: id = (((owner*nmsgs + message)*nsig + signer)*c12HistMax + history variant),
	// and the random parameters of a case come from a PRNG derived from (seed, id) - so VERIF_CASE=<id> re-runs
	// exactly that case whatever budget the run that found it had.
	const c12HistMax = 64
	if hist > c12HistMax {
		hist = c12HistMax
	}
	focus := map[string]bool{}
	for _, h := range strings.Split(os.Getenv("VERIF_FOCUS"), ",") {
		if h = strings.TrimSpace(h); h != "" {
			focus[h] = true
		}
	}
	if len(focus) > 0 && only < 0 {
		tr.p("# focus %s", os.Getenv("VERIF_FOCUS")) // tells the runner that the other handlers were left out on purpose
	}
	nmsgs := len(c12Messages(w, w.Owner))
	nsig := len(views) + 2
	for oi, v := range views {
		for mi := 0; mi < nmsgs; mi++ {
			if len(focus) > 0 && only < 0 && !focus[c12Messages(v, v.Owner)[mi].Handler] {
				continue // a directed search concentrates on the handlers of the broken table rows
			}
			// signer index: 0 = the owner, 1..2 = the other position owners, 3 = an account owning nothing, 4 = fresh funded account
			for si := 0; si < nsig; si++ {
				for hv := 0; hv < c12HistMax; hv++ {
					id := ((oi*nmsgs+mi)*nsig+si)*c12HistMax + hv
					if only >= 0 && id != only {
						continue
					}
					if only < 0 && hv >= hist {
						break
					}
					cr := newRng(seed()*1000003 + uint64(id))
					third := addrN(100 + cr.intn(50))
					hlen := 0
					if hv > 0 {
						hlen = 1 + cr.intn(3)
					}
					hidx := make([]int, hlen)
					for i := range hidx {
						hidx[i] = cr.intn(nmsgs)
					}
					ctx, _ := v.Ctx.CacheContext()
					signer := v.Owner
					var sview *c12World // the signer's own positions, when it has any
					switch {
					case si == 0:
						sview = v
					case si < len(views):
						sview = views[(oi+si)%len(views)]
						signer = sview.Owner
					case si == len(views):
						signer = v.Other1
					default:
						signer = third
						fund(t, a, ctx, third, a.BankKeeper.GetAllBalances(ctx, v.Other2))
					}
					// a reachable state: a short history of the owner's own (successful or not) operations
					nok := 0
					for _, hi := range hidx {
						hm := c12Messages(v, v.Owner)[hi]
						if hm.Handler == "vault.MsgClose" || hm.Handler == "locker.MsgCloseLocker" || hm.Handler == "lend.CloseLend" ||
							hm.Handler == "lend.CloseBorrow" || hm.Handler == "lend.RepayWithdraw" || hm.Handler == "liquidity.CancelOrder" ||
							hm.Handler == "liquidity.CancelAllOrders" || hm.Handler == "auctionsV2.MsgCancelLimitBid" {
							continue // keep the positions alive so that the case stays meaningful
						}
						if cls, _, _ := execMsg(a, ctx, hm.Msg); cls == "ok" {
							nok++
						}
					}
					m := c12Messages(v, signer)[mi]
					// reference: does the same message, signed by the owner, succeed in this state?
					refCtx, _ := ctx.CacheContext()
					ownerCls, _, _ := execMsg(a, refCtx, c12Messages(v, v.Owner)[mi].Msg)
					vb := c12VictimDigest(a, ctx, v)
					cls, kind, changed := c12RunMsg(a, ctx, m.Msg)
					victimChanged := si != 0 && vb != c12VictimDigest(a, ctx, v)
					coll := sview != nil && si != 0 && c12Collides(m.Msg, sview)
					tr.p("case %d pos %s %s %d %d %s %s %s %s %d %s %s %s", id, m.Handler, b2s(m.NamesPosition), si, nok, ownerCls, cls, kind, b2s(changed),
						oi, b2s(sview != nil), b2s(coll), b2s(victimChanged))
					// for the replay file: the message, the named owner's position ids, the signer's own
					tr.p("  msg %T %s", m.Msg, m.Msg.String())
					tr.p("  named-owner %d %s: vault %d locker %d lend %d lendB %d borrow %d (on lend %d) order %d", oi, v.Owner, v.VaultID, v.LockerID, v.LendID, v.BorrowLendID, v.BorrowID, v.BorrowLendID, v.OrderID)
					if sview != nil && si != 0 {
						tr.p("  signer %s owns: vault %d locker %d lend %d lendB %d borrow %d order %d", signer, sview.VaultID, sview.LockerID, sview.LendID, sview.BorrowLendID, sview.BorrowID, sview.OrderID)
					} else if si != 0 {
						tr.p("  signer %s owns no position", signer)
					}
					for _, hi := range hidx {
						tr.p("  history-of-owner %s", c12Messages(v, v.Owner)[hi].Handler)
					}
				}
			}
		}
	}

	ci = len(views) * nmsgs * nsig * c12HistMax
	// ---------- (2) custom wasm messages ----------
	messenger := comdexwasm.CustomMessageDecorator(a.LockerKeeper, a.Rewardskeeper, a.AssetKeeper, a.CollectorKeeper, a.LiquidationKeeper,
		a.AuctionKeeper, a.TokenmintKeeper, a.EsmKeeper, a.VaultKeeper, a.LiquidityKeeper)(nil)
	names, bodies := c12WasmVariants(t)
	chains := []string{"comdex-1", "comdex-test3", "verif-1", "comdex-2"}
	for vi := range names {
		for _, ch := range chains {
			for sk := 0; sk < 4; sk++ {
				rnd := addrN(200 + r.intn(1000))
				id := ci
				ci++
				if only >= 0 && id != only {
					continue
				}
				gov, named := c12Gov[ch]
				if !named {
					gov = c12Gov["comdex-1"]
				}
				var sender sdk.AccAddress
				switch sk {
				case 0, 1:
					s, err := sdk.AccAddressFromBech32(gov[sk])
					if err != nil {
						t.Fatalf("bech32 %s: %v", gov[sk], err)
					}
					sender = s
				case 2:
					// the designated contract of the OTHER named network
					other := c12Gov["comdex-test3"]
					if ch == "comdex-test3" {
						other = c12Gov["comdex-1"]
					}
					s, _ := sdk.AccAddressFromBech32(other[0])
					sender = s
				default:
					sender = rnd
				}
				ctx, _ := w.Ctx.CacheContext()
				ctx = ctx.WithChainID(ch)
				before := storeDigest(a, ctx)
				var err error
				panicked, _ := safely(func() {
					cctx, write := ctx.CacheContext()
					_, _, err = messenger.DispatchMsg(cctx, sender, "", wasmvmtypes.CosmosMsg{Custom: bodies[vi]})
					if err == nil {
						write()
					}
				})
				after := storeDigest(a, ctx)
				cls := "ok"
				if panicked {
					cls = "panic"
				} else if err != nil {
					cls = "err"
				}
				// rejected by the ladder = exactly the unwrapped ErrInvalidAddress it returns
				accepted := panicked || err != sdkerrors.ErrInvalidAddress
				tr.p("case %d wasm %s %s %s %s %s %s", id, names[vi], ch, sender.String(), b2s(accepted), cls, b2s(before != after))
			}
		}
	}

	// ---------- (3) kill switch ----------
	admins := a.EsmKeeper.AdminParam(w.Ctx)
	for k := 0; k < 6; k++ {
		rnd := addrN(300 + r.intn(1000))
		enable := r.chance(50)
		id := ci
		ci++
		if only >= 0 && id != only {
			continue
		}
		from, isAdmin := rnd.String(), false
		switch k {
		case 0:
			if len(admins) > 0 {
				from, isAdmin = admins[0], true
			}
		case 1:
			from = w.Owner.String()
		case 2:
			from = c12Gov["comdex-1"][0]
		}
		ctx, _ := w.Ctx.CacheContext()
		msg := &esmtypes.MsgKillRequest{From: from, KillSwitchParams: &esmtypes.KillSwitchParams{AppId: w.VaultApp, BreakerEnable: enable}}
		cls, kind, changed := c12RunMsg(a, ctx, msg)
		tr.p("case %d kill %s %s %s %s %s", id, b2s(isAdmin), b2s(enable), cls, kind, b2s(changed))
	}
}
