//go:build verif

package verifharness

import (
	"encoding/json"
	"errors"
	"reflect"
	"testing"

	wasmvmtypes "github.com/CosmWasm/wasmvm/types"
	sdk "github.com/cosmos/cosmos-sdk/types"
	sdkerrors "github.com/cosmos/cosmos-sdk/types/errors"

	chain "github.com/comdex-official/comdex/app"
	comdexwasm "github.com/comdex-official/comdex/app/wasm"
	"github.com/comdex-official/comdex/app/wasm/bindings"
	esmtypes "github.com/comdex-official/comdex/x/esm/types"
	lendtypes "github.com/comdex-official/comdex/x/lend/types"
	lockertypes "github.com/comdex-official/comdex/x/locker/types"
	markettypes "github.com/comdex-official/comdex/x/market/types"
	vaulttypes "github.com/comdex-official/comdex/x/vault/types"
)

// c12ErrKind maps an error to a small enum by identity of the registered error (never by text).
func c12ErrKind(err error) string {
	switch {
	case err == nil:
		return "none"
	case errors.Is(err, esmtypes.ErrESMAlreadyExecuted):
		return "esm"
	case errors.Is(err, esmtypes.ErrCircuitBreakerEnabled):
		return "breaker"
	case errors.Is(err, esmtypes.ErrCoolOffPeriodPassed):
		return "cooloff"
	case errors.Is(err, vaulttypes.ErrVaultAccessUnauthorised), errors.Is(err, lockertypes.ErrorUnauthorized),
		errors.Is(err, lendtypes.ErrLendAccessUnauthorized), errors.Is(err, sdkerrors.ErrUnauthorized),
		errors.Is(err, esmtypes.ErrorUnauthorized):
		return "unauth"
	case errors.Is(err, markettypes.ErrorPriceNotActive):
		return "price"
	}
	return "other"
}

// c12RunMsg executes one message on its own branch of ctx and reports class, error kind and
// whether the digest of all DeFi stores + bank changed on the PARENT context (it changes only if
// execMsg committed the branch).
func c12RunMsg(a *chain.App, ctx sdk.Context, msg sdk.Msg) (cls, kind string, changed bool) {
	before := storeDigest(a, ctx)
	cls, err, _ := execMsg(a, ctx, msg)
	after := storeDigest(a, ctx)
	return cls, c12ErrKind(err), before != after
}

// the designated governance contracts (decoded from the same bech32 strings the chain compares against)
var c12Gov = map[string][2]string{
	"comdex-1": {"comdex17p9rzwnnfxcjp32un9ug7yhhzgtkhvl9jfksztgw5uh69wac2pgs4jg6dx",
		"comdex1nc5tatafv6eyq7llkr2gv50ff9e22mnf70qgjlv737ktmt4eswrqdfklyz"},
	"comdex-test3": {"comdex1qwlgtx52gsdu7dtp0cekka5zehdl0uj3fhp9acg325fvgs8jdzksjvgq6q",
		"comdex1ghd753shjuwexxywmgs4xz7x2q732vcnkm6h2pyv9s6ah3hylvrqfy9rd8"},
}

func c12SetPrefixes() {
	cfg := sdk.GetConfig()
	cfg.SetBech32PrefixForAccount(chain.AccountAddressPrefix, chain.AccountPubKeyPrefix)
	cfg.SetBech32PrefixForValidator(chain.ValidatorAddressPrefix, chain.ValidatorPubKeyPrefix)
	cfg.SetBech32PrefixForConsensusNode(chain.ConsensusNodeAddressPrefix, chain.ConsensusNodePubKeyPrefix)
}

// c12WasmVariants: the closed list of custom message variants, read off the real bindings type by
// reflection, each with a JSON body holding a zero-valued payload of that variant.
func c12WasmVariants(t *testing.T) (names []string, bodies [][]byte) {
	rt := reflect.TypeOf(bindings.ComdexMessages{})
	for i := 0; i < rt.NumField(); i++ {
		v := reflect.New(rt).Elem()
		v.Field(i).Set(reflect.New(rt.Field(i).Type.Elem()))
		body, err := json.Marshal(v.Interface())
		if err != nil {
			// a payload with a nil big integer: fall back to an empty object under the variant's json tag
			tag := rt.Field(i).Tag.Get("json")
			for j := 0; j < len(tag); j++ {
				if tag[j] == ',' {
					tag = tag[:j]
					break
				}
			}
			body = []byte(`{"` + tag + `":{}}`)
		}
		names = append(names, rt.Field(i).Name)
		bodies = append(bodies, body)
	}
	return
}

// TestC12: (1) every position-related message x {owner, two non-owners} on reachable states,
// (2) every custom wasm message variant x chain id x sender through the real CustomMessenger,
// (3) the kill switch x {admin, others}.
func TestC12(t *testing.T) {
	// the chain compares contractAddr.String() with "comdex1..." literals: use the chain's own
	// bech32 prefixes (the test app otherwise runs with the SDK default "cosmos")
	c12SetPrefixes()
	a, base := newApp(t)
	tr := newTracer(t, "c12.trace")
	defer tr.close()
	r := newRng(seed())
	only := envInt("VERIF_CASE", -1)
	hist := envInt("VERIF_HIST", 2) // history variants per (message, signer)
	w := c12Setup(t, a, base)
	ci := 0

	// ---------- (1) position messages ----------
	nmsgs := len(c12Messages(w, w.Owner))
	for mi := 0; mi < nmsgs; mi++ {
		for si := 0; si < 3; si++ {
			for hv := 0; hv < hist; hv++ {
				// random parameters are drawn for every case, also for skipped ones
				third := addrN(100 + r.intn(50))
				hlen := 0
				if hv > 0 {
					hlen = 1 + r.intn(3)
				}
				hidx := make([]int, hlen)
				for i := range hidx {
					hidx[i] = r.intn(nmsgs)
				}
				id := ci
				ci++
				if only >= 0 && id != only {
					continue
				}
				ctx, _ := w.Ctx.CacheContext()
				signer := w.Owner
				switch si {
				case 1:
					signer = w.Other1
				case 2:
					signer = third
					fund(t, a, ctx, third, a.BankKeeper.GetAllBalances(ctx, w.Other2))
				}
				// a reachable state: a short history of the owner's own (successful or not) operations
				nok := 0
				for _, hi := range hidx {
					hm := c12Messages(w, w.Owner)[hi]
					if hm.Handler == "vault.MsgClose" || hm.Handler == "locker.MsgCloseLocker" || hm.Handler == "lend.CloseLend" ||
						hm.Handler == "lend.CloseBorrow" || hm.Handler == "lend.RepayWithdraw" || hm.Handler == "liquidity.CancelOrder" ||
						hm.Handler == "liquidity.CancelAllOrders" || hm.Handler == "auctionsV2.MsgCancelLimitBid" {
						continue // keep the positions alive so that the case stays meaningful
					}
					if cls, _, _ := execMsg(a, ctx, hm.Msg); cls == "ok" {
						nok++
					}
				}
				m := c12Messages(w, signer)[mi]
				// reference: does the same message, signed by the owner, succeed in this state?
				refCtx, _ := ctx.CacheContext()
				ownerCls, _, _ := execMsg(a, refCtx, c12Messages(w, w.Owner)[mi].Msg)
				cls, kind, changed := c12RunMsg(a, ctx, m.Msg)
				tr.p("case %d pos %s %s %d %d %s %s %s %s", id, m.Handler, b2s(m.NamesPosition), si, nok, ownerCls, cls, kind, b2s(changed))
			}
		}
	}

	// ---------- (2) custom wasm messages ----------
	messenger := comdexwasm.CustomMessageDecorator(a.LockerKeeper, a.Rewardskeeper, a.AssetKeeper, a.CollectorKeeper, a.LiquidationKeeper,
		a.AuctionKeeper, a.TokenmintKeeper, a.EsmKeeper, a.VaultKeeper, a.LiquidityKeeper)(nil)
	names, bodies := c12WasmVariants(t)
	chains := []string{"comdex-1", "comdex-test3", "verif-1", "comdex-2"}
	for vi := range names {
		for _, ch := range chains {
			for sk := 0; sk < 4; sk++ {
				rnd := addrN(200 + r.intn(1000))
				id := ci
				ci++
				if only >= 0 && id != only {
					continue
				}
				gov, named := c12Gov[ch]
				if !named {
					gov = c12Gov["comdex-1"]
				}
				var sender sdk.AccAddress
				switch sk {
				case 0, 1:
					s, err := sdk.AccAddressFromBech32(gov[sk])
					if err != nil {
						t.Fatalf("bech32 %s: %v", gov[sk], err)
					}
					sender = s
				case 2:
					// the designated contract of the OTHER named network
					other := c12Gov["comdex-test3"]
					if ch == "comdex-test3" {
						other = c12Gov["comdex-1"]
					}
					s, _ := sdk.AccAddressFromBech32(other[0])
					sender = s
				default:
					sender = rnd
				}
				ctx, _ := w.Ctx.CacheContext()
				ctx = ctx.WithChainID(ch)
				before := storeDigest(a, ctx)
				var err error
				panicked, _ := safely(func() {
					cctx, write := ctx.CacheContext()
					_, _, err = messenger.DispatchMsg(cctx, sender, "", wasmvmtypes.CosmosMsg{Custom: bodies[vi]})
					if err == nil {
						write()
					}
				})
				after := storeDigest(a, ctx)
				cls := "ok"
				if panicked {
					cls = "panic"
				} else if err != nil {
					cls = "err"
				}
				// rejected by the ladder = exactly the unwrapped ErrInvalidAddress it returns
				accepted := panicked || err != sdkerrors.ErrInvalidAddress
				tr.p("case %d wasm %s %s %s %s %s %s", id, names[vi], ch, sender.String(), b2s(accepted), cls, b2s(before != after))
			}
		}
	}

	// ---------- (3) kill switch ----------
	admins := a.EsmKeeper.AdminParam(w.Ctx)
	for k := 0; k < 6; k++ {
		rnd := addrN(300 + r.intn(1000))
		enable := r.chance(50)
		id := ci
		ci++
		if only >= 0 && id != only {
			continue
		}
		from, isAdmin := rnd.String(), false
		switch k {
		case 0:
			if len(admins) > 0 {
				from, isAdmin = admins[0], true
			}
		case 1:
			from = w.Owner.String()
		case 2:
			from = c12Gov["comdex-1"][0]
		}
		ctx, _ := w.Ctx.CacheContext()
		msg := &esmtypes.MsgKillRequest{From: from, KillSwitchParams: &esmtypes.KillSwitchParams{AppId: w.VaultApp, BreakerEnable: enable}}
		cls, kind, changed := c12RunMsg(a, ctx, msg)
		tr.p("case %d kill %s %s %s %s %s", id, b2s(isAdmin), b2s(enable), cls, kind, b2s(changed))
	}
}
