//go:build verif

package verifharness

// Fixture shared by the C15 and C16 workloads: a port of the repository's own liquidationsV2 /
// auctionsV2 keeper suites (AddAppAssets + CreateVault: 8 assets, 2 lend pools, 3 apps, lends and
// borrows in app 3, an extended pair and two vaults in app 2, liquidation whitelisting and auction
// parameters for both generations) plus a liquidity pair / pool with resting orders in app 1.

import (
	"testing"
	"time"

	sdk "github.com/cosmos/cosmos-sdk/types"

	chain "github.com/comdex-official/comdex/app"
	"github.com/comdex-official/comdex/app/wasm/bindings"
	assettypes "github.com/comdex-official/comdex/x/asset/types"
	auctiontypes "github.com/comdex-official/comdex/x/auction/types"
	auctionsV2types "github.com/comdex-official/comdex/x/auctionsV2/types"
	lendtypes "github.com/comdex-official/comdex/x/lend/types"
	liqV2types "github.com/comdex-official/comdex/x/liquidationsV2/types"
	"github.com/comdex-official/comdex/x/liquidity/amm"
	liquiditytypes "github.com/comdex-official/comdex/x/liquidity/types"
	markettypes "github.com/comdex-official/comdex/x/market/types"
	vaulttypes "github.com/comdex-official/comdex/x/vault/types"
)

type c15Env struct {
	user1, user2 sdk.AccAddress
	assets       []uint64 // uasset1..4, ucasset1..4
	appSwap      uint64   // 1
	appHarbor    uint64   // 2 (vaults)
	appCommodo   uint64   // 3 (lend)
	extPair      uint64
	liqPair      uint64
	liqPool      uint64
	log          []string // result classes of the set-up messages (C16 compares them too)
}

func c15Dec(s string) sdk.Dec { return sdk.MustNewDecFromStr(s) }

func c15Asset(t *testing.T, a *chain.App, ctx sdk.Context, name, denom string, twa uint64) uint64 {
	id := addAsset(t, a, ctx, name, denom, 1000000, true, true)
	a.MarketKeeper.SetTwa(ctx, markettypes.TimeWeightedAverage{AssetID: id, ScriptID: 10, Twa: twa, CurrentIndex: 1, IsPriceActive: true})
	return id
}

func c15SetPrice(a *chain.App, ctx sdk.Context, assetID, price uint64, active bool) {
	a.MarketKeeper.SetTwa(ctx, markettypes.TimeWeightedAverage{AssetID: assetID, ScriptID: 12, Twa: price, CurrentIndex: 0,
		IsPriceActive: active, PriceValue: []uint64{price}})
}

func c15Rates(t *testing.T, a *chain.App, ctx sdk.Context, asset uint64, uopt, base, s1, s2 string, stable bool, sb, ss1, ss2, ltv, lt, lp, lb, rf string, cAsset uint64) {
	err := a.LendKeeper.AddAssetRatesParams(ctx, lendtypes.AssetRatesParams{AssetID: asset, UOptimal: c15Dec(uopt), Base: c15Dec(base), Slope1: c15Dec(s1),
		Slope2: c15Dec(s2), EnableStableBorrow: stable, StableBase: c15Dec(sb), StableSlope1: c15Dec(ss1), StableSlope2: c15Dec(ss2), Ltv: c15Dec(ltv),
		LiquidationThreshold: c15Dec(lt), LiquidationPenalty: c15Dec(lp), LiquidationBonus: c15Dec(lb), ReserveFactor: c15Dec(rf), CAssetID: cAsset})
	if err != nil {
		t.Fatalf("AddAssetRatesParams: %v", err)
	}
}

func c15PoolPairs(t *testing.T, a *chain.App, ctx sdk.Context, asset uint64, uopt, base, s1, s2, ltv, lt, lp, lb, rf string, cAsset uint64, mod, pool string, data []*lendtypes.AssetDataPoolMapping) {
	err := a.LendKeeper.AddAssetRatesPoolPairs(ctx, lendtypes.AssetRatesPoolPairs{AssetID: asset, UOptimal: c15Dec(uopt), Base: c15Dec(base), Slope1: c15Dec(s1),
		Slope2: c15Dec(s2), EnableStableBorrow: false, StableBase: c15Dec("0"), StableSlope1: c15Dec("0"), StableSlope2: c15Dec("0"), Ltv: c15Dec(ltv),
		LiquidationThreshold: c15Dec(lt), LiquidationPenalty: c15Dec(lp), LiquidationBonus: c15Dec(lb), ReserveFactor: c15Dec(rf), CAssetID: cAsset,
		ModuleName: mod, CPoolName: pool, AssetData: data, MinUsdValueLeft: 1000000})
	if err != nil {
		t.Fatalf("AddAssetRatesPoolPairs: %v", err)
	}
}

func c15App(t *testing.T, a *chain.App, ctx sdk.Context, name, short string) uint64 {
	err := a.AssetKeeper.AddAppRecords(ctx, assettypes.AppData{Name: name, ShortName: short, MinGovDeposit: sdk.NewInt(0), GovTimeInSeconds: 0,
		GenesisToken: []assettypes.MintGenesisToken{}})
	if err != nil {
		t.Fatalf("AddAppRecords: %v", err)
	}
	apps, _ := a.AssetKeeper.GetApps(ctx)
	for _, ap := range apps {
		if ap.Name == name {
			return ap.Id
		}
	}
	t.Fatal("app not found")
	return 0
}

// c15Msg executes a message through the router (like baseapp) and logs its result class
func (e *c15Env) msg(t *testing.T, a *chain.App, ctx sdk.Context, must bool, m sdk.Msg) string {
	class, err, _ := execMsg(a, ctx, m)
	e.log = append(e.log, class)
	if must && class != "ok" {
		t.Fatalf("fixture message %T: %s %v", m, class, err)
	}
	return class
}

func c15Fixture(t *testing.T, a *chain.App, ctx sdk.Context) *c15Env {
	e := &c15Env{user1: addrN(101), user2: addrN(102)}
	names := []struct {
		n, d string
		p    uint64
	}{{"ASSETONE", "uasset1", 2000000}, {"ASSETTWO", "uasset2", 2000000}, {"ASSETTHREE", "uasset3", 1000000}, {"ASSETFOUR", "uasset4", 2000000},
		{"CASSETONE", "ucasset1", 1000000}, {"CASSETTWO", "ucasset2", 2000000}, {"CASSETTHRE", "ucasset3", 2000000}, {"CASSETFOUR", "ucasset4", 2000000}}
	for _, x := range names {
		e.assets = append(e.assets, c15Asset(t, a, ctx, x.n, x.d, x.p))
	}
	a1, a2, a3, a4 := e.assets[0], e.assets[1], e.assets[2], e.assets[3]
	c1, c2, c3, c4 := e.assets[4], e.assets[5], e.assets[6], e.assets[7]
	p1a1 := &lendtypes.AssetDataPoolMapping{AssetID: a1, AssetTransitType: 3, SupplyCap: sdk.NewDec(5000000000000000000)}
	p1a2 := &lendtypes.AssetDataPoolMapping{AssetID: a2, AssetTransitType: 1, SupplyCap: sdk.NewDec(1000000000000000000)}
	p1a3 := &lendtypes.AssetDataPoolMapping{AssetID: a3, AssetTransitType: 2, SupplyCap: sdk.NewDec(5000000000000000000)}
	p2a4 := &lendtypes.AssetDataPoolMapping{AssetID: a4, AssetTransitType: 1, SupplyCap: sdk.NewDec(3000000000000000000)}
	c15Rates(t, a, ctx, a3, "0.8", "0.002", "0.06", "0.6", true, "0.04", "0.04", "0.06", "0.8", "0.85", "0.025", "0.025", "0.1", c3)
	c15Rates(t, a, ctx, a1, "0.75", "0.002", "0.07", "1.25", false, "0.0", "0.0", "0.0", "0.7", "0.75", "0.05", "0.05", "0.2", c1)
	c15PoolPairs(t, a, ctx, a2, "0.5", "0.002", "0.08", "2.0", "0.5", "0.55", "0.05", "0.05", "0.2", c2, "cmdx", "CMDX-ATOM-CMST",
		[]*lendtypes.AssetDataPoolMapping{p1a1, p1a2, p1a3})
	c15PoolPairs(t, a, ctx, a4, "0.65", "0.002", "0.08", "1.5", "0.6", "0.65", "0.05", "0.05", "0.2", c4, "osmo", "OSMO-ATOM-CMST",
		[]*lendtypes.AssetDataPoolMapping{p2a4, p1a1, p1a3})

	e.appSwap = c15App(t, a, ctx, "cswap", "cswap")
	e.appHarbor = c15App(t, a, ctx, "harbor", "hbr")
	e.appCommodo = c15App(t, a, ctx, "commodo", "cmdo")
	big := sdk.NewInt(1000000000000000)
	for _, d := range []string{"uasset1", "uasset2", "uasset3", "uasset4"} {
		fund(t, a, ctx, e.user1, sdk.NewCoins(sdk.NewCoin(d, big)))
	}
	for _, d := range []string{"uasset1", "uasset2"} {
		fund(t, a, ctx, e.user2, sdk.NewCoins(sdk.NewCoin(d, big)))
	}
	u1, u2 := e.user1.String(), e.user2.String()
	e.msg(t, a, ctx, true, lendtypes.NewMsgLend(u1, a1, sdk.NewCoin("uasset1", sdk.NewInt(3000000000)), 1, e.appCommodo))
	e.msg(t, a, ctx, true, lendtypes.NewMsgLend(u1, a2, sdk.NewCoin("uasset2", sdk.NewInt(10000000000)), 1, e.appCommodo))
	e.msg(t, a, ctx, true, lendtypes.NewMsgLend(u2, a1, sdk.NewCoin("uasset1", sdk.NewInt(10000000000)), 1, e.appCommodo))
	e.msg(t, a, ctx, false, lendtypes.NewMsgFundModuleAccounts(1, a1, u1, sdk.NewCoin("uasset1", sdk.NewInt(10000000000))))
	e.msg(t, a, ctx, false, lendtypes.NewMsgFundModuleAccounts(1, a2, u1, sdk.NewCoin("uasset2", sdk.NewInt(10000000000))))
	e.msg(t, a, ctx, false, lendtypes.NewMsgFundModuleAccounts(1, a3, u1, sdk.NewCoin("uasset3", sdk.NewInt(120000000))))
	e.msg(t, a, ctx, false, lendtypes.NewMsgFundModuleAccounts(2, a1, u1, sdk.NewCoin("uasset1", sdk.NewInt(10000000000))))
	e.msg(t, a, ctx, false, lendtypes.NewMsgFundModuleAccounts(2, a4, u1, sdk.NewCoin("uasset4", sdk.NewInt(10000000000))))
	e.msg(t, a, ctx, true, lendtypes.NewMsgBorrow(u1, 1, 1, false, sdk.NewCoin("ucasset1", sdk.NewInt(100000000)), sdk.NewCoin("uasset2", sdk.NewInt(70000000))))
	e.msg(t, a, ctx, true, lendtypes.NewMsgBorrow(u2, 3, 1, false, sdk.NewCoin("ucasset1", sdk.NewInt(1000000000)), sdk.NewCoin("uasset2", sdk.NewInt(700000000))))

	pair := addPair(t, a, ctx, a2, a3)
	err := a.AssetKeeper.WasmAddExtendedPairsVaultRecords(ctx, &bindings.MsgAddExtendedPairsVault{AppID: e.appHarbor, PairID: pair,
		StabilityFee: c15Dec("0.01"), ClosingFee: c15Dec("0"), LiquidationPenalty: c15Dec("0.12"), DrawDownFee: c15Dec("0.01"), IsVaultActive: true,
		DebtCeiling: sdk.NewInt(1000000000000), DebtFloor: sdk.NewInt(1000000), MinCr: c15Dec("1.5"), PairName: "CMDX-B", AssetOutOraclePrice: true,
		AssetOutPrice: 1000000, MinUsdValueLeft: 1000000})
	if err != nil {
		t.Fatalf("ext pair: %v", err)
	}
	e.extPair = 1

	dutch := liqV2types.DutchAuctionParam{Premium: c15Dec("0.1"), Discount: c15Dec("0.1"), DecrementFactor: sdk.NewInt(1)}
	english := liqV2types.EnglishAuctionParam{DecrementFactor: sdk.NewInt(1)}
	a.NewliqKeeper.SetLiquidationWhiteListing(ctx, liqV2types.LiquidationWhiteListing{AppId: e.appHarbor, Initiator: true, IsDutchActivated: true,
		DutchAuctionParam: &dutch, IsEnglishActivated: true, EnglishAuctionParam: &english, KeeeperIncentive: c15Dec("0.1")})
	a.NewliqKeeper.SetLiquidationWhiteListing(ctx, liqV2types.LiquidationWhiteListing{AppId: e.appCommodo, Initiator: true, IsDutchActivated: true,
		DutchAuctionParam: &dutch, IsEnglishActivated: false, KeeeperIncentive: c15Dec("0.1")})
	a.NewaucKeeper.SetAuctionParams(ctx, auctionsV2types.AuctionParams{AuctionDurationSeconds: 3600, Step: c15Dec("0.1"), WithdrawalFee: c15Dec("0.0"),
		ClosingFee: c15Dec("0.0"), MinUsdValueLeft: 100000, BidFactor: c15Dec("0.1"), LiquidationPenalty: c15Dec("0.1"), AuctionBonus: c15Dec("0.0")})
	// first generation: whitelist the vault app and give it auction parameters
	if err := a.LiquidationKeeper.WasmWhitelistAppIDLiquidation(ctx, e.appHarbor); err != nil {
		t.Fatalf("v1 whitelist: %v", err)
	}
	a.AuctionKeeper.SetAuctionParams(ctx, auctiontypes.AuctionParams{AppId: e.appHarbor, AuctionDurationSeconds: 300, Buffer: c15Dec("1.2"), Cusp: c15Dec("0.6"),
		Step: sdk.NewIntFromUint64(1), PriceFunctionType: 1, SurplusId: 1, DebtId: 2, DutchId: 3, BidDurationSeconds: 300})

	// two vaults in app 2 (collateral uasset2 at price 2, debt uasset3 at price 1: CR 2.0 >= 1.5)
	e.msg(t, a, ctx, true, &vaulttypes.MsgCreateRequest{From: u1, AppId: e.appHarbor, ExtendedPairVaultId: e.extPair, AmountIn: sdk.NewInt(1000000), AmountOut: sdk.NewInt(1000000)})
	e.msg(t, a, ctx, true, &vaulttypes.MsgCreateRequest{From: u2, AppId: e.appHarbor, ExtendedPairVaultId: e.extPair, AmountIn: sdk.NewInt(1000000), AmountOut: sdk.NewInt(1000000)})

	// liquidity: pair uasset1/uasset4 with a pool and resting limit orders in app 1
	params, err := a.LiquidityKeeper.GetGenericParams(ctx, e.appSwap)
	if err != nil {
		t.Fatalf("liquidity params: %v", err)
	}
	fund(t, a, ctx, e.user1, params.PairCreationFee)
	fund(t, a, ctx, e.user1, params.PoolCreationFee)
	e.msg(t, a, ctx, true, liquiditytypes.NewMsgCreatePair(e.appSwap, e.user1, "uasset1", "uasset4"))
	e.liqPair = 1
	e.msg(t, a, ctx, true, liquiditytypes.NewMsgCreatePool(e.appSwap, e.user1, e.liqPair, sdk.NewCoins(sdk.NewCoin("uasset1", sdk.NewInt(1000000000)), sdk.NewCoin("uasset4", sdk.NewInt(1000000000)))))
	e.liqPool = 1
	// keep the oracle "validated" so that market.BeginBlocker does not deactivate every price
	a.BandoracleKeeper.SetOracleValidationResult(ctx, true)
	return e
}

// c15Order places a limit order (several at the same price exercise the pro-rata fill loop)
func (e *c15Env) order(t *testing.T, a *chain.App, ctx sdk.Context, who sdk.AccAddress, buy bool, price string, amt int64) string {
	p := c15Dec(price)
	dir, ammDir := liquiditytypes.OrderDirectionSell, amm.Sell
	offer, demand := "uasset1", "uasset4"
	if buy {
		dir, ammDir = liquiditytypes.OrderDirectionBuy, amm.Buy
		offer, demand = "uasset4", "uasset1"
	}
	params, _ := a.LiquidityKeeper.GetGenericParams(ctx, e.appSwap)
	oc := sdk.NewCoin(offer, amm.OfferCoinAmount(ammDir, p, sdk.NewInt(amt)))
	oc = oc.Add(sdk.NewCoin(offer, sdk.NewDec(oc.Amount.Int64()).Mul(params.SwapFeeRate).RoundInt()))
	fund(t, a, ctx, who, sdk.NewCoins(oc))
	return e.msg(t, a, ctx, false, liquiditytypes.NewMsgLimitOrder(e.appSwap, who, e.liqPair, dir, oc, demand, p, sdk.NewInt(amt), 10*time.Second))
}

// the price drop that makes both vaults (collateral uasset2) and both borrows (collateral uasset1) liquidatable
func (e *c15Env) dropPrices(a *chain.App, ctx sdk.Context) {
	c15SetPrice(a, ctx, e.assets[1], 1000000, true)
	c15SetPrice(a, ctx, e.assets[0], 1000000, true)
}

var _ = assettypes.ModuleName
