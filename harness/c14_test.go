//go:build verif

package verifharness

import (
	"os"
	"strings"
	"testing"
	"time"

	sdk "github.com/cosmos/cosmos-sdk/types"

	chain "github.com/comdex-official/comdex/app"
	"github.com/comdex-official/comdex/x/auction"
	esmtypes "github.com/comdex-official/comdex/x/esm/types"
)

// every DeFi store except the oracle's (the price flags are the INPUT of the price cases)
var c14StoresNoMarket = func() []string {
	var out []string
	for _, s := range defiStores {
		if s != "marketV1" {
			out = append(out, s)
		}
	}
	return out
}()

// c14SetControls writes breaker / ESM status (phase 0 none, 1 executed inside cool-off, 2 executed
// and cool-off over; snapshot prices recorded as the ESM end-blocker would) and deactivates the
// price feeds selected by mask.
func c14SetControls(a *chain.App, ctx sdk.Context, w *c12World, app uint64, breaker bool, esm int, mask int) {
	if breaker {
		_ = a.EsmKeeper.SetKillSwitchData(ctx, esmtypes.KillSwitchParams{AppId: app, BreakerEnable: true})
	}
	if esm > 0 {
		end := ctx.BlockTime().Add(time.Hour)
		if esm == 2 {
			end = ctx.BlockTime().Add(-time.Second)
		}
		a.EsmKeeper.SetESMStatus(ctx, esmtypes.ESMStatus{AppId: app, Executor: w.LP.String(), Status: true,
			StartTime: ctx.BlockTime().Add(-2 * time.Hour), EndTime: end, SnapshotStatus: true})
		for _, id := range w.PriceAssets {
			a.EsmKeeper.SetSnapshotOfPrices(ctx, app, id, w.Prices[id])
		}
	}
	for i, id := range w.PriceAssets {
		if mask&(1<<i) != 0 {
			setPrice(a, ctx, id, w.Prices[id], false)
		}
	}
}

type c14Started struct {
	lockedV1, lockedV2, aucV2, surplus, debt, dutchV1 int
	vaultAlive, borrowLiquidated                      bool
}

func c14Observe(a *chain.App, ctx sdk.Context, w *c12World) c14Started {
	var o c14Started
	o.lockedV1 = len(a.LiquidationKeeper.GetLockedVaults(ctx))
	o.lockedV2 = len(a.NewliqKeeper.GetLockedVaults(ctx))
	o.aucV2 = len(a.NewaucKeeper.GetAuctions(ctx))
	o.surplus = len(a.AuctionKeeper.GetAllSurplusAuctions(ctx))
	o.debt = len(a.AuctionKeeper.GetAllDebtAuctions(ctx))
	o.dutchV1 = len(a.AuctionKeeper.GetAllDutchAuctions(ctx))
	_, o.vaultAlive = a.VaultKeeper.GetVault(ctx, w.VaultID)
	if b, found := a.LendKeeper.GetBorrow(ctx, w.BorrowID); found {
		o.borrowLiquidated = b.IsLiquidated
	}
	return o
}

// c14Ctl: one control state of the matrix
type c14Ctl struct {
	breaker bool
	esm     int
	mask    int
}

// TestC14: every handler of the vault, locker, lend, liquidity and auctionsV2 msg servers on the
// prepared state, each run on its own branch of the store:
//
//	phase 1 (always): the message with its default amount x breaker on/off x ESM none / in cool-off /
//	  after cool-off x {all prices active, none}, and - without controls - EVERY subset of the priced
//	  assets inactive; then, for every amount field of the message and every boundary amount of the
//	  state (c14AmountsFor: 1, and v-1, v, v+1 for every amount v stored in a position record, the whole
//	  debts and the wallet balances: the amounts that select early-return branches) x {no control,
//	  breaker, ESM in cool-off, ESM after cool-off, each single price inactive};
//	phase 2 (thorough tier, VERIF_SEARCH=1, or the handlers listed in VERIF_FOCUS): every amount x every
//	  control state x every subset of inactive prices.
//
// For every (message, amount) the uncontrolled all-prices-active run is the reference: its class,
// its resulting state, and the set of oracle prices it READ (store trace of the market store).
// Case ids are stable: phase 2 ids follow phase 1 ids whether or not phase 2 is executed, and
// VERIF_CASE re-runs exactly one of either phase.
func TestC14(t *testing.T) {
	c12SetPrefixes()
	a, base := newApp(t)
	tr := newTracer(t, "c14.trace")
	defer tr.close()
	r := newRng(seed())
	only := envInt("VERIF_CASE", -1)
	focus := map[string]bool{}
	for _, h := range strings.Split(os.Getenv("VERIF_FOCUS"), ",") {
		if h = strings.TrimSpace(h); h != "" {
			focus[h] = true
		}
	}
	phase2All := envInt("VERIF_ALLMASKS", 0) == 1 || envInt("VERIF_SEARCH", 0) == 1
	w := c12Setup(t, a, base)
	np := len(w.PriceAssets)
	full := (1 << np) - 1
	ci := 0
	cands := c14Candidates(a, w.Ctx, w)

	if len(focus) > 0 && only < 0 {
		tr.p("# focus %s", os.Getenv("VERIF_FOCUS")) // tells the runner that the other handlers were left out on purpose
	}
	for _, m := range c12Messages(w, w.Owner) {
		if len(c14AmountFields(m.Msg)) == 0 {
			tr.p("# no-amount-field %s", m.Handler)
		}
	}
	nmsgs := len(c12Messages(w, w.Owner))
	type variant struct {
		field *c14AmtField
		amt   sdk.Int
	}
	for phase := 1; phase <= 2; phase++ {
		for mi := 0; mi < nmsgs; mi++ {
			proto := c12Messages(w, w.Owner)[mi]
			runPhase := phase == 1 || phase2All || focus[proto.Handler]
			if phase == 1 && len(focus) > 0 && !focus[proto.Handler] && only < 0 {
				runPhase = false // a directed search concentrates on the named handlers
			}
			// position messages are signed by the owner, opening messages by a fresh funded account
			// unless only the owner can run them
			signerOwner := proto.NamesPosition
			if !signerOwner && (runPhase || only >= 0) {
				cctx, _ := w.Ctx.CacheContext()
				if cls, _, _ := execMsg(a, cctx, c12Messages(w, w.Other1)[mi].Msg); cls != "ok" {
					signerOwner = true
				}
			}
			signer := w.Other1
			if signerOwner {
				signer = w.Owner
			}
			app := proto.App
			if app == 0 {
				app = w.VaultApp
			}
			fields := c14AmountFields(proto.Msg)
			variants := []variant{{}}
			for fi := range fields {
				for _, v := range c14AmountsFor(fields[fi], cands) {
					variants = append(variants, variant{&fields[fi], v})
				}
			}
			for _, vr := range variants {
				build := func() sdk.Msg {
					m := c12Messages(w, signer)[mi].Msg
					if vr.field != nil {
						c14SetAmount(m, *vr.field, vr.amt)
					}
					return m
				}
				tag := "default"
				if vr.field != nil {
					tag = vr.field.name + "=" + vr.amt.String()
				}
				var ctls []c14Ctl
				switch {
				case phase == 1 && vr.field == nil:
					for _, breaker := range []bool{false, true} {
						for esm := 0; esm < 3; esm++ {
							if !breaker && esm == 0 {
								for m := 0; m <= full; m++ {
									ctls = append(ctls, c14Ctl{false, 0, m})
								}
							} else {
								ctls = append(ctls, c14Ctl{breaker, esm, 0}, c14Ctl{breaker, esm, full})
							}
						}
					}
				case phase == 1:
					// filled in below (depends on which prices the reference run reads)
				default:
					for _, breaker := range []bool{false, true} {
						for esm := 0; esm < 3; esm++ {
							for m := 0; m <= full; m++ {
								ctls = append(ctls, c14Ctl{breaker, esm, m})
							}
						}
					}
				}
				if phase == 1 && vr.field != nil {
					// boundary amounts: no control, breaker, both ESM phases, and each single price inactive
					// (executed only for the prices the reference run reads; the ids of the others stay unused)
					ctls = []c14Ctl{{false, 0, 0}, {true, 0, 0}, {false, 1, 0}, {false, 2, 0}}
					for i := 0; i < np; i++ {
						ctls = append(ctls, c14Ctl{false, 0, 1 << i})
					}
				}
				first := ci
				ci += len(ctls)
				if !runPhase && only < 0 {
					continue
				}
				if only >= 0 && (only < first || only >= ci) {
					continue
				}
				// reference: no control, every price active.  Once traced (which prices are read), once plain.
				rctx, _ := w.Ctx.CacheContext()
				_, _, reads := c14TracedRun(a, rctx, w, build())
				bctx, _ := w.Ctx.CacheContext()
				baseCls, _, _ := c12RunMsg(a, bctx, build())
				baseDigest := storeDigest(a, bctx, c14StoresNoMarket...)
				// is the all-active outcome sensitive to the VALUE of price bit i ?  (probed lazily, cached)
				sensitive := map[int]bool{}
				usesPrice := func(i int) bool {
					if v, ok := sensitive[i]; ok {
						return v
					}
					res := false
					for _, f := range []func(uint64) uint64{func(p uint64) uint64 { return p * 1000 }, func(p uint64) uint64 { return p/1000 + 1 }} {
						pctx, _ := w.Ctx.CacheContext()
						pid := w.PriceAssets[i]
						setPrice(a, pctx, pid, f(w.Prices[pid]), true)
						pcls, _, _ := c12RunMsg(a, pctx, build())
						if pcls != baseCls || storeDigest(a, pctx, c14StoresNoMarket...) != baseDigest {
							res = true
						}
					}
					sensitive[i] = res
					return res
				}
				for k, ctl := range ctls {
					id := first + k
					if only >= 0 && id != only {
						continue
					}
					if phase == 1 && vr.field != nil && ctl.mask != 0 && ctl.mask&reads == 0 && only < 0 {
						continue // a feed the run never reads
					}
					ctx, _ := w.Ctx.CacheContext()
					c14SetControls(a, ctx, w, app, ctl.breaker, ctl.esm, ctl.mask)
					msg := build()
					cls, kind, changed := c12RunMsg(a, ctx, msg)
					// only a successful run is compared with the reference outcome
					same, needed := false, 0
					if cls == "ok" {
						same = storeDigest(a, ctx, c14StoresNoMarket...) == baseDigest
						// an inactive feed that the all-active run reads AND whose value its outcome depends on
						for i := 0; i < np; i++ {
							if ctl.mask&reads&(1<<i) != 0 && usesPrice(i) {
								needed |= 1 << i
							}
						}
					}
					tr.p("case %d c14 %s %d %s %d %d %d %s %s %s %s %s %d %d %s", id, proto.Handler, app, b2s(ctl.breaker), ctl.esm, ctl.mask, np,
						cls, kind, b2s(changed), baseCls, b2s(same), reads, needed, tag)
					tr.p("  msg %T %s", msg, msg.String())
				}
			}
		}
	}

	// ---------- sweeps and auction starters ----------
	sweeps := []struct {
		name string
		run  func(ctx sdk.Context) error
	}{
		{"liquidationsV2.Liquidate", func(ctx sdk.Context) error { return a.NewliqKeeper.Liquidate(ctx) }},
		{"liquidation.LiquidateVaults", func(ctx sdk.Context) error { return a.LiquidationKeeper.LiquidateVaults(ctx) }},
		{"liquidation.LiquidateBorrows", func(ctx sdk.Context) error { return a.LiquidationKeeper.LiquidateBorrows(ctx) }},
		{"auction.BeginBlocker", func(ctx sdk.Context) error {
			auction.BeginBlocker(ctx, a.AuctionKeeper, a.AssetKeeper, a.CollectorKeeper, a.EsmKeeper)
			return nil
		}},
	}
	for _, sw := range sweeps {
		for _, breaker := range []bool{false, true} {
			for variant := 0; variant < 2; variant++ {
				div := uint64(2 + r.intn(20))
				id := ci
				ci++
				if only >= 0 && id != only {
					continue
				}
				ctx, _ := w.Ctx.CacheContext()
				ctx = ctx.WithBlockHeight(ctx.BlockHeight() + 1).WithBlockTime(ctx.BlockTime().Add(6 * time.Second))
				// make the owner's vault and borrow unhealthy: the collateral prices fall
				for _, idp := range w.PriceAssets {
					if idp != w.CMST && idp != w.USDC {
						setPrice(a, ctx, idp, w.Prices[idp]/div, true)
					}
				}
				a.LiquidationKeeper.SetAppIDForLiquidation(ctx, w.VaultApp)
				if breaker {
					for _, ap := range []uint64{w.VaultApp, w.LendApp, w.LiqApp} {
						_ = a.EsmKeeper.SetKillSwitchData(ctx, esmtypes.KillSwitchParams{AppId: ap, BreakerEnable: true})
					}
				}
				before := c14Observe(a, ctx, w)
				var err error
				panicked, _ := safely(func() { err = sw.run(ctx) })
				after := c14Observe(a, ctx, w)
				cls := "ok"
				if panicked {
					cls = "panic"
				} else if err != nil {
					cls = "err"
				}
				tr.p("case %d sweep %s %s %d %s %s", id, sw.name, b2s(breaker), div, cls, b2s(before != after))
			}
		}
	}
}
