//go:build verif

package verifharness

import (
	"testing"
	"time"

	sdk "github.com/cosmos/cosmos-sdk/types"

	chain "github.com/comdex-official/comdex/app"
	"github.com/comdex-official/comdex/x/auction"
	esmtypes "github.com/comdex-official/comdex/x/esm/types"
)

// every DeFi store except the oracle's (the price flags are the INPUT of the price cases)
var c14StoresNoMarket = func() []string {
	var out []string
	for _, s := range defiStores {
		if s != "marketV1" {
			out = append(out, s)
		}
	}
	return out
}()

// c14SetControls writes breaker / ESM status (phase 0 none, 1 executed inside cool-off, 2 executed
// and cool-off over; snapshot prices recorded as the ESM end-blocker would) and deactivates the
// price feeds selected by mask.
func c14SetControls(a *chain.App, ctx sdk.Context, w *c12World, app uint64, breaker bool, esm int, mask int) {
	if breaker {
		_ = a.EsmKeeper.SetKillSwitchData(ctx, esmtypes.KillSwitchParams{AppId: app, BreakerEnable: true})
	}
	if esm > 0 {
		end := ctx.BlockTime().Add(time.Hour)
		if esm == 2 {
			end = ctx.BlockTime().Add(-time.Second)
		}
		a.EsmKeeper.SetESMStatus(ctx, esmtypes.ESMStatus{AppId: app, Executor: w.LP.String(), Status: true,
			StartTime: ctx.BlockTime().Add(-2 * time.Hour), EndTime: end, SnapshotStatus: true})
		for _, id := range w.PriceAssets {
			a.EsmKeeper.SetSnapshotOfPrices(ctx, app, id, w.Prices[id])
		}
	}
	for i, id := range w.PriceAssets {
		if mask&(1<<i) != 0 {
			setPrice(a, ctx, id, w.Prices[id], false)
		}
	}
}

type c14Started struct {
	lockedV1, lockedV2, aucV2, surplus, debt, dutchV1 int
	vaultAlive, borrowLiquidated                      bool
}

func c14Observe(a *chain.App, ctx sdk.Context, w *c12World) c14Started {
	var o c14Started
	o.lockedV1 = len(a.LiquidationKeeper.GetLockedVaults(ctx))
	o.lockedV2 = len(a.NewliqKeeper.GetLockedVaults(ctx))
	o.aucV2 = len(a.NewaucKeeper.GetAuctions(ctx))
	o.surplus = len(a.AuctionKeeper.GetAllSurplusAuctions(ctx))
	o.debt = len(a.AuctionKeeper.GetAllDebtAuctions(ctx))
	o.dutchV1 = len(a.AuctionKeeper.GetAllDutchAuctions(ctx))
	_, o.vaultAlive = a.VaultKeeper.GetVault(ctx, w.VaultID)
	if b, found := a.LendKeeper.GetBorrow(ctx, w.BorrowID); found {
		o.borrowLiquidated = b.IsLiquidated
	}
	return o
}

// TestC14: every handler of the vault, locker, lend, liquidity and auctionsV2 msg servers x breaker
// on/off x ESM none / in cool-off / after cool-off x subsets of inactive price feeds on the
// prepared state; then the liquidation sweeps and the auction starters under breaker on/off.
func TestC14(t *testing.T) {
	c12SetPrefixes()
	a, base := newApp(t)
	tr := newTracer(t, "c14.trace")
	defer tr.close()
	r := newRng(seed())
	only := envInt("VERIF_CASE", -1)
	allMasks := envInt("VERIF_ALLMASKS", 0) == 1
	w := c12Setup(t, a, base)
	np := len(w.PriceAssets)
	full := (1 << np) - 1
	ci := 0

	pick := func(mi int, signerOwner bool) c12Msg {
		if signerOwner {
			return c12Messages(w, w.Owner)[mi]
		}
		return c12Messages(w, w.Other1)[mi]
	}
	nmsgs := len(c12Messages(w, w.Owner))
	for mi := 0; mi < nmsgs; mi++ {
		proto := c12Messages(w, w.Owner)[mi]
		// position messages are signed by the owner, opening messages by a fresh funded account
		// unless only the owner can run them
		signerOwner := proto.NamesPosition
		if !signerOwner {
			cctx, _ := w.Ctx.CacheContext()
			if cls, _, _ := execMsg(a, cctx, c12Messages(w, w.Other1)[mi].Msg); cls != "ok" {
				signerOwner = true
			}
		}
		app := proto.App
		if app == 0 {
			app = w.VaultApp
		}
		// baseline: no control, every price active
		bctx, _ := w.Ctx.CacheContext()
		baseCls, _, _ := c12RunMsg(a, bctx, pick(mi, signerOwner).Msg)
		baseDigest := storeDigest(a, bctx, c14StoresNoMarket...)

		masks := []int{0, full}
		if allMasks {
			masks = masks[:0]
			for m := 0; m <= full; m++ {
				masks = append(masks, m)
			}
		}
		for _, breaker := range []bool{false, true} {
			for esm := 0; esm < 3; esm++ {
				ms := append([]int{}, masks...)
				if !allMasks {
					// two random proper subsets per control state
					ms = append(ms, 1<<r.intn(np), r.intn(full+1))
				}
				for _, mask := range ms {
					id := ci
					ci++
					if only >= 0 && id != only {
						continue
					}
					ctx, _ := w.Ctx.CacheContext()
					c14SetControls(a, ctx, w, app, breaker, esm, mask)
					cls, kind, changed := c12RunMsg(a, ctx, pick(mi, signerOwner).Msg)
					same := storeDigest(a, ctx, c14StoresNoMarket...) == baseDigest
					tr.p("case %d c14 %s %d %s %d %d %d %s %s %s %s %s", id, proto.Handler, app, b2s(breaker), esm, mask, np,
						cls, kind, b2s(changed), baseCls, b2s(same))
				}
			}
		}
	}

	// ---------- sweeps and auction starters ----------
	sweeps := []struct {
		name string
		run  func(ctx sdk.Context) error
	}{
		{"liquidationsV2.Liquidate", func(ctx sdk.Context) error { return a.NewliqKeeper.Liquidate(ctx) }},
		{"liquidation.LiquidateVaults", func(ctx sdk.Context) error { return a.LiquidationKeeper.LiquidateVaults(ctx) }},
		{"liquidation.LiquidateBorrows", func(ctx sdk.Context) error { return a.LiquidationKeeper.LiquidateBorrows(ctx) }},
		{"auction.BeginBlocker", func(ctx sdk.Context) error {
			auction.BeginBlocker(ctx, a.AuctionKeeper, a.AssetKeeper, a.CollectorKeeper, a.EsmKeeper)
			return nil
		}},
	}
	for _, sw := range sweeps {
		for _, breaker := range []bool{false, true} {
			for variant := 0; variant < 2; variant++ {
				div := uint64(2 + r.intn(20))
				id := ci
				ci++
				if only >= 0 && id != only {
					continue
				}
				ctx, _ := w.Ctx.CacheContext()
				ctx = ctx.WithBlockHeight(ctx.BlockHeight() + 1).WithBlockTime(ctx.BlockTime().Add(6 * time.Second))
				// make the owner's vault and borrow unhealthy: the collateral prices fall
				for _, idp := range w.PriceAssets {
					if idp != w.CMST && idp != w.USDC {
						setPrice(a, ctx, idp, w.Prices[idp]/div, true)
					}
				}
				a.LiquidationKeeper.SetAppIDForLiquidation(ctx, w.VaultApp)
				if breaker {
					for _, ap := range []uint64{w.VaultApp, w.LendApp, w.LiqApp} {
						_ = a.EsmKeeper.SetKillSwitchData(ctx, esmtypes.KillSwitchParams{AppId: ap, BreakerEnable: true})
					}
				}
				before := c14Observe(a, ctx, w)
				var err error
				panicked, _ := safely(func() { err = sw.run(ctx) })
				after := c14Observe(a, ctx, w)
				cls := "ok"
				if panicked {
					cls = "panic"
				} else if err != nil {
					cls = "err"
				}
				tr.p("case %d sweep %s %s %d %s %s", id, sw.name, b2s(breaker), div, cls, b2s(before != after))
			}
		}
	}
}
