//go:build verif

package verifharness

import (
	"crypto/sha256"
	"encoding/binary"
	"encoding/hex"
	"fmt"
	"sort"
	"testing"

	sdk "github.com/cosmos/cosmos-sdk/types"
	authtypes "github.com/cosmos/cosmos-sdk/x/auth/types"
	banktypes "github.com/cosmos/cosmos-sdk/x/bank/types"

	chain "github.com/comdex-official/comdex/app"
	"github.com/comdex-official/comdex/app/wasm/bindings"
	assettypes "github.com/comdex-official/comdex/x/asset/types"
	markettypes "github.com/comdex-official/comdex/x/market/types"
)

// ---------- accounts / bank ----------
func addrN(n int) sdk.AccAddress {
	a := make(sdk.AccAddress, 20)
	binary.PutVarint(a, int64(n))
	return a
}

func modAddr(name string) sdk.AccAddress { return authtypes.NewModuleAddress(name) }

// fund mints through the (Minter-permissioned) vault module account like the repository's own suites
func fund(t *testing.T, a *chain.App, ctx sdk.Context, to sdk.AccAddress, coins sdk.Coins) {
	if err := a.BankKeeper.MintCoins(ctx, "vaultV1", coins); err != nil {
		t.Fatalf("fund mint: %v", err)
	}
	if err := a.BankKeeper.SendCoinsFromModuleToAccount(ctx, "vaultV1", to, coins); err != nil {
		t.Fatalf("fund send: %v", err)
	}
}

func bal(a *chain.App, ctx sdk.Context, who sdk.AccAddress, denom string) sdk.Int {
	return a.BankKeeper.GetBalance(ctx, who, denom).Amount
}

func supply(a *chain.App, ctx sdk.Context, denom string) sdk.Int {
	return a.BankKeeper.GetSupply(ctx, denom).Amount
}

// ---------- executing a message the way baseapp does ----------
// The handler comes from the MsgServiceRouter, runs on a CacheContext, and its writes are kept
// only when it returns no error and does not panic.  class: "ok" | "err" | "panic".
func execMsg(a *chain.App, ctx sdk.Context, msg sdk.Msg) (class string, err error, res *sdk.Result) {
	h := a.MsgServiceRouter().Handler(msg)
	if h == nil {
		return "err", fmt.Errorf("no handler for %T", msg), nil
	}
	if verr := msg.ValidateBasic(); verr != nil {
		return "err", verr, nil
	}
	cctx, write := ctx.CacheContext()
	panicked, pmsg := safely(func() { res, err = h(cctx, msg) })
	if panicked {
		return "panic", fmt.Errorf("panic: %s", pmsg), nil
	}
	if err != nil {
		return "err", err, nil
	}
	write()
	return "ok", nil, res
}

// ---------- asset / market fixtures ----------
func addAppRecord(t *testing.T, a *chain.App, ctx sdk.Context, name string) uint64 {
	err := a.AssetKeeper.AddAppRecords(ctx, assettypes.AppData{Name: name, ShortName: name, MinGovDeposit: sdk.NewInt(0), GovTimeInSeconds: 0,
		GenesisToken: []assettypes.MintGenesisToken{}})
	if err != nil {
		t.Fatalf("AddAppRecords: %v", err)
	}
	apps, _ := a.AssetKeeper.GetApps(ctx)
	for _, ap := range apps {
		if ap.Name == name {
			return ap.Id
		}
	}
	t.Fatal("app not found")
	return 0
}

func addAsset(t *testing.T, a *chain.App, ctx sdk.Context, name, denom string, decimals int64, priceRequired, mintable bool) uint64 {
	err := a.AssetKeeper.AddAssetRecords(ctx, assettypes.Asset{Name: name, Denom: denom, Decimals: sdk.NewInt(decimals), IsOnChain: true,
		IsOraclePriceRequired: priceRequired, IsCdpMintable: mintable})
	if err != nil {
		t.Fatalf("AddAssetRecords: %v", err)
	}
	as, _ := a.AssetKeeper.GetAssetForDenom(ctx, denom)
	return as.Id
}

// setPrice writes an active (or inactive) Twa record directly: prices are env inputs
func setPrice(a *chain.App, ctx sdk.Context, assetID uint64, price uint64, active bool) {
	a.MarketKeeper.SetTwa(ctx, markettypes.TimeWeightedAverage{AssetID: assetID, ScriptID: 12, Twa: price, CurrentIndex: 0,
		IsPriceActive: active, PriceValue: []uint64{price}, DiscardedHeightDiff: -1})
}

func addPair(t *testing.T, a *chain.App, ctx sdk.Context, assetIn, assetOut uint64) uint64 {
	if err := a.AssetKeeper.AddPairsRecords(ctx, assettypes.Pair{AssetIn: assetIn, AssetOut: assetOut}); err != nil {
		t.Fatalf("AddPairsRecords: %v", err)
	}
	for _, p := range a.AssetKeeper.GetPairs(ctx) {
		if p.AssetIn == assetIn && p.AssetOut == assetOut {
			return p.Id
		}
	}
	t.Fatal("pair not found")
	return 0
}

type extPairCfg struct {
	Name                         string
	App, Pair                    uint64
	StabilityFee, ClosingFee     sdk.Dec
	LiqPenalty, DrawDownFee      sdk.Dec
	MinCr                        sdk.Dec
	DebtCeiling, DebtFloor       sdk.Int
	Stable, Active, OraclePrice  bool
	AssetOutPrice, MinUsdValLeft uint64
}

func addExtPair(t *testing.T, a *chain.App, ctx sdk.Context, c extPairCfg) uint64 {
	err := a.AssetKeeper.WasmAddExtendedPairsVaultRecords(ctx, &bindings.MsgAddExtendedPairsVault{AppID: c.App, PairID: c.Pair,
		StabilityFee: c.StabilityFee, ClosingFee: c.ClosingFee, LiquidationPenalty: c.LiqPenalty, DrawDownFee: c.DrawDownFee,
		IsVaultActive: c.Active, DebtCeiling: c.DebtCeiling, DebtFloor: c.DebtFloor, IsStableMintVault: c.Stable, MinCr: c.MinCr,
		PairName: c.Name, AssetOutOraclePrice: c.OraclePrice, AssetOutPrice: c.AssetOutPrice, MinUsdValueLeft: c.MinUsdValLeft})
	if err != nil {
		t.Fatalf("WasmAddExtendedPairsVaultRecords: %v", err)
	}
	eps, _ := a.AssetKeeper.GetPairsVaults(ctx)
	for _, ep := range eps {
		if ep.PairName == c.Name && ep.AppId == c.App {
			return ep.Id
		}
	}
	t.Fatal("extended pair not found")
	return 0
}

// ---------- digests: "a rejected message changes no balance and no record" ----------
// storeDigest hashes every key/value of the named module stores (ordered iteration) plus the bank store.
func storeDigest(a *chain.App, ctx sdk.Context, stores ...string) string {
	if len(stores) == 0 {
		stores = defiStores
	}
	h := sha256.New()
	names := append([]string{}, stores...)
	sort.Strings(names)
	for _, name := range names {
		key := a.GetKey(name)
		if key == nil {
			continue
		}
		it := ctx.KVStore(key).Iterator(nil, nil)
		for ; it.Valid(); it.Next() {
			h.Write([]byte(name))
			h.Write(it.Key())
			h.Write([]byte{0})
			h.Write(it.Value())
			h.Write([]byte{1})
		}
		it.Close()
	}
	return hex.EncodeToString(h.Sum(nil))[:24]
}

// the DeFi module stores plus bank (balances and supply)
var defiStores = []string{"assetv1", "vaultV1", "lockerV1", "collectorV1", "liquidationV1", "auctionV1", "tokenmint", "rewardsV1",
	"esmV1", "lendV2", "marketV1", "liquidityV1", "liquidationsV2", "auctionsV2", "bandoracleV1", banktypes.StoreKey}
