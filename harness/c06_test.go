//go:build verif

package verifharness

import (
	"fmt"
	"math/big"
	"os"
	"testing"

	sdkmath "cosmossdk.io/math"

	"github.com/comdex-official/comdex/x/liquidity/amm"
)

// C06 harness: drives the REAL amm.Deposit / amm.Withdraw / InitialPoolCoinSupply / CreateBasicPool /
// CreateRangedPool / NewRangedPool / Price / BuyAmountOver / SellAmountUnder and dumps inputs and
// outputs.  Trace grammar (all integers decimal, Dec values as their 10^18-scaled integers):
//
//	case <id> dep <rx> <ry> <ps> <x> <y> <ok|panic> <ax> <ay> <pc>
//	case <id> wd <rx> <ry> <ps> <pc> <fee> <ok|panic> <x> <y>
//	case <id> ips <x> <y> <ok|panic> <supply>
//	case <id> basic <rx> <ry> <ok|err|panic> <rx> <ry> <ps>                      (CreateBasicPool) then op lines
//	case <id> ranged <x> <y> <min> <max> <init> <ok|err|panic> <ax> <ay> <ps> <tx> <ty>   (CreateRangedPool) then lines
//	case <id> rangedraw <rx> <ry> <ps> <min> <max> <ok|panic> <tx> <ty>            (NewRangedPool) then lines
//	op dep <x> <y> <ok|panic> <ax> <ay> <pc> <rx'> <ry'> <ps'>
//	op wd <pc> <fee> <ok|panic> <x> <y> <rx'> <ry'> <ps'>
//	price <ok|panic> <p>                      (ranged: NewRangedPool(current state).Price())
//	bao <price> <ok|panic> <amt>              (BuyAmountOver on the current ranged pool)
//	sau <price> <ok|panic> <amt>              (SellAmountUnder on the current ranged pool)
//	cre <x> <y> <min> <max> <init> <ok|err|panic> <ax> <ay>   (one more CreateRangedPool call, c06_balanced_test.go)

var c06P18 = new(big.Int).Exp(big.NewInt(10), big.NewInt(18), nil)

func c06Int(b *big.Int) sdkmath.Int       { return sdkmath.NewIntFromBigInt(b) }
func c06Dec(b *big.Int) sdkmath.LegacyDec { return sdkmath.LegacyNewDecFromBigIntWithPrec(b, 18) }
func c06I(i int64) *big.Int               { return big.NewInt(i) }
func c06Pow10(k int64) *big.Int           { return new(big.Int).Exp(big.NewInt(10), big.NewInt(k), nil) }
func c06Add(a *big.Int, d int64) *big.Int { return new(big.Int).Add(a, big.NewInt(d)) }
func c06Mul(a, b *big.Int) *big.Int       { return new(big.Int).Mul(a, b) }
func c06Quo(a, b *big.Int) *big.Int       { return new(big.Int).Quo(a, b) }
func c06Res(p bool) string {
	if p {
		return "panic"
	}
	return "ok"
}

// newRng(seed) streams of neighbouring seeds are shifted copies of one another (state = seed*gamma + c, step = gamma);
// take one mixed output of the seeded PRNG as the state of the stream actually used, so seeds 1,2,3 are unrelated.
func c06Rng(salt uint64) *rng { return &rng{s: newRng(seed()).next() ^ (salt * 0xD6E8FEB86659FD93)} }

// random non-negative integer of exactly `bits` bits
func c06RandBits(r *rng, bits int) *big.Int {
	x := new(big.Int)
	for x.BitLen() < bits {
		x.Lsh(x, 64)
		x.Or(x, new(big.Int).SetUint64(r.next()))
	}
	x.Rsh(x, uint(x.BitLen()-bits))
	return x
}

// amounts: 1-133 bits (10^40 < 2^133), boundary values, sometimes small
func c06RandAmt(r *rng) *big.Int {
	switch r.intn(20) {
	case 0:
		return c06I(0)
	case 1:
		return c06I(1)
	case 2:
		return c06Pow10(40)
	case 3:
		return c06Add(c06Pow10(40), int64(r.intn(3)-1))
	case 4:
		return c06Add(new(big.Int).Lsh(c06I(1), 133), -1)
	case 5:
		return c06Pow10(int64(r.intn(41)))
	case 6, 7, 8:
		return c06I(int64(r.intn(1000)))
	case 9:
		return c06Mul(c06I(3), c06Pow10(int64(r.intn(40)))) // thirds: worst half-even cases
	default:
		return c06RandBits(r, 1+r.intn(133))
	}
}

// an amount "near" a reference (same magnitude or a fraction of it)
func c06RandNear(r *rng, ref *big.Int) *big.Int {
	if ref.Sign() <= 0 || r.chance(20) {
		return c06RandAmt(r)
	}
	switch r.intn(6) {
	case 0:
		return new(big.Int).Set(ref)
	case 1:
		return c06Quo(ref, c06I(int64(1+r.intn(7))))
	case 2:
		return c06Add(c06Quo(ref, c06I(int64(1+r.intn(1000)))), int64(r.intn(3)))
	case 3:
		return c06Mul(ref, c06I(int64(1+r.intn(5))))
	default:
		b := ref.BitLen()
		return c06RandBits(r, 1+r.intn(b))
	}
}

func c06RandFee(r *rng) *big.Int {
	switch r.intn(12) {
	case 0, 1, 2:
		return c06I(0)
	case 3, 4, 5:
		return c06Mul(c06I(3), c06Pow10(15)) // 0.003
	case 6:
		return c06Mul(c06I(5), c06Pow10(17)) // 0.5
	case 7:
		return new(big.Int).Set(c06P18) // 1
	case 8:
		return c06I(1)
	case 9:
		return c06Add(c06P18, -1)
	default:
		return c06RandBits(r, 1+r.intn(59)) // < 2^59 < 10^18
	}
}

func c06Deposit(rx, ry, ps, x, y *big.Int) (string, sdkmath.Int, sdkmath.Int, sdkmath.Int) {
	ax, ay, pc := sdkmath.ZeroInt(), sdkmath.ZeroInt(), sdkmath.ZeroInt()
	p, _ := safely(func() { ax, ay, pc = amm.Deposit(c06Int(rx), c06Int(ry), c06Int(ps), c06Int(x), c06Int(y)) })
	if p {
		return "panic", sdkmath.ZeroInt(), sdkmath.ZeroInt(), sdkmath.ZeroInt()
	}
	return "ok", ax, ay, pc
}

func c06Withdraw(rx, ry, ps, pc, fee *big.Int) (string, sdkmath.Int, sdkmath.Int) {
	x, y := sdkmath.ZeroInt(), sdkmath.ZeroInt()
	p, _ := safely(func() { x, y = amm.Withdraw(c06Int(rx), c06Int(ry), c06Int(ps), c06Int(pc), c06Dec(fee)) })
	if p {
		return "panic", sdkmath.ZeroInt(), sdkmath.ZeroInt()
	}
	return "ok", x, y
}

// TestC06Pure: single calls of the pure functions. Exhaustive small domain first, then random.
func TestC06Pure(t *testing.T) {
	tr := newTracer(t, "c06pure.trace")
	defer tr.close()
	r := c06Rng(1)
	nrand := envInt("VERIF_CASES", 4000)
	only := envInt("VERIF_CASE", -1)
	small := int64(envInt("VERIF_SMALL", 4)) // exhaustive bound: 12 in the thorough tier
	ci := 0
	emitDep := func(rx, ry, ps, x, y *big.Int) {
		id := ci
		ci++
		if only >= 0 && id != only {
			return
		}
		res, ax, ay, pc := c06Deposit(rx, ry, ps, x, y)
		tr.p("case %d dep %s %s %s %s %s %s %s %s %s", id, rx, ry, ps, x, y, res, ax, ay, pc)
	}
	emitWd := func(rx, ry, ps, pc, fee *big.Int) {
		id := ci
		ci++
		if only >= 0 && id != only {
			return
		}
		res, x, y := c06Withdraw(rx, ry, ps, pc, fee)
		tr.p("case %d wd %s %s %s %s %s %s %s %s", id, rx, ry, ps, pc, fee, res, x, y)
	}
	emitIps := func(x, y *big.Int) {
		id := ci
		ci++
		if only >= 0 && id != only {
			return
		}
		var v sdkmath.Int
		p, _ := safely(func() { v = amm.InitialPoolCoinSupply(c06Int(x), c06Int(y)) })
		if p {
			tr.p("case %d ips %s %s panic 0", id, x, y)
		} else {
			tr.p("case %d ips %s %s ok %s", id, x, y, v)
		}
	}
	fees := []*big.Int{c06I(0), c06Mul(c06I(3), c06Pow10(15)), c06Mul(c06I(5), c06Pow10(17)), new(big.Int).Set(c06P18)}
	// (a) exhaustive: rx,ry,x,y in 0..small, ps in 0..small (ps=0 is the panic path), pc<=ps
	for rx := int64(0); rx <= small; rx++ {
		for ry := int64(0); ry <= small; ry++ {
			for ps := int64(0); ps <= small; ps++ {
				for x := int64(0); x <= small; x++ {
					for y := int64(0); y <= small; y++ {
						emitDep(c06I(rx), c06I(ry), c06I(ps), c06I(x), c06I(y))
					}
				}
				for pc := int64(0); pc <= ps; pc++ {
					for _, f := range fees {
						emitWd(c06I(rx), c06I(ry), c06I(ps), c06I(pc), f)
					}
				}
			}
		}
	}
	// (b) random operands of 1-133 bits including boundary values
	for i := 0; i < nrand; i++ {
		rx := c06RandAmt(r)
		ry := c06RandNear(r, rx)
		ps := c06RandNear(r, rx)
		switch r.intn(5) {
		case 0, 1, 2:
			x := c06RandNear(r, rx)
			y := c06RandNear(r, ry)
			if r.chance(30) && rx.Sign() > 0 { // offered in the pool's ratio (the common case)
				k := int64(1 + r.intn(1000))
				x = c06Add(c06Quo(rx, c06I(k)), int64(r.intn(2)))
				y = c06Add(c06Quo(ry, c06I(k)), int64(r.intn(2)))
			}
			if r.chance(2) { // malformed: negative / oversized operands, correspondence only
				x = new(big.Int).Neg(x)
			}
			if r.chance(2) {
				rx = c06RandBits(r, 200+r.intn(57))
			}
			emitDep(rx, ry, ps, x, y)
		case 3:
			pc := c06RandNear(r, ps)
			if pc.Cmp(ps) > 0 && !r.chance(5) {
				pc = c06Quo(pc, c06I(2))
				if pc.Cmp(ps) > 0 {
					pc = new(big.Int).Set(ps)
				}
			}
			fee := c06RandFee(r)
			if r.chance(2) { // malformed fee (> 1 or negative), correspondence only
				fee = c06Add(c06P18, int64(1+r.intn(1000)))
				if r.chance(50) {
					fee = c06I(-int64(1 + r.intn(1000)))
				}
			}
			if r.chance(2) {
				rx = c06RandBits(r, 200+r.intn(57))
			}
			emitWd(rx, ry, ps, pc, fee)
		case 4:
			emitIps(rx, ry)
		}
	}
}

// ---------- sequences on one pool ----------
type c06Pool struct {
	ranged     bool
	rx, ry, ps *big.Int
	min, max   *big.Int
}

func (p *c06Pool) amm() (pool amm.Pool, panicked bool) {
	panicked, _ = safely(func() {
		if p.ranged {
			pool = amm.NewRangedPool(c06Int(p.rx), c06Int(p.ry), c06Int(p.ps), c06Dec(p.min), c06Dec(p.max))
		} else {
			pool = amm.NewBasicPool(c06Int(p.rx), c06Int(p.ry), c06Int(p.ps))
		}
	})
	return
}

// depleted exactly as the real pool types say (IsDepleted does not need the translation)
func (p *c06Pool) depleted() bool {
	if p.ranged {
		// RangedPool.IsDepleted reads only rx, ry, ps; construct through the exported constructor when possible
		if pool, pan := p.amm(); !pan {
			return pool.IsDepleted()
		}
		return p.ps.Sign() == 0 || (p.rx.Sign() == 0 && p.ry.Sign() == 0)
	}
	return amm.NewBasicPool(c06Int(p.rx), c06Int(p.ry), c06Int(p.ps)).IsDepleted()
}

func c06ObservePrice(tr *tracer, p *c06Pool) {
	if !p.ranged {
		return
	}
	var price sdkmath.LegacyDec
	pan, _ := safely(func() {
		pool := amm.NewRangedPool(c06Int(p.rx), c06Int(p.ry), c06Int(p.ps), c06Dec(p.min), c06Dec(p.max))
		price = pool.Price()
	})
	if pan {
		tr.p("price panic 0")
	} else {
		tr.p("price ok %s", price.BigInt())
	}
}

func c06ObserveClamps(tr *tracer, r *rng, p *c06Pool) {
	if !p.ranged {
		return
	}
	pool, pan := p.amm()
	if pan {
		return
	}
	span := new(big.Int).Sub(p.max, p.min)
	for k := 0; k < 2; k++ {
		var q *big.Int
		switch r.intn(5) {
		case 0:
			q = new(big.Int).Set(p.min)
		case 1:
			q = new(big.Int).Set(p.max)
		case 2:
			q = c06Quo(p.min, c06I(int64(1+r.intn(4))))
		case 3:
			q = c06Mul(p.max, c06I(int64(1+r.intn(3))))
		default:
			q = new(big.Int).Add(p.min, c06Quo(c06Mul(span, c06I(int64(r.intn(1001)))), c06I(1000)))
		}
		if q.Sign() == 0 {
			q = c06I(1)
		}
		var amt sdkmath.Int
		pn, _ := safely(func() { amt = pool.BuyAmountOver(c06Dec(q), true) })
		if pn {
			tr.p("bao %s panic 0", q)
		} else {
			tr.p("bao %s ok %s", q, amt)
		}
		pn, _ = safely(func() { amt = pool.SellAmountUnder(c06Dec(q), true) })
		if pn {
			tr.p("sau %s panic 0", q)
		} else {
			tr.p("sau %s ok %s", q, amt)
		}
	}
}

// the amount part of keeper.ExecuteDepositRequest / ExecuteWithdrawRequest around the real amm calls
func c06RunOps(tr *tracer, r *rng, p *c06Pool, nops int) {
	deadOps := 0
	for i := 0; i < nops; i++ {
		if p.depleted() {
			deadOps++
			if deadOps > 2 {
				return
			}
		}
		if r.chance(55) {
			x := c06RandNear(r, p.rx)
			y := c06RandNear(r, p.ry)
			if r.chance(50) && p.rx.Sign() > 0 {
				k := int64(1 + r.intn(50))
				x = c06Add(c06Quo(p.rx, c06I(k)), int64(r.intn(2)))
				y = c06Add(c06Quo(p.ry, c06I(k)), int64(r.intn(2)))
			}
			if r.chance(10) { // tiny deposits into big pools: the free-share rounding region
				x = c06Add(c06Quo(p.rx, c06Pow10(int64(15+r.intn(6)))), int64(r.intn(3)))
				y = c06Add(c06Quo(p.ry, c06Pow10(int64(15+r.intn(6)))), int64(r.intn(3)))
			}
			res, ax, ay, pc := "ok", sdkmath.ZeroInt(), sdkmath.ZeroInt(), sdkmath.ZeroInt()
			if !p.depleted() {
				res, ax, ay, pc = c06Deposit(p.rx, p.ry, p.ps, x, y)
				if res == "ok" && !pc.IsZero() {
					p.rx = new(big.Int).Add(p.rx, ax.BigInt())
					p.ry = new(big.Int).Add(p.ry, ay.BigInt())
					p.ps = new(big.Int).Add(p.ps, pc.BigInt())
				}
			}
			tr.p("op dep %s %s %s %s %s %s %s %s %s", x, y, res, ax, ay, pc, p.rx, p.ry, p.ps)
		} else {
			var pc *big.Int
			switch r.intn(10) {
			case 0:
				pc = new(big.Int).Set(p.ps) // the last shares
				if i+2 < nops && !r.chance(25) {
					pc = c06Quo(p.ps, c06I(3))
				}
			case 1:
				pc = c06Add(p.ps, -1)
			case 2:
				pc = c06I(int64(1 + r.intn(3)))
			case 3:
				pc = c06Add(p.ps, 1) // inadmissible: more than the supply
			default:
				pc = c06Quo(p.ps, c06I(int64(2+r.intn(20))))
			}
			fee := c06RandFee(r)
			res, x, y := "ok", sdkmath.ZeroInt(), sdkmath.ZeroInt()
			if !p.depleted() && pc.Sign() > 0 && pc.Cmp(p.ps) <= 0 {
				res, x, y = c06Withdraw(p.rx, p.ry, p.ps, pc, fee)
				if res == "ok" && !(x.IsZero() && y.IsZero()) {
					p.rx = new(big.Int).Sub(p.rx, x.BigInt())
					p.ry = new(big.Int).Sub(p.ry, y.BigInt())
					p.ps = new(big.Int).Sub(p.ps, pc)
				}
			}
			tr.p("op wd %s %s %s %s %s %s %s %s", pc, fee, res, x, y, p.rx, p.ry, p.ps)
		}
		c06ObservePrice(tr, p)
		if r.chance(30) {
			c06ObserveClamps(tr, r, p)
		}
	}
}

// TestC06Seq: basic pools created by CreateBasicPool, then 5-40 deposits / withdrawals.
func TestC06Seq(t *testing.T) {
	tr := newTracer(t, "c06seq.trace")
	defer tr.close()
	ncases := envInt("VERIF_CASES", 400)
	only := envInt("VERIF_CASE", -1)
	master := c06Rng(2)
	for ci := 0; ci < ncases; ci++ {
		// every case draws its own stream from the single PRNG, in order, also when skipped: VERIF_CASE re-runs it exactly
		r := &rng{s: master.next()}
		if only >= 0 && ci != only {
			continue
		}
		rx := c06RandAmt(r)
		ry := c06RandNear(r, rx)
		var pool *amm.BasicPool
		var err error
		pan, _ := safely(func() { pool, err = amm.CreateBasicPool(c06Int(rx), c06Int(ry)) })
		if pan {
			tr.p("case %d basic %s %s panic 0 0 0", ci, rx, ry)
			continue
		}
		if err != nil {
			tr.p("case %d basic %s %s err 0 0 0", ci, rx, ry)
			continue
		}
		prx, pry := pool.Balances()
		p := &c06Pool{rx: prx.BigInt(), ry: pry.BigInt(), ps: pool.PoolCoinSupply().BigInt()}
		tr.p("case %d basic %s %s ok %s %s %s", ci, rx, ry, p.rx, p.ry, p.ps)
		c06RunOps(tr, r, p, 5+r.intn(36))
	}
}

// admissible (min, max, initial) price triples, scaled by 10^18
func c06RandTriple(r *rng) (min, max, init *big.Int) {
	// min in [10^-15, 10^20): 10^k * m
	k := int64(3 + r.intn(35)) // scaled exponent 3..37  (10^-15 .. 10^19)
	min = c06Mul(c06Pow10(k), c06I(int64(1+r.intn(9))))
	if r.chance(40) && k >= 3 {
		min = c06Add(c06Mul(c06Pow10(k-3), c06I(int64(1000+r.intn(9000)))), 0)
	}
	if r.chance(10) {
		min = c06I(1000) // MinPoolPrice
	}
	// max = min * (1 + gap), gap from 0.001 to huge
	switch r.intn(6) {
	case 0:
		max = c06Add(c06Quo(c06Mul(min, c06I(1001)), c06I(1000)), int64(r.intn(2))) // the minimum gap
	case 1:
		max = c06Quo(c06Mul(min, c06I(int64(1002+r.intn(100)))), c06I(1000))
	case 2:
		max = c06Mul(min, c06I(int64(2+r.intn(10))))
	case 3:
		max = c06Mul(min, c06Pow10(int64(1+r.intn(10))))
	case 4:
		max = c06Mul(c06Pow10(38), c06I(1)) // MaxPoolPrice 10^20
	default:
		max = new(big.Int).Add(min, c06RandBits(r, 1+r.intn(min.BitLen()+8)))
	}
	lim := c06Pow10(38)
	if max.Cmp(lim) > 0 && !r.chance(3) {
		max = lim
	}
	span := new(big.Int).Sub(max, min)
	switch r.intn(6) {
	case 0:
		init = new(big.Int).Set(min)
	case 1:
		init = new(big.Int).Set(max)
	case 2:
		init = c06Add(min, 1)
	case 3:
		init = c06Add(max, -1)
	default:
		if span.Sign() > 0 {
			init = new(big.Int).Add(min, c06Quo(c06Mul(span, c06I(int64(r.intn(1001)))), c06I(1000)))
		} else {
			init = new(big.Int).Set(min)
		}
	}
	if r.chance(3) { // inadmissible triple: validation error classes
		init = c06Mul(max, c06I(2))
	}
	return
}

// TestC06Ranged: ranged pools for admissible (min,max,initial) triples and reserves; price after creation and after
// every deposit / withdrawal, order-book clamps.
func TestC06Ranged(t *testing.T) {
	tr := newTracer(t, "c06ranged.trace")
	defer tr.close()
	ncases := envInt("VERIF_CASES", 300)
	only := envInt("VERIF_CASE", -1)
	master := c06Rng(3)
	// fixed witnesses of the known findings first (they are re-run on the real code on every check)
	type wit struct{ x, y, min, max, init *big.Int }
	e36 := c06Pow10(36)
	wits := []wit{
		{c06Pow10(24), c06Pow10(22), c06Mul(c06I(40), e36), c06Mul(c06I(100), e36), c06Mul(c06I(42), e36)},              // C06-F1: fresh pool 82% below min
		{c06Pow10(40), c06Pow10(22), c06Mul(c06I(40), e36), c06Mul(c06I(100), e36), c06Mul(c06I(42), e36)},              // C06-F1 at the amount bound
		{c06I(346), c06I(0), c06I(70000), c06Mul(c06I(100), e36), c06Mul(c06I(100), e36)},                               // C06-F2: 15% above max
		{c06I(0), c06Pow10(13), c06Mul(c06I(30), c06Pow10(33)), c06Mul(c06I(100), e36), c06Mul(c06I(30), c06Pow10(33))}, // C06-F2 below min
	}
	for ci := 0; ci < ncases; ci++ {
		r := &rng{s: master.next()}
		if only >= 0 && ci != only {
			continue
		}
		min, max, init := c06RandTriple(r)
		if ci < len(wits) {
			w := wits[ci]
			c06RangedCreate(tr, r, ci, w.x, w.y, w.min, w.max, w.init, 4)
			continue
		}
		if r.chance(35) { // exactly balanced offers (c06_balanced_test.go)
			c06BalancedCase(tr, r, ci)
			continue
		}
		if r.chance(35) {
			if amm.ValidateRangedPoolParams(c06Dec(min), c06Dec(max), c06Dec(min)) != nil {
				// NewRangedPool does not validate; the keeper only builds it from validated pools
				min, max = c06Mul(c06I(2), c06Pow10(18)), c06Mul(c06I(3), c06Pow10(18))
			}
			// NewRangedPool on arbitrary reserves (what the keeper builds from the reserve balances)
			rx := c06RandAmt(r)
			ry := c06RandNear(r, rx)
			if r.chance(10) {
				rx = c06I(0)
			}
			if r.chance(10) {
				ry = c06I(0)
			}
			ps := c06RandNear(r, rx)
			if ps.Sign() == 0 {
				ps = c06I(1)
			}
			if os.Getenv("VERIF_C06_INRANGE") != "0" && rx.Sign() > 0 && ry.Sign() > 0 && r.chance(70) {
				// reserves whose ratio lies inside the range: ry ~ rx / price
				pr := new(big.Int).Add(min, c06Quo(c06Mul(new(big.Int).Sub(max, min), c06I(int64(r.intn(1001)))), c06I(1000)))
				ry = c06Quo(c06Mul(rx, c06P18), pr)
				if ry.Sign() == 0 {
					ry = c06I(1)
				}
			}
			p := &c06Pool{ranged: true, rx: rx, ry: ry, ps: ps, min: min, max: max}
			var tx, ty sdkmath.LegacyDec
			pan, _ := safely(func() {
				pool := amm.NewRangedPool(c06Int(rx), c06Int(ry), c06Int(ps), c06Dec(min), c06Dec(max))
				tx, ty = pool.Translation()
			})
			if pan {
				tr.p("case %d rangedraw %s %s %s %s %s panic 0 0", ci, rx, ry, ps, min, max)
				continue
			}
			tr.p("case %d rangedraw %s %s %s %s %s ok %s %s", ci, rx, ry, ps, min, max, tx.BigInt(), ty.BigInt())
			c06ObservePrice(tr, p)
			c06ObserveClamps(tr, r, p)
			c06RunOps(tr, r, p, 3+r.intn(12))
			continue
		}
		x := c06RandAmt(r)
		y := c06RandNear(r, x)
		if r.chance(15) { // wide price ranges with reserves in the range's ratio (the C06-F1 region)
			x = c06RandBits(r, 60+r.intn(74))
			y = c06Quo(c06Mul(x, c06P18), init)
		}
		c06RangedCreate(tr, r, ci, x, y, min, max, init, 3+r.intn(12))
	}
}

func c06RangedCreate(tr *tracer, r *rng, ci int, x, y, min, max, init *big.Int, nops int) {
	var pool *amm.RangedPool
	var err error
	pan, _ := safely(func() { pool, err = amm.CreateRangedPool(c06Int(x), c06Int(y), c06Dec(min), c06Dec(max), c06Dec(init)) })
	hdr := fmt.Sprintf("case %d ranged %s %s %s %s %s", ci, x, y, min, max, init)
	if pan {
		tr.p("%s panic 0 0 0 0 0", hdr)
		return
	}
	if err != nil {
		tr.p("%s err 0 0 0 0 0", hdr)
		return
	}
	prx, pry := pool.Balances()
	tx, ty := pool.Translation()
	p := &c06Pool{ranged: true, rx: prx.BigInt(), ry: pry.BigInt(), ps: pool.PoolCoinSupply().BigInt(), min: min, max: max}
	tr.p("%s ok %s %s %s %s %s", hdr, p.rx, p.ry, p.ps, tx.BigInt(), ty.BigInt())
	c06ObservePrice(tr, p)
	c06ObserveClamps(tr, r, p)
	c06RunOps(tr, r, p, nops)
}
