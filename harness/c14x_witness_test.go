//go:build verif

package verifharness

import (
	"testing"

	sdk "github.com/cosmos/cosmos-sdk/types"

	auctiontypes "github.com/comdex-official/comdex/x/auction/types"
)

// TestC14F2Witness (C14-F2): the bid that closes a generation-1 lend dutch auction re-checks the health of what
// is left of the borrow with `ratio, _ := CalculateCollateralizationRatio(...)`.  With the collateral's (or the
// debt's) price feed inactive the error is dropped, the ratio reads as 0 = healthy, and the borrow is handed back
// to its owner as a live position - also when, at the last recorded price, it is far beyond the liquidation
// threshold and the same bid with the feed ACTIVE starts the next auction instead.
func TestC14F2Witness(t *testing.T) {
	c12SetPrefixes()
	a, base := newApp(t)
	x := c12xSetup(t, a, base)
	w := x.Views[0]
	au, err := a.AuctionKeeper.GetDutchLendAuction(x.Ctx, w.LendApp, 3, x.V1LendDutch)
	if err != nil {
		t.Fatal(err)
	}
	lv, _ := a.LiquidationKeeper.GetLockedVault(x.Ctx, w.LendApp, au.LockedVaultId)
	borrowID := lv.OriginalVaultId
	run := func(price uint64, active bool) (cls string, liquidated bool, auctions int, lockedLeft bool) {
		ctx, _ := x.Ctx.CacheContext()
		setPrice(a, ctx, w.CMDX, price, active)
		msg := auctiontypes.NewMsgPlaceDutchLendBid(x.Keeper.String(), x.V1LendDutch, sdk.NewCoin(c12DenomCMDX, au.OutflowTokenCurrentAmount.Amount), w.LendApp, 3)
		cls, err, _ := execMsg(a, ctx, msg)
		if err != nil {
			t.Logf("  bid error: %v", err)
		}
		b, _ := a.LendKeeper.GetBorrow(ctx, borrowID)
		_, lockedLeft = a.LiquidationKeeper.GetLockedVault(ctx, w.LendApp, au.LockedVaultId)
		return cls, b.IsLiquidated, len(a.AuctionKeeper.GetDutchLendAuctions(ctx, w.LendApp)), lockedLeft
	}
	t.Logf("auction %d: lot %s, target %s; borrow %d", au.AuctionId, au.OutflowTokenCurrentAmount, au.InflowTokenTargetAmount, borrowID)
	for _, c := range []struct {
		price  uint64
		active bool
	}{{c12xNewCMDX, true}, {c12xNewCMDX, false}, {300000, true}, {300000, false}} {
		cls, liq, n, left := run(c.price, c.active)
		t.Logf("CMDX price %d active=%v: closing bid %s; borrow.IsLiquidated=%v running lend auctions=%d locked vault kept=%v", c.price, c.active, cls, liq, n, left)
	}
}
