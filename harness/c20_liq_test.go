//go:build verif

package verifharness

// C20, second workload: genesis round trip of states with liquidated vaults, locked vaults, running
// auctions, bids and limit bids (liquidationsV2 + auctionsV2, or liquidation V1 + auction V1), so that
// the genesis holes of those modules that the table predicts are observed on the real code.
// Same trace format as TestC20 (case / imp / p / cont lines), same runner entry.

import (
	"fmt"
	"sort"
	"testing"
	"time"

	abci "github.com/cometbft/cometbft/abci/types"
	sdk "github.com/cosmos/cosmos-sdk/types"

	chain "github.com/comdex-official/comdex/app"
	"github.com/comdex-official/comdex/x/auction"
	auctiontypes "github.com/comdex-official/comdex/x/auction/types"
	"github.com/comdex-official/comdex/x/auctionsV2"
	auctionsV2types "github.com/comdex-official/comdex/x/auctionsV2/types"
	"github.com/comdex-official/comdex/x/liquidation"
	liquidationtypes "github.com/comdex-official/comdex/x/liquidation/types"
	liquidationsV2types "github.com/comdex-official/comdex/x/liquidationsV2/types"
	vaulttypes "github.com/comdex-official/comdex/x/vault/types"
)

type c20LiqScenario struct {
	gen        int // 2: liquidationsV2 + auctionsV2; 1: liquidation V1 + auction V1
	nVaults    int // vaults created (all under-collateralised after the price drop)
	nLiq       int // of which liquidated before the export (1 .. nVaults-1)
	partialBid bool
	closeFirst bool // the first auction is bought out before the export (auction and locked vault deleted)
	closeLast  bool // V1: the newest auction is bought out before the export
	limitBid   bool // V2: a limit bid is deposited before the export
	amt        int64
}

type c20LiqWorld struct {
	t                *testing.T
	a                *chain.App
	app              uint64
	coll, debt       uint64
	pair, ep         uint64
	owners, bidders  []sdk.AccAddress
	liquidator       sdk.AccAddress
	vaultIDs         []uint64
	t0               time.Time
	firstAuctionDebt sdk.Int
}

func (w *c20LiqWorld) holders() map[string]sdk.AccAddress {
	out := map[string]sdk.AccAddress{"liquidator": w.liquidator}
	for i, o := range w.owners {
		out[fmt.Sprintf("o%d", i)] = o
	}
	for i, b := range w.bidders {
		out[fmt.Sprintf("b%d", i)] = b
	}
	for _, m := range []string{"vaultV1", "collectorV1", "auctionV1", "auctionsV2", "liquidationV1", "liquidationsV2"} {
		out[m] = modAddr(m)
	}
	return out
}

func c20LiqBalances(w *c20LiqWorld, ctx sdk.Context) map[string]sdk.Int {
	out := map[string]sdk.Int{}
	hs := w.holders()
	var names []string
	for n := range hs {
		names = append(names, n)
	}
	sort.Strings(names)
	for _, n := range names {
		for _, c := range w.a.BankKeeper.GetAllBalances(ctx, hs[n]) {
			out[n+"/"+c.Denom] = c.Amount
		}
	}
	return out
}

func c20LiqPopulate(w *c20LiqWorld, ctx sdk.Context, sc c20LiqScenario) sdk.Context {
	t, a := w.t, w.a
	must := func(what, class string, err error) {
		if class != "ok" {
			t.Fatalf("populate %s: %s %v", what, class, err)
		}
	}
	w.app = addAppRecord(t, a, ctx, "appone")
	w.coll = addAsset(t, a, ctx, "COLL", "ucoll", 1000000, true, false)
	w.debt = addAsset(t, a, ctx, "DEBT", "udebt", 1000000, true, true)
	setPrice(a, ctx, w.coll, 2000000, true)
	setPrice(a, ctx, w.debt, 1000000, true)
	w.pair = addPair(t, a, ctx, w.coll, w.debt)
	w.ep = addExtPair(t, a, ctx, extPairCfg{Name: "COLL-A", App: w.app, Pair: w.pair, StabilityFee: sdk.ZeroDec(), ClosingFee: sdk.ZeroDec(),
		LiqPenalty: sdk.NewDecWithPrec(12, 2), DrawDownFee: sdk.ZeroDec(), MinCr: sdk.NewDecWithPrec(15, 1),
		DebtCeiling: sdk.NewIntFromUint64(1 << 62), DebtFloor: sdk.NewInt(1), Active: true, OraclePrice: true, AssetOutPrice: 1000000, MinUsdValLeft: 100000})
	w.owners, w.bidders = nil, nil
	for i := 0; i < 8; i++ {
		w.owners = append(w.owners, addrN(20+i))
		fund(t, a, ctx, w.owners[i], sdk.NewCoins(sdk.NewCoin("ucoll", sdk.NewInt(1000000000000))))
	}
	for i := 0; i < 4; i++ {
		w.bidders = append(w.bidders, addrN(40+i))
		fund(t, a, ctx, w.bidders[i], sdk.NewCoins(sdk.NewCoin("udebt", sdk.NewInt(1000000000000))))
	}
	w.liquidator = addrN(50)
	if sc.gen == 2 {
		a.NewliqKeeper.SetParams(ctx, liquidationsV2types.NewParams(10))
		dp := liquidationsV2types.DutchAuctionParam{Premium: sdk.MustNewDecFromStr("1.2"), Discount: sdk.MustNewDecFromStr("0.7"), DecrementFactor: sdk.NewInt(1)}
		epm := liquidationsV2types.EnglishAuctionParam{DecrementFactor: sdk.NewInt(1)}
		a.NewliqKeeper.SetLiquidationWhiteListing(ctx, liquidationsV2types.LiquidationWhiteListing{AppId: w.app, Initiator: true, IsDutchActivated: true,
			DutchAuctionParam: &dp, IsEnglishActivated: true, EnglishAuctionParam: &epm, KeeeperIncentive: sdk.ZeroDec()})
		a.NewaucKeeper.SetAuctionParams(ctx, auctionsV2types.AuctionParams{AuctionDurationSeconds: 3600, Step: sdk.MustNewDecFromStr("0.1"),
			WithdrawalFee: sdk.ZeroDec(), ClosingFee: sdk.ZeroDec(), MinUsdValueLeft: 100000, BidFactor: sdk.MustNewDecFromStr("0.1"),
			LiquidationPenalty: sdk.MustNewDecFromStr("0.1"), AuctionBonus: sdk.ZeroDec()})
	} else {
		a.LiquidationKeeper.SetParams(ctx, liquidationtypes.NewParams(uint64(sc.nLiq)))
		if err := a.LiquidationKeeper.WasmWhitelistAppIDLiquidation(ctx, w.app); err != nil {
			t.Fatalf("whitelist: %v", err)
		}
		a.AuctionKeeper.SetAuctionParams(ctx, auctiontypes.AuctionParams{AppId: w.app, AuctionDurationSeconds: 300,
			Buffer: sdk.MustNewDecFromStr("1.2"), Cusp: sdk.MustNewDecFromStr("0.6"), Step: sdk.NewIntFromUint64(1),
			PriceFunctionType: 1, SurplusId: 1, DebtId: 2, DutchId: 3, BidDurationSeconds: 300})
	}
	// vaults at a collateral ratio of 200 %
	w.vaultIDs = nil
	for i := 0; i < sc.nVaults; i++ {
		in := sdk.NewInt(sc.amt*10 + int64(i)*1000)
		out := in // price 2 => 200 %
		c, err, _ := execMsg(a, ctx, vaulttypes.NewMsgCreateRequest(w.owners[i], w.app, w.ep, in, out))
		must(fmt.Sprintf("vault %d", i+1), c, err)
		w.vaultIDs = append(w.vaultIDs, a.VaultKeeper.GetIDForVault(ctx))
	}
	// the collateral price falls: 140 % < 150 %
	w.t0 = ctx.BlockTime()
	ctx = ctx.WithBlockHeight(ctx.BlockHeight() + 1).WithBlockTime(w.t0.Add(6 * time.Second))
	setPrice(a, ctx, w.coll, 1400000, true)
	if sc.gen == 2 {
		for i := 0; i < sc.nLiq; i++ {
			c, err, _ := execMsg(a, ctx, liquidationsV2types.NewMsgLiquidateInternalKeeperRequest(w.liquidator, 0, w.vaultIDs[i]))
			must(fmt.Sprintf("liquidate %d", i+1), c, err)
		}
		au, err := a.NewaucKeeper.GetAuction(ctx, 1)
		if err != nil {
			t.Fatalf("auction 1: %v", err)
		}
		w.firstAuctionDebt = au.DebtToken.Amount
		if sc.partialBid {
			c, err, _ := execMsg(a, ctx, auctionsV2types.NewMsgPlaceMarketBid(w.bidders[0].String(), 1, sdk.NewCoin("udebt", au.DebtToken.Amount.QuoRaw(3))))
			must("partial bid", c, err)
		}
		if sc.closeFirst {
			au, _ = a.NewaucKeeper.GetAuction(ctx, 1)
			c, err, _ := execMsg(a, ctx, auctionsV2types.NewMsgPlaceMarketBid(w.bidders[1].String(), 1, sdk.NewCoin("udebt", au.DebtToken.Amount)))
			must("closing bid", c, err)
		}
		if sc.limitBid {
			c, err, _ := execMsg(a, ctx, auctionsV2types.NewMsgDepositLimitBid(w.bidders[2].String(), w.coll, w.debt, sdk.NewInt(5), sdk.NewCoin("udebt", sdk.NewInt(sc.amt))))
			must("limit bid", c, err)
		}
	} else {
		// one V1 sweep with batch size nLiq liquidates the first nLiq vaults and starts their dutch auctions
		if p, msg := safely(func() { liquidation.BeginBlocker(ctx, abci.RequestBeginBlock{}, a.LiquidationKeeper) }); p {
			t.Fatalf("liquidation V1 begin blocker panicked: %s", msg)
		}
		if n := len(a.LiquidationKeeper.GetLockedVaults(ctx)); n != sc.nLiq {
			t.Fatalf("V1 sweep: %d locked vaults, wanted %d", n, sc.nLiq)
		}
		das := a.AuctionKeeper.GetDutchAuctions(ctx, w.app)
		if len(das) != sc.nLiq {
			t.Fatalf("V1: %d dutch auctions, wanted %d", len(das), sc.nLiq)
		}
		if sc.partialBid {
			amt := das[0].OutflowTokenCurrentAmount.Amount.QuoRaw(3)
			c, err, _ := execMsg(a, ctx, auctiontypes.NewMsgPlaceDutchBid(w.bidders[0].String(), das[0].AuctionId, sdk.NewCoin("ucoll", amt), w.app, 3))
			must("V1 partial bid", c, err)
		}
		if sc.closeFirst || sc.closeLast {
			// buy out one auction: the target is reached, the auction and its locked vault are deleted
			d := das[0]
			if sc.closeLast {
				d = das[len(das)-1]
			}
			d, _ = a.AuctionKeeper.GetDutchAuction(ctx, w.app, 3, d.AuctionId)
			c, err, _ := execMsg(a, ctx, auctiontypes.NewMsgPlaceDutchBid(w.bidders[1].String(), d.AuctionId, sdk.NewCoin("ucoll", d.OutflowTokenCurrentAmount.Amount), w.app, 3))
			must("V1 closing bid", c, err)
			if n := len(a.AuctionKeeper.GetDutchAuctions(ctx, w.app)); n != sc.nLiq-1 {
				t.Fatalf("V1 closing bid: %d dutch auctions left, wanted %d", n, sc.nLiq-1)
			}
		}
	}
	return ctx
}

func c20LiqContinuation(w *c20LiqWorld, sc c20LiqScenario) []c20Step {
	a := w.a
	msg := func(m sdk.Msg) func(ctx sdk.Context) string {
		return func(ctx sdk.Context) string { c, _, _ := execMsg(a, ctx, m); return c }
	}
	none := func(ctx sdk.Context) uint64 { return 0 }
	okf := func(ctx sdk.Context) string { return "ok" }
	next := w.vaultIDs[sc.nLiq] // the next vault to be liquidated
	var steps []c20Step
	if sc.gen == 2 {
		steps = append(steps,
			c20Step{"liqv2.liquidate", "liquidationsV2", 3, msg(liquidationsV2types.NewMsgLiquidateInternalKeeperRequest(w.liquidator, 0, next)),
				func(ctx sdk.Context) uint64 { return a.NewliqKeeper.GetLockedVaultID(ctx) }},
			c20Step{"aucv2.auction-id", "auctionsV2", 1, okf, func(ctx sdk.Context) uint64 { return a.NewaucKeeper.GetAuctionID(ctx) }},
			c20Step{"aucv2.auctions", "auctionsV2", 1, okf, func(ctx sdk.Context) uint64 { return uint64(len(a.NewaucKeeper.GetAuctions(ctx))) }},
			// a bid on the auction that was just started, addressed by the id each chain assigned
			c20Step{"aucv2.bid-new", "auctionsV2", 5, func(ctx sdk.Context) string {
				c, _, _ := execMsg(a, ctx, auctionsV2types.NewMsgPlaceMarketBid(w.bidders[3].String(), a.NewaucKeeper.GetAuctionID(ctx), sdk.NewCoin("udebt", sdk.NewInt(sc.amt))))
				return c
			}, func(ctx sdk.Context) uint64 { return a.NewaucKeeper.GetUserBidID(ctx) }},
			c20Step{"aucv2.user-bids", "auctionsV2", 6, okf, func(ctx sdk.Context) uint64 { return uint64(len(a.NewaucKeeper.GetUserBids(ctx))) }},
			c20Step{"aucv2.limit-deposit", "auctionsV2", 3, msg(auctionsV2types.NewMsgDepositLimitBid(w.bidders[3].String(), w.coll, w.debt, sdk.NewInt(7), sdk.NewCoin("udebt", sdk.NewInt(sc.amt)))),
				func(ctx sdk.Context) uint64 { return a.NewaucKeeper.GetLimitAuctionBidID(ctx) }},
		)
		if sc.limitBid {
			steps = append(steps,
				c20Step{"aucv2.limit-withdraw", "auctionsV2", 8, msg(auctionsV2types.NewMsgWithdrawLimitBid(w.bidders[2].String(), w.coll, w.debt, sdk.NewInt(5), sdk.NewCoin("udebt", sdk.NewInt(sc.amt/2)))), none},
				c20Step{"aucv2.limit-cancel", "auctionsV2", 8, msg(auctionsV2types.NewMsgCancelLimitBid(w.bidders[2].String(), w.coll, w.debt, sdk.NewInt(5))), none},
			)
		}
		if sc.nLiq >= 2 {
			// an auction that was running before the export (its locked vault 2 is not the one a reset
			// locked-vault counter overwrites)
			steps = append(steps, c20Step{"aucv2.bid-old", "auctionsV2", 2, msg(auctionsV2types.NewMsgPlaceMarketBid(w.bidders[1].String(), 2, sdk.NewCoin("udebt", sdk.NewInt(sc.amt)))), none})
		}
		steps = append(steps,
			c20Step{"liqv2.locked-vault-1", "liquidationsV2", 3, okf, func(ctx sdk.Context) uint64 {
				lv, _ := a.NewliqKeeper.GetLockedVault(ctx, w.app, 1)
				return lv.OriginalVaultId
			}},
			c20Step{"aucv2.beginblock", "auctionsV2", 2, func(ctx sdk.Context) string {
				bctx := ctx.WithBlockHeight(ctx.BlockHeight() + 700).WithBlockTime(ctx.BlockTime().Add(3700 * time.Second))
				if p, _ := safely(func() { auctionsV2.BeginBlocker(bctx, a.NewaucKeeper) }); p {
					return "panic"
				}
				return "ok"
			}, func(ctx sdk.Context) uint64 {
				var s string
				for _, au := range a.NewaucKeeper.GetAuctions(ctx) {
					// the auctions that ran before the export, except number 1 (a reset auction id / locked
					// vault id re-issues 1: observed by the steps above)
					if au.AuctionId < 2 || au.AuctionId > uint64(sc.nLiq) || au.LockedVaultId < 2 || au.LockedVaultId > uint64(sc.nLiq) {
						continue
					}
					s += fmt.Sprintf("%d/%s/%s/%s;", au.AuctionId, au.CollateralToken.Amount, au.DebtToken.Amount, au.CollateralTokenAuctionPrice)
				}
				return c20Hash([]byte(s))
			}},
		)
	} else {
		sweep := func(ctx sdk.Context) string {
			bctx := ctx.WithBlockHeight(ctx.BlockHeight() + 1).WithBlockTime(ctx.BlockTime().Add(6 * time.Second))
			if p, _ := safely(func() { liquidation.BeginBlocker(bctx, abci.RequestBeginBlock{}, a.LiquidationKeeper) }); p {
				return "panic"
			}
			return "ok"
		}
		steps = append(steps,
			c20Step{"auc.lend-auctions", "auction", 32, okf, func(ctx sdk.Context) uint64 { return uint64(len(a.AuctionKeeper.GetDutchLendAuctions(ctx, w.app))) }},
			c20Step{"auc.lend-auction-id", "auction", 25, okf, func(ctx sdk.Context) uint64 { return a.AuctionKeeper.GetLendAuctionID(ctx) }},
			c20Step{"liq.sweep", "liquidation", 22, sweep, func(ctx sdk.Context) uint64 {
				h, _ := a.LiquidationKeeper.GetLiquidationOffsetHolder(ctx, w.app, liquidationtypes.VaultLiquidationsOffsetPrefix)
				return h.CurrentOffset
			}},
			c20Step{"liq.locked-vault-id", "liquidation", 1, okf, func(ctx sdk.Context) uint64 { return a.LiquidationKeeper.GetLockedVaultID(ctx) }},
			c20Step{"liq.locked-vaults", "liquidation", 1, okf, func(ctx sdk.Context) uint64 { return uint64(len(a.LiquidationKeeper.GetLockedVaults(ctx))) }},
			c20Step{"auc.auction-id", "auction", 19, okf, func(ctx sdk.Context) uint64 { return a.AuctionKeeper.GetAuctionID(ctx) }},
			c20Step{"auc.dutch-auctions", "auction", 19, okf, func(ctx sdk.Context) uint64 { return uint64(len(a.AuctionKeeper.GetDutchAuctions(ctx, w.app))) }},
			c20Step{"auc.bid", "auction", 18, func(ctx sdk.Context) string {
				das := a.AuctionKeeper.GetDutchAuctions(ctx, w.app)
				if len(das) == 0 {
					return "err"
				}
				d := das[len(das)-1]
				c, _, _ := execMsg(a, ctx, auctiontypes.NewMsgPlaceDutchBid(w.bidders[1].String(), d.AuctionId, sdk.NewCoin("ucoll", d.OutflowTokenCurrentAmount.Amount.QuoRaw(4)), w.app, 3))
				return c
			}, func(ctx sdk.Context) uint64 { return a.AuctionKeeper.GetUserBiddingID(ctx) }},
			c20Step{"auc.beginblock", "auction", 17, func(ctx sdk.Context) string {
				bctx := ctx.WithBlockHeight(ctx.BlockHeight() + 60).WithBlockTime(ctx.BlockTime().Add(400 * time.Second))
				if p, _ := safely(func() { auction.BeginBlocker(bctx, a.AuctionKeeper, a.AssetKeeper, a.CollectorKeeper, a.EsmKeeper) }); p {
					return "panic"
				}
				return "ok"
			}, func(ctx sdk.Context) uint64 { return uint64(len(a.AuctionKeeper.GetDutchAuctions(ctx, w.app))) }},
		)
	}
	// both generations: the vault module around the liquidated positions
	steps = append(steps,
		c20Step{"vault.length", "vault", 23, okf, func(ctx sdk.Context) uint64 { return a.VaultKeeper.GetLengthOfVault(ctx) }},
		c20Step{"vault.create", "vault", 21, msg(vaulttypes.NewMsgCreateRequest(w.owners[7], w.app, w.ep, sdk.NewInt(sc.amt*10), sdk.NewInt(sc.amt*4))),
			func(ctx sdk.Context) uint64 { return a.VaultKeeper.GetIDForVault(ctx) }},
		c20Step{"market.price", "market", 36, okf, func(ctx sdk.Context) uint64 { p, _ := a.MarketKeeper.GetLatestPrice(ctx, w.coll); return p }},
	)
	return steps
}

func TestC20Liq(t *testing.T) {
	a, base := newApp(t)
	tr := newTracer(t, "c20liq.trace")
	defer tr.close()
	r := newRng(seed() + 7777)
	ncases := envInt("VERIF_CASES", 8)
	only := envInt("VERIF_CASE", -1)
	mods := c20Modules()
	cdc := a.AppCodec()

	for ci := 0; ci < ncases; ci++ {
		sc := c20LiqScenario{gen: 1 + r.intn(2), nVaults: 3 + r.intn(4), partialBid: r.chance(70), closeFirst: r.chance(40), closeLast: r.chance(40), limitBid: r.chance(60),
			amt: r.pickI(1000000, 1500000, 2500000, 7000001) + int64(r.intn(1000))}
		sc.nLiq = 1 + r.intn(sc.nVaults-1)
		switch ci {
		case 0: // V2, everything, first auction still running
			sc.gen, sc.partialBid, sc.closeFirst, sc.limitBid = 2, true, false, true
			if sc.nLiq < 2 {
				sc.nLiq = 2
			}
		case 1: // V1, the first auction bought out (locked vault 1 deleted: fewer locked vaults than ids)
			sc.gen, sc.partialBid, sc.closeFirst, sc.closeLast = 1, true, true, false
			if sc.nLiq < 3 {
				sc.nLiq = 3
			}
		case 3: // V1, the newest auction bought out
			sc.gen, sc.partialBid, sc.closeFirst, sc.closeLast = 1, false, false, true
		case 2: // V2, first auction bought out before the export
			sc.gen, sc.partialBid, sc.closeFirst, sc.limitBid = 2, true, true, true
			if sc.nLiq < 2 {
				sc.nLiq = 2
			}
		}
		if sc.nLiq >= sc.nVaults {
			sc.nVaults = sc.nLiq + 1
		}
		if sc.gen == 1 {
			sc.limitBid = false
			if sc.closeFirst && sc.closeLast {
				sc.closeFirst = false
			}
			if sc.nLiq < 2 {
				sc.nLiq, sc.nVaults = 2, sc.nVaults+1
			}
		} else {
			sc.closeLast = false
		}
		if only >= 0 && ci != only {
			continue
		}
		ctx, _ := base.CacheContext()
		w := &c20LiqWorld{t: t, a: a}
		tr.p("case %d liq gen=%d vaults=%d liquidated=%d partial=%s closefirst=%s closelast=%s limit=%s amt=%d", ci, sc.gen, sc.nVaults, sc.nLiq,
			b2s(sc.partialBid), b2s(sc.closeFirst), b2s(sc.closeLast), b2s(sc.limitBid), sc.amt)
		ctx = c20LiqPopulate(w, ctx, sc)

		orig, _ := ctx.CacheContext()
		reimp, _ := ctx.CacheContext()
		for _, m := range mods {
			c20Wipe(a, reimp, m.store, m.store)
		}
		for _, m := range mods {
			m := m
			class := "ok"
			if p, msg := safely(func() { m.roundtrip(a, cdc, orig, reimp) }); p {
				class = "panic"
				t.Logf("case %d: %s export/import panicked: %s", ci, m.name, msg)
			}
			tr.p("imp %s %s", m.name, class)
		}
		c20DumpCompare(a, tr, mods, orig, reimp)
		// A sweep that starts from a different offset on the two chains (the offsets are not exported:
		// C20-F6) may liquidate different vaults; what the later steps observe then follows from that,
		// and they are attributed to the offset prefix instead of their own.
		sweepDiverged, afterSweep := false, false
		v1Offset := func(c sdk.Context) uint64 {
			h, _ := a.LiquidationKeeper.GetLiquidationOffsetHolder(c, w.app, liquidationtypes.VaultLiquidationsOffsetPrefix)
			return h.CurrentOffset
		}
		for i, st := range c20LiqContinuation(w, sc) {
			bo, bn := c20LiqBalances(w, orig), c20LiqBalances(w, reimp)
			offO, offN := v1Offset(orig), v1Offset(reimp)
			co := st.run(orig)
			cn := st.run(reimp)
			if st.name == "liq.sweep" && offO != offN && len(a.VaultKeeper.GetVaults(orig)) != len(a.VaultKeeper.GetVaults(reimp)) {
				sweepDiverged = true
			}
			dm, db := st.depMod, st.depByte
			if sweepDiverged && afterSweep {
				dm, db = "liquidation", 22
			}
			if st.name == "liq.sweep" {
				afterSweep = true
			}
			tr.p("cont %d %s %s %d %s %s %d %d %d %d", i, st.name, dm, db, co, cn, st.id(orig), st.id(reimp),
				c20BalDelta(bo, c20LiqBalances(w, orig)), c20BalDelta(bn, c20LiqBalances(w, reimp)))
		}
	}
}
