//go:build verif

// Package verifharness drives the real comdex keepers / message servers / block hooks and dumps
// per-step observations for the Coq-extracted models to replay (correspondence tie A).
package verifharness

import (
	"bufio"
	"fmt"
	"os"
	"strconv"
	"testing"
	"time"

	tmproto "github.com/cometbft/cometbft/proto/tendermint/types"
	sdk "github.com/cosmos/cosmos-sdk/types"

	chain "github.com/comdex-official/comdex/app"
)

// ---------- deterministic PRNG (splitmix64); every random choice derives from VERIF_SEED ----------
type rng struct{ s uint64 }

// The seed is passed through the splitmix finalizer before it becomes the state: with the state
// seed*GOLDEN + c (as it was at first) the streams of consecutive seeds were the same stream
// shifted by one draw, so "seeds 1, 2, 3" explored nearly the same cases.
func newRng(seed uint64) *rng {
	z := seed*0x9E3779B97F4A7C15 + 0x1234567
	z = (z ^ (z >> 30)) * 0xBF58476D1CE4E5B9
	z = (z ^ (z >> 27)) * 0x94D049BB133111EB
	return &rng{s: z ^ (z >> 31)}
}
func (r *rng) next() uint64 {
	r.s += 0x9E3779B97F4A7C15
	z := r.s
	z = (z ^ (z >> 30)) * 0xBF58476D1CE4E5B9
	z = (z ^ (z >> 27)) * 0x94D049BB133111EB
	return z ^ (z >> 31)
}
func (r *rng) intn(n int) int { return int(r.next() % uint64(n)) }
func (r *rng) chance(pct int) bool { return r.intn(100) < pct }
func (r *rng) pickU(xs ...uint64) uint64 { return xs[r.intn(len(xs))] }
func (r *rng) pickI(xs ...int64) int64 { return xs[r.intn(len(xs))] }

func envInt(name string, def int) int {
	if v := os.Getenv(name); v != "" {
		if i, err := strconv.Atoi(v); err == nil {
			return i
		}
	}
	return def
}

func seed() uint64 { return uint64(envInt("VERIF_SEED", 1)) }

// ---------- trace output ----------
type tracer struct {
	f *os.File
	w *bufio.Writer
}

func newTracer(t *testing.T, def string) *tracer {
	path := os.Getenv("VERIF_OUT")
	if path == "" {
		path = def
	}
	f, err := os.Create(path)
	if err != nil {
		t.Fatal(err)
	}
	return &tracer{f: f, w: bufio.NewWriterSize(f, 1<<20)}
}
func (tr *tracer) p(format string, a ...interface{}) { fmt.Fprintf(tr.w, format+"\n", a...) }
func (tr *tracer) close()                            { tr.w.Flush(); tr.f.Close() }

func b2s(b bool) string {
	if b {
		return "1"
	}
	return "0"
}

// safely runs f and reports whether it panicked
func safely(f func()) (panicked bool, msg string) {
	defer func() {
		if r := recover(); r != nil {
			panicked = true
			msg = fmt.Sprint(r)
		}
	}()
	f()
	return false, ""
}

// ---------- application ----------
var baseTime = time.Date(2024, 1, 1, 0, 0, 0, 0, time.UTC)

func newApp(t *testing.T) (*chain.App, sdk.Context) {
	a := chain.Setup(t, false)
	ctx := a.BaseApp.NewContext(false, tmproto.Header{Height: 1, Time: baseTime, ChainID: "verif-1"})
	return a, ctx
}
