//go:build verif

package verifharness

// C19, farmed values: the RAW inputs of the valuation GetFarmingRewardsData / GetAggregatedChildPoolContributions
// perform (per usable pool of the app: reserves, pool coin supply, the oracle data of the quote and of the base coin;
// per active farmer of the gauge's pool: the farmed pool coins in every pool), recorded next to the values the
// implementation returned (fobs / farm / calc lines).  The model Model/FarmValue.v recomputes the values from these.
//
//	fraw <i> <#pools> { <pool> <rx> <ry> <ps> <qfound> <qtwa> <qdecimals> <bfound> <btwa> <bdecimals> }* <#farmers> { <acct> <k> { <pool> <farmed pool coins> }*k }*

import (
	"fmt"
	"strings"

	sdk "github.com/cosmos/cosmos-sdk/types"

	rewardstypes "github.com/comdex-official/comdex/x/rewards/types"
)

func (w *c19World) farmRaw(ctx sdk.Context, g rewardstypes.Gauge) string {
	k := w.a.LiquidityKeeper
	meta := g.GetLiquidityMetaData()
	if meta == nil {
		return "err"
	}
	coin := func(denom string) string {
		twa, found, asset := k.OraclePrice(ctx, denom)
		if !found {
			return "0 0 0"
		}
		return fmt.Sprintf("1 %d %s", twa, asset.Decimals)
	}
	var pb strings.Builder
	var usable []uint64
	for _, pl := range k.GetAllPools(ctx, g.AppId) {
		kit, err := k.GetPoolTokenDesrializerKit(ctx, g.AppId, pl.Id)
		if err != nil {
			continue
		}
		usable = append(usable, pl.Id)
		fmt.Fprintf(&pb, " %d %s %s %s %s %s", pl.Id, kit.QuoteCoinPoolBalance.Amount, kit.BaseCoinPoolBalance.Amount, kit.PoolCoinSupply,
			coin(kit.Pair.QuoteCoinDenom), coin(kit.Pair.BaseCoinDenom))
	}
	var fb strings.Builder
	nf := 0
	for _, af := range k.GetAllActiveFarmers(ctx, g.AppId, meta.PoolId) {
		addr, err := sdk.AccAddressFromBech32(af.Farmer)
		if err != nil {
			continue
		}
		var ps strings.Builder
		n := 0
		for _, pid := range usable {
			if f, found := k.GetActiveFarmer(ctx, g.AppId, pid, addr); found {
				fmt.Fprintf(&ps, " %d %s", pid, f.FarmedPoolCoin.Amount)
				n++
			}
		}
		fmt.Fprintf(&fb, " %d %d%s", w.acct(addr.String()), n, ps.String())
		nf++
	}
	return fmt.Sprintf("%d%s %d%s", len(usable), pb.String(), nf, fb.String())
}
