//go:build verif

package verifharness

// C15 workload, part (iii): ERROR injection.  A unit of work that RETURNS AN ERROR after it has
// already written (the "or reports failure" half of the property) - reached through states the
// message handlers / governance setters / oracle prices produce, never by patching the code:
//
//   v2.vault        a vault on an extended pair with a FIXED debt price (AssetOutOraclePrice=false) whose
//                   debt asset has no oracle price: LiquidateIndividualVault passes its ratio check, sends
//                   the collateral to the auction module, stores the locked vault and its id, and then the
//                   dutch auction activator fails on the missing debt price (auctionsV2 auctions.go:56-59)
//   v2.borrow       another borrower has borrowed almost all of the pool's collateral-asset liquidity: the
//                   borrow is marked liquidated (SetBorrow) and then the transfer of its collateral from the
//                   pool module to the auction module fails (liquidate.go:376-378); a smaller borrow of the
//                   same sweep still goes through
//   v2.surplusdebt  English auctions switched off in the app's liquidation whitelisting: the surplus trigger
//                   takes its lot from the collector (coin movement + net-fee decrease) and then
//                   CreateLockedVault refuses the auction (liquidate.go:210-214)
//   v2.limitbid     two limit bids wait at the same premium of an auction whose collateral is worth less than
//                   its debt, and the app reserve is tiny: the first (a quarter of the debt) is filled
//                   (collateral out, user bid, auction and limit bid updated); the second (twice the debt),
//                   placed on the auction as the first one left it (fixes/C10-F6), runs out of collateral and
//                   fails when the app reserve cannot cover the shortfall (WithdrawAppReserveFundsFn,
//                   liquidate.go): the closure of that auction reports failure after all the writes of the
//                   first bid.  (Before fixes/C10-F6 the failing second bid was the one placed on the stale
//                   copy of an auction the first bid had closed - known finding C10-F6.)
//   v2.auction      an English (surplus) auction with a bid is past its end time and the app has no
//                   token-mint record: CloseEnglishAuction moves the lot collector -> auction module ->
//                   bidder and the bid to the token-mint module, and then BurnTokensForApp fails
//                   (auctions.go:388-391)
//
// Per case the harness
//   1. establishes, WITHOUT the hook, which items report failure and whether they had written before:
//      a reference sweep calls the unit's exported per-item function for every item on a branch of the
//      store (commit on success, drop on failure - the specification of the sweep);
//   2. runs the hook once with the recording probe (the natural run: no injected panic);
//   3. for every item that reported failure: the state after the hook must be the state in which this
//      item contributed nothing and every other unit everything - the reference for that is the run in
//      which the same item PANICS at its first store access (the panic path is what part (ii) checks);
//      for every item that succeeded with writes its contribution must be visible.
// Trace line:  e <unit> <item> <late> <wrapped> <committed> <returned> <diff> <others>
//   late = the item wrote before it reported failure; committed = the item's cache was written back.

import (
	"fmt"
	"strings"
	"testing"
	"time"

	abci "github.com/cometbft/cometbft/abci/types"
	sdk "github.com/cosmos/cosmos-sdk/types"

	chain "github.com/comdex-official/comdex/app"
	"github.com/comdex-official/comdex/app/wasm/bindings"
	auctionsV2types "github.com/comdex-official/comdex/x/auctionsV2/types"
	"github.com/comdex-official/comdex/x/esm"
	esmtypes "github.com/comdex-official/comdex/x/esm/types"
	lockertypes "github.com/comdex-official/comdex/x/locker/types"
	rewardstypes "github.com/comdex-official/comdex/x/rewards/types"
	lendtypes "github.com/comdex-official/comdex/x/lend/types"
	"github.com/comdex-official/comdex/x/liquidationsV2"
	liqV2types "github.com/comdex-official/comdex/x/liquidationsV2/types"
	vaulttypes "github.com/comdex-official/comdex/x/vault/types"
)

// an item of an error case: one invocation of a per-item (or per-step) function by the hook
type c15Item struct {
	id     uint64
	marker string // suffix of the qualified name of the function the hook runs for this item
}

type c15ErrCase struct {
	unit, hook, state string
	prep              func(t *testing.T, a *chain.App, ctx sdk.Context, e *c15Env) (sdk.Context, string) // reachable steps; may move the clock
	items             func(a *chain.App, ctx sdk.Context, e *c15Env) []c15Item // in the order the hook visits them (snapshot)
	direct            func(a *chain.App, ctx sdk.Context, e *c15Env, it c15Item) error
	before            func(a *chain.App, ctx sdk.Context) // what the hook does before it reaches the items (reference sweep only)
}

func c15Items(marker string, ids []uint64) []c15Item {
	var out []c15Item
	for _, id := range ids {
		out = append(out, c15Item{id, marker})
	}
	return out
}

// ---------- reachable set-ups ----------

// a third vault on a fixed-price extended pair whose debt asset has no oracle price
func c15PrepFixedPriceVault(t *testing.T, a *chain.App, ctx sdk.Context, e *c15Env) (sdk.Context, string) {
	a2 := e.assets[1]
	c15SetPrice(a, ctx, a2, 2000000, true) // the collateral is worth 2 again while the vault is opened
	debt := addAsset(t, a, ctx, "FIXSTABLE", "ufixstable", 1000000, false, true)
	pair := addPair(t, a, ctx, a2, debt)
	ext := addExtPair(t, a, ctx, extPairCfg{Name: "CMDX-FIX", App: e.appHarbor, Pair: pair, StabilityFee: c15Dec("0.01"), ClosingFee: c15Dec("0"),
		LiqPenalty: c15Dec("0.12"), DrawDownFee: c15Dec("0.01"), MinCr: c15Dec("1.5"), DebtCeiling: sdk.NewInt(1000000000000), DebtFloor: sdk.NewInt(1000000),
		Stable: false, Active: true, OraclePrice: false, AssetOutPrice: 1000000, MinUsdValLeft: 1000000})
	who := addrN(141)
	fund(t, a, ctx, who, sdk.NewCoins(sdk.NewCoin("uasset2", sdk.NewInt(100000000))))
	class, err, _ := execMsg(a, ctx, &vaulttypes.MsgCreateRequest{From: who.String(), AppId: e.appHarbor, ExtendedPairVaultId: ext,
		AmountIn: sdk.NewInt(1000000), AmountOut: sdk.NewInt(1000000)})
	if class != "ok" {
		t.Logf("fixed-price vault: %s %v", class, err)
	}
	c15SetPrice(a, ctx, a2, 1000000, true) // ... and falls to 1: ratio 1.0 < 1.5
	return ctx, fmt.Sprintf("extpair=%d create=%s", ext, class)
}

// a third borrower takes almost all of the uasset1 liquidity of pool 1 (the collateral asset of the
// fixture's two borrows), against uasset2 collateral, at a healthy ratio
func c15PrepDrainedPool(t *testing.T, a *chain.App, ctx sdk.Context, e *c15Env) (sdk.Context, string) {
	a1, a2 := e.assets[0], e.assets[1]
	who := addrN(142)
	fund(t, a, ctx, who, sdk.NewCoins(sdk.NewCoin("uasset2", sdk.NewInt(60000000000))))
	lendClass, _, _ := execMsg(a, ctx, lendtypes.NewMsgLend(who.String(), a2, sdk.NewCoin("uasset2", sdk.NewInt(50000000000)), 1, e.appCommodo))
	lendID := a.LendKeeper.GetUserLendIDCounter(ctx)
	pairID := uint64(0)
	for _, p := range a.LendKeeper.GetLendPairs(ctx) {
		if p.AssetIn == a2 && p.AssetOut == a1 && !p.IsInterPool && p.AssetOutPoolID == 1 {
			pairID = p.Id
		}
	}
	pool := bal(a, ctx, modAddr("cmdx"), "uasset1")
	// leave 500 uasset1 units more than the smaller borrow's collateral, less than the larger one's
	want := pool.Sub(sdk.NewInt(500000000))
	borrowClass, err, _ := execMsg(a, ctx, lendtypes.NewMsgBorrow(who.String(), lendID, pairID, false, sdk.NewCoin("ucasset2", sdk.NewInt(50000000000)),
		sdk.NewCoin("uasset1", want)))
	if borrowClass != "ok" {
		t.Logf("draining borrow: %s %v", borrowClass, err)
	}
	// the collateral asset of the fixture's borrows loses another 20%: debt / collateral = 0.7 / 0.8 > 0.75
	c15SetPrice(a, ctx, a1, 800000, true)
	return ctx, fmt.Sprintf("lend=%s pair=%d borrow=%s pool_left=%s", lendClass, pairID, borrowClass, bal(a, ctx, modAddr("cmdx"), "uasset1"))
}

func c15PrepEnglishOff(t *testing.T, a *chain.App, ctx sdk.Context, e *c15Env) (sdk.Context, string) {
	c15ApplyFault(t, a, ctx, e, "english-off", nil)
	// a second unit AFTER the failing one in the sweep's order (same app, next asset): an auction mapping
	// whose pair has nothing to do in this block.  The sweep must still reach it when the first unit
	// reports its failure (the error case compares how often the hook ran the unit function)
	if err := a.CollectorKeeper.WasmSetAuctionMappingForApp(ctx, &bindings.MsgSetAuctionMappingForApp{AppID: e.appHarbor, AssetIDs: e.assets[3], IsSurplusAuctions: true,
		IsDebtAuctions: false, IsDistributor: false, AssetOutOraclePrices: false, AssetOutPrices: 1000000}); err != nil {
		t.Fatalf("second auction mapping: %v", err)
	}
	return ctx, "english-off+second-unit"
}

// two external locker-reward programmes, the first on the swap app (with a locker that earns), the
// second - created later - on the lend app, whose kill switch is then turned on (MsgKillRequest);
// one day later the first programme is due
func c15PrepLockerRewards(t *testing.T, a *chain.App, ctx sdk.Context, e *c15Env) (sdk.Context, string) {
	a1 := e.assets[0]
	who := addrN(143)
	fund(t, a, ctx, who, sdk.NewCoins(sdk.NewCoin("uasset1", sdk.NewInt(2000000000)), sdk.NewCoin("uasset3", sdk.NewInt(100000000))))
	var log []string
	for _, app := range []uint64{e.appSwap, e.appCommodo} {
		if _, err := a.LockerKeeper.AddWhiteListedAsset(ctx, lockertypes.NewMsgAddWhiteListedAssetRequest(who.String(), app, a1)); err != nil {
			log = append(log, "whitelist:"+err.Error())
		}
	}
	if err := a.CollectorKeeper.WasmSetCollectorLookupTable(ctx, &bindings.MsgSetCollectorLookupTable{AppID: e.appSwap, CollectorAssetID: a1, SecondaryAssetID: e.assets[1],
		SurplusThreshold: sdk.NewInt(10000000), DebtThreshold: sdk.NewInt(5000000), LockerSavingRate: c15Dec("0.1"), LotSize: sdk.NewInt(2000000),
		BidFactor: c15Dec("0.01"), DebtLotSize: sdk.NewInt(2000000)}); err != nil {
		log = append(log, "lookup:"+err.Error())
	}
	c, err, _ := execMsg(a, ctx, lockertypes.NewMsgCreateLockerRequest(who.String(), sdk.NewInt(1000000000), a1, e.appSwap))
	if err != nil {
		t.Logf("c15_locker: %v", err)
	}
	log = append(log, "locker:"+c)
	for _, app := range []uint64{e.appSwap, e.appCommodo} {
		c, err, _ = execMsg(a, ctx, rewardstypes.NewMsgActivateExternalRewardsLockers(app, a1, sdk.NewCoin("uasset3", sdk.NewInt(5000000)), 5, 1, who))
		if err != nil {
			t.Logf("c15_programme: %v", err)
		}
		log = append(log, "programme:"+c)
	}
	if err := a.EsmKeeper.SetKillSwitchData(ctx, esmtypes.KillSwitchParams{AppId: e.appCommodo, BreakerEnable: true}); err != nil {
		log = append(log, "killswitch:"+err.Error())
	}
	ctx = ctx.WithBlockHeight(ctx.BlockHeight() + 14400).WithBlockTime(ctx.BlockTime().Add(24*time.Hour + 10*time.Minute))
	return ctx, strings.Join(log, ",")
}

// emergency shutdown of the vault app: trigger parameters that give a rate for the oracle-priced debt
// asset only, the deposit target reached (the state MsgDepositESM leaves), MsgExecuteESM, the price
// snapshot taken by the hook in that block, and the cool-off period over.  The app has the two
// fixture vaults and a third one on the fixed-price extended pair whose debt asset has neither a
// rate nor a snapshot: the vault redemption step moves the first two vaults' collateral to the esm
// module, writes the totals, deletes the vaults - and then fails on the third (esm.go:388-392)
func c15PrepEsmVaultRedemption(t *testing.T, a *chain.App, ctx sdk.Context, e *c15Env) (sdk.Context, string) {
	_, d := c15PrepFixedPriceVault(t, a, ctx, e)
	var log []string
	log = append(log, d)
	target := sdk.NewCoin("uasset4", sdk.NewInt(100))
	if err := a.EsmKeeper.AddESMTriggerParamsForApp(ctx, &bindings.MsgAddESMTriggerParams{AppID: e.appHarbor, TargetValue: target, CoolOffPeriod: 3600,
		AssetID: []uint64{e.assets[2]}, Rates: []uint64{1000000}}); err != nil {
		log = append(log, "params:"+err.Error())
	}
	a.EsmKeeper.SetCurrentDepositStats(ctx, esmtypes.CurrentDepositStats{AppId: e.appHarbor, Balance: target})
	if err := a.EsmKeeper.ExecuteESM(ctx, e.user1.String(), e.appHarbor); err != nil {
		log = append(log, "execute:"+err.Error())
	}
	esm.BeginBlocker(ctx, abci.RequestBeginBlock{}, a.EsmKeeper, a.AssetKeeper) // the snapshot block
	st, _ := a.EsmKeeper.GetESMStatus(ctx, e.appHarbor)
	log = append(log, "snapshot:"+b2s(st.SnapshotStatus))
	ctx = ctx.WithBlockHeight(ctx.BlockHeight() + 1200).WithBlockTime(ctx.BlockTime().Add(2 * time.Hour))
	return ctx, strings.Join(log, ",")
}

// the surplus (English) auction the V2 sweep starts on state p2s gets a bid; two hours later it is past
// its end time.  The vault app has no token-mint record (it was created without genesis tokens), so
// closing the auction moves the lot collector -> auction module -> bidder and the bid to the
// token-mint module, and then BurnTokensForApp fails (auctions.go:388-391, tokenmint mint.go:116)
func c15PrepEnglishClose(t *testing.T, a *chain.App, ctx sdk.Context, e *c15Env) (sdk.Context, string) {
	liquidationsV2.BeginBlocker(ctx, abci.RequestBeginBlock{}, a.NewliqKeeper)
	var log []string
	n := 0
	for _, au := range a.NewaucKeeper.GetAuctions(ctx) {
		if au.AuctionType {
			continue
		}
		n++
		amt := au.DebtToken.Amount.Add(sdk.NewInt(1000))
		fund(t, a, ctx, e.user1, sdk.NewCoins(sdk.NewCoin(au.DebtToken.Denom, amt)))
		c, err, _ := execMsg(a, ctx, &auctionsV2types.MsgPlaceMarketBidRequest{AuctionId: au.AuctionId, Bidder: e.user1.String(), Amount: sdk.NewCoin(au.DebtToken.Denom, amt)})
		if err != nil {
			t.Logf("c15_english_bid: %v", err)
		}
		log = append(log, fmt.Sprintf("bid[%d]:%s", au.AuctionId, c))
	}
	log = append(log, fmt.Sprintf("english=%d", n))
	ctx = ctx.WithBlockHeight(ctx.BlockHeight() + 1200).WithBlockTime(ctx.BlockTime().Add(2 * time.Hour))
	return ctx, strings.Join(log, ",")
}

// what the closure of AuctionIterator runs for one auction (auctions.go:148-236), through the
// exported functions it calls
func c15AuctionStep(a *chain.App, ctx sdk.Context, id uint64) error {
	au, err := a.NewaucKeeper.GetAuction(ctx, id)
	if err != nil {
		return nil
	}
	ended := ctx.BlockTime().After(au.EndTime)
	if au.AuctionType {
		st, found := a.EsmKeeper.GetESMStatus(ctx, au.AppId)
		if found && st.Status {
			if ended {
				lv, _ := a.NewliqKeeper.GetLockedVault(ctx, au.AppId, au.LockedVaultId)
				if lv.InitiatorType == "vault" {
					return a.NewaucKeeper.TriggerEsm(ctx, au, lv)
				}
				return nil
			}
			return a.NewaucKeeper.UpdateDutchAuction(ctx, au)
		}
		if ended {
			return a.NewaucKeeper.RestartDutchAuction(ctx, au)
		}
		return a.NewaucKeeper.UpdateDutchAuction(ctx, au)
	}
	if ended {
		if au.ActiveBiddingId != 0 {
			return a.NewaucKeeper.CloseEnglishAuction(ctx, au)
		}
		return a.NewaucKeeper.RestartEnglishAuction(ctx, au)
	}
	return nil
}

// two limit bids wait at the premium the dutch auctions will show at the hook's block time, each
// large enough to close an auction alone
func c15PrepTwoLimitBids(t *testing.T, a *chain.App, ctx sdk.Context, e *c15Env) (sdk.Context, string) {
	var log []string
	// dutch auctions that start 20% above the oracle price and fall to 84% of it within the hour (the
	// parameters of the repository's own auction tests), set through the whitelisting setter a
	// governance proposal executes; then the sweep liquidates the two fixture vaults
	if w, found := a.NewliqKeeper.GetLiquidationWhiteListing(ctx, e.appHarbor); found {
		w.DutchAuctionParam = &liqV2types.DutchAuctionParam{Premium: c15Dec("1.2"), Discount: c15Dec("0.7"), DecrementFactor: sdk.NewInt(1)}
		a.NewliqKeeper.SetLiquidationWhiteListing(ctx, w)
	}
	liquidationsV2.BeginBlocker(ctx, abci.RequestBeginBlock{}, a.NewliqKeeper)
	// the premium after the hook's own price update, looked up on a scratch branch
	premium := sdk.NewInt(-1)
	var first auctionsV2types.Auction
	for step := 0; step < 14 && premium.IsNegative(); step++ {
		scratch, _ := ctx.CacheContext()
		_ = a.NewaucKeeper.AuctionIterator(scratch)
		for _, au := range a.NewaucKeeper.GetAuctions(scratch) {
			if au.AuctionType && au.CollateralTokenOraclePrice.GT(au.CollateralTokenAuctionPrice) && premium.IsNegative() {
				pr := au.CollateralTokenOraclePrice.Sub(au.CollateralTokenAuctionPrice).Quo(au.CollateralTokenOraclePrice).Mul(sdk.NewDec(100)).TruncateInt()
				if pr.IsPositive() && pr.LTE(sdk.NewIntFromUint64(auctionsV2types.MaxPremiumDiscount)) {
					premium, first = pr, au
				}
			}
		}
		if premium.IsNegative() {
			ctx = ctx.WithBlockHeight(ctx.BlockHeight() + 50).WithBlockTime(ctx.BlockTime().Add(5 * time.Minute))
		}
	}
	if premium.IsNegative() {
		return ctx, "no-discounted-auction"
	}
	debt := first.DebtToken
	c, err, _ := execMsg(a, ctx, &liqV2types.MsgAppReserveFundsRequest{AppId: first.AppId, AssetId: first.DebtAssetId, TokenQuantity: sdk.NewCoin(debt.Denom, sdk.NewInt(1000)), From: e.user1.String()})
	if err != nil {
		t.Logf("c15_reserve: %v", err)
	}
	log = append(log, "reserve:"+c)
	// the store lists addrN(145) before addrN(144) (by address string): a quarter of the debt is bid first, then twice the debt
	for i, who := range []sdk.AccAddress{addrN(144), addrN(145)} {
		amt := []sdk.Int{debt.Amount.MulRaw(2), debt.Amount.QuoRaw(4)}[i]
		fund(t, a, ctx, who, sdk.NewCoins(sdk.NewCoin(debt.Denom, amt)))
		c, err, _ = execMsg(a, ctx, &auctionsV2types.MsgDepositLimitBidRequest{CollateralTokenId: first.CollateralAssetId, DebtTokenId: first.DebtAssetId,
			PremiumDiscount: premium, Bidder: who.String(), Amount: sdk.NewCoin(debt.Denom, amt)})
		if err != nil {
			t.Logf("c15_limitbid: %v", err)
		}
		log = append(log, "limitbid:"+c)
	}
	log = append(log, "premium="+premium.String())
	return ctx, strings.Join(log, ",")
}

// what the closure of LimitOrderBid runs for one auction (auctions.go, after fixes/C10-F6 and fixes/C10-F5): the
// bids waiting at the auction's premium are placed one after the other, each on the auction as the previous one
// left it; a bid that closed the auction (its locked vault is gone) ends the closure
func c15LimitBidStep(a *chain.App, ctx sdk.Context, id uint64) error {
	au, err := a.NewaucKeeper.GetAuction(ctx, id)
	if err != nil || !au.CollateralTokenOraclePrice.GT(au.CollateralTokenAuctionPrice) {
		return nil
	}
	premium := au.CollateralTokenOraclePrice.Sub(au.CollateralTokenAuctionPrice).Quo(au.CollateralTokenOraclePrice).Mul(sdk.NewDecFromInt(sdk.NewInt(100))).TruncateInt()
	bids, found := a.NewaucKeeper.GetUserLimitBidDataByPremium(ctx, au.DebtAssetId, au.CollateralAssetId, premium)
	if !found {
		return nil
	}
	for _, b := range bids {
		if _, found := a.NewliqKeeper.GetLockedVault(ctx, au.AppId, au.LockedVaultId); !found {
			return nil
		}
		cur, err := a.NewaucKeeper.GetAuction(ctx, id)
		if err != nil {
			return err
		}
		addr, _ := sdk.AccAddressFromBech32(b.BidderAddress)
		if _, err := a.NewaucKeeper.PlaceDutchAuctionBid(ctx, cur.AuctionId, addr.String(), b.DebtToken, cur, true); err != nil {
			return err
		}
		// (the bookkeeping of the limit-bid records that follows charges the amount of the user bid just created,
		// which is never more than the limit bid holds: no reachable error path)
	}
	return nil
}

var c15RewardSteps = []struct {
	marker string
	run    func(a *chain.App, ctx sdk.Context) error
}{
	{"rewards/keeper.Keeper.DistributeExtRewardLocker", func(a *chain.App, ctx sdk.Context) error { return a.Rewardskeeper.DistributeExtRewardLocker(ctx) }},
	{"rewards/keeper.Keeper.DistributeExtRewardVault", func(a *chain.App, ctx sdk.Context) error { return a.Rewardskeeper.DistributeExtRewardVault(ctx) }},
	{"rewards/keeper.Keeper.DistributeExtRewardLend", func(a *chain.App, ctx sdk.Context) error { return a.Rewardskeeper.DistributeExtRewardLend(ctx) }},
	{"rewards/keeper.Keeper.CombinePSMUserPositions", func(a *chain.App, ctx sdk.Context) error { return a.Rewardskeeper.CombinePSMUserPositions(ctx) }},
	{"rewards/keeper.Keeper.DistributeExtRewardStableVault", func(a *chain.App, ctx sdk.Context) error { return a.Rewardskeeper.DistributeExtRewardStableVault(ctx) }},
}

func c15SurplusItems(a *chain.App, ctx sdk.Context, _ *c15Env) []c15Item {
	var out []uint64
	maps, _ := a.CollectorKeeper.GetAllAuctionMappingForApp(ctx)
	for _, m := range maps {
		ks, _ := a.EsmKeeper.GetKillSwitchData(ctx, m.AppId)
		if !m.IsAuctionActive && !ks.BreakerEnable {
			out = append(out, m.AppId<<32|m.AssetId)
		}
	}
	return c15Items("liquidationsV2/keeper.Keeper.CheckStatsForSurplusAndDebt", out)
}

var c15ErrCases = []c15ErrCase{
	{unit: "v2.vault", hook: "liquidationsV2.BeginBlocker", state: "p1",
		prep: c15PrepFixedPriceVault,
		items: func(a *chain.App, ctx sdk.Context, _ *c15Env) []c15Item {
			var out []uint64
			for _, v := range a.VaultKeeper.GetVaults(ctx) {
				out = append(out, v.Id)
			}
			return c15Items("liquidationsV2/keeper.Keeper.LiquidateIndividualVault", out)
		},
		direct: func(a *chain.App, ctx sdk.Context, _ *c15Env, it c15Item) error {
			return a.NewliqKeeper.LiquidateIndividualVault(ctx, it.id, "", false)
		}},
	{unit: "v2.borrow", hook: "liquidationsV2.BeginBlocker", state: "p1",
		prep: c15PrepDrainedPool,
		items: func(a *chain.App, ctx sdk.Context, _ *c15Env) []c15Item {
			bs, _ := a.LendKeeper.GetBorrows(ctx)
			return c15Items("liquidationsV2/keeper.Keeper.LiquidateIndividualBorrow", bs)
		},
		direct: func(a *chain.App, ctx sdk.Context, _ *c15Env, it c15Item) error {
			return a.NewliqKeeper.LiquidateIndividualBorrow(ctx, it.id, "", false)
		}},
	{unit: "v2.surplusdebt", hook: "liquidationsV2.BeginBlocker", state: "p2s",
		prep:  c15PrepEnglishOff,
		items: c15SurplusItems,
		direct: func(a *chain.App, ctx sdk.Context, _ *c15Env, it c15Item) error {
			return a.NewliqKeeper.CheckStatsForSurplusAndDebt(ctx, it.id>>32, it.id&0xffffffff)
		}},
	{unit: "v2.auction", hook: "auctionsV2.BeginBlocker", state: "p2s",
		prep: c15PrepEnglishClose,
		items: func(a *chain.App, ctx sdk.Context, _ *c15Env) []c15Item {
			var ids []uint64
			for _, au := range a.NewaucKeeper.GetAuctions(ctx) {
				ids = append(ids, au.AuctionId)
			}
			return c15Items("auctionsV2/keeper.Keeper.AuctionIterator.func1", ids)
		},
		direct: func(a *chain.App, ctx sdk.Context, _ *c15Env, it c15Item) error { return c15AuctionStep(a, ctx, it.id) }},
	{unit: "v2.limitbid", hook: "auctionsV2.BeginBlocker", state: "p1",
		prep: c15PrepTwoLimitBids,
		items: func(a *chain.App, ctx sdk.Context, _ *c15Env) []c15Item {
			var ids []uint64
			for _, au := range a.NewaucKeeper.GetAuctions(ctx) {
				ids = append(ids, au.AuctionId)
			}
			return c15Items("auctionsV2/keeper.Keeper.LimitOrderBid.func1", ids)
		},
		// LimitOrderBid reads the auctions after AuctionIterator has run in the same hook
		before: func(a *chain.App, ctx sdk.Context) { _ = a.NewaucKeeper.AuctionIterator(ctx) },
		direct: func(a *chain.App, ctx sdk.Context, _ *c15Env, it c15Item) error { return c15LimitBidStep(a, ctx, it.id) }},
	// the incentive hook: its steps in the order of x/rewards/abci.go (TriggerAndUpdateEpochInfos has no error result)
	{unit: "rewards.hook", hook: "rewards.BeginBlocker", state: "p1",
		prep: c15PrepLockerRewards,
		items: func(a *chain.App, ctx sdk.Context, _ *c15Env) []c15Item {
			var out []c15Item
			for i, st := range c15RewardSteps {
				out = append(out, c15Item{uint64(i), st.marker})
			}
			return out
		},
		direct: func(a *chain.App, ctx sdk.Context, _ *c15Env, it c15Item) error { return c15RewardSteps[it.id].run(a, ctx) }},
	// the emergency-shutdown hook: the vault redemption step of the app under shutdown
	{unit: "esm.hook", hook: "esm.BeginBlocker", state: "p1",
		prep: c15PrepEsmVaultRedemption,
		items: func(a *chain.App, ctx sdk.Context, e *c15Env) []c15Item {
			return []c15Item{{e.appHarbor, "esm/keeper.Keeper.SetUpCollateralRedemptionForVault"}}
		},
		direct: func(a *chain.App, ctx sdk.Context, _ *c15Env, it c15Item) error {
			params, _ := a.EsmKeeper.GetESMTriggerParams(ctx, it.id)
			return a.EsmKeeper.SetUpCollateralRedemptionForVault(ctx, it.id, params)
		}},
}

// number of descendants of wrap w (1-based) that open after consumption k
func c15LostAfter(wraps []c15Wrap, w, k int) int {
	c := 0
	for j := range wraps {
		x := j + 1
		for x != 0 && x != w {
			x = wraps[x-1].parent
		}
		if x == w && j+1 != w && (wraps[j].first < 0 || wraps[j].first > k) {
			c++
		}
	}
	return c
}

func c15RunErrorCases(t *testing.T, a *chain.App, tr *tracer, r *rng, only int, states map[string]sdk.Context, env *c15Env, ci int) int {
	for _, ec := range c15ErrCases {
		_ = r.next()
		if only >= 0 && only != ci {
			ci++
			continue
		}
		ctx0, _ := states[ec.state].CacheContext()
		ctx0, detail := ec.prep(t, a, ctx0, env)
		tr.p("case %d err %s %s %s %s", ci, ec.unit, ec.hook, ec.state, detail)
		c15ErrorCase(t, a, tr, ec, ctx0, env)
		ci++
	}
	return ci
}

func c15ErrorCase(t *testing.T, a *chain.App, tr *tracer, ec c15ErrCase, ctx0 sdk.Context, env *c15Env) {
	h := c15HookByName(ec.hook)
	// 1. reference sweep: which items report failure, and had they written?
	ref, _ := ctx0.CacheContext()
	if ec.before != nil {
		ec.before(a, ref)
	}
	items := ec.items(a, ref, env)
	failed := make([]bool, len(items))
	wrote := make([]bool, len(items))
	for i, it := range items {
		br, write := ref.CacheContext()
		d0 := storeDigest(a, br)
		var err error
		panicked, _ := safely(func() { err = ec.direct(a, br, env, it) })
		failed[i] = panicked || err != nil
		wrote[i] = storeDigest(a, br) != d0
		if !failed[i] {
			write()
		}
		tr.p("item %d %d %s %s", i, it.id, b2s(failed[i]), b2s(wrote[i]))
	}
	// 2. the natural run of the hook; the probe notes in which ApplyFuncIfNoError instance each marked
	// function performs its store accesses
	p := &c15Probe{crashAt: -1, record: true, seen: map[string][]int{}}
	for _, it := range items {
		dup := false
		for _, m := range p.markers {
			dup = dup || m == it.marker
		}
		if !dup {
			p.markers = append(p.markers, it.marker)
		}
	}
	fctx := c15Probed(ctx0, p)
	panicked, msg := safely(func() { h.run(a, fctx) })
	p.disabled = true
	if panicked {
		tr.p("errprobe 0 0 %d panic %s", len(items), strings.ReplaceAll(msg, " ", "_"))
		return
	}
	full := storeDigest(a, fctx)
	pre := storeDigest(a, ctx0)
	wraps := p.wraps
	// item -> wrap instance: the j-th item carrying marker m runs in the j-th instance noted for m
	wrapOf := make([]int, len(items))
	nth := map[string]int{}
	attributed := 0
	for i, it := range items {
		j := nth[it.marker]
		nth[it.marker]++
		wrapOf[i] = -1
		if l := p.seen[it.marker]; j < len(l) {
			wrapOf[i] = l[j]
			attributed++
		}
	}
	for m, l := range p.seen {
		if len(l) != nth[m] {
			attributed = -1 // the hook ran the function a different number of times than the reference sweep
		}
	}
	tr.p("errprobe %d %d %d ok", p.n, attributed, len(items))
	runCrash := func(k int) (returned bool, digest string, started int) {
		q := &c15Probe{crashAt: k}
		cctx := c15Probed(ctx0, q)
		pk, _ := safely(func() { h.run(a, cctx) })
		q.disabled = true
		return !pk, storeDigest(a, cctx), len(q.wraps)
	}
	// 3. per item.  Reference "this unit contributed nothing, every other unit everything": the run in
	// which the unit's ApplyFuncIfNoError instance panics at its first store access
	type ref3 struct {
		d       string
		started int
		ret     bool
	}
	memo := map[int]ref3{}
	noneOf := func(w int) ref3 {
		if r, ok := memo[w]; ok {
			return r
		}
		r := ref3{full, len(wraps), true}
		if first := wraps[w-1].first; first >= 0 {
			ret, d, started := runCrash(first)
			r = ref3{d, started, ret}
		}
		memo[w] = r
		return r
	}
	visible := 1
	for i := range items {
		if !failed[i] && wrote[i] && wrapOf[i] > 0 && attributed == len(items) {
			if noneOf(wrapOf[i]).d == full {
				visible = 0 // a unit that succeeded with writes is not visible after the hook
			}
		}
	}
	for i := range items {
		if !failed[i] {
			continue
		}
		w := wrapOf[i]
		switch {
		case attributed != len(items) || w < 0:
			// the item cannot be attributed to an instance: judged against "the hook changed nothing"
			diff := 2
			if full == pre {
				diff = 0
			}
			tr.p("e %s %d %s 0 1 1 %d 0", ec.unit, i, b2s(wrote[i]), diff)
		case w == 0:
			// the item ran outside every ApplyFuncIfNoError: there is no branch of the store to drop
			diff := 2
			if full == pre {
				diff = 0
			}
			tr.p("e %s %d %s 0 1 1 %d %d", ec.unit, i, b2s(wrote[i]), diff, visible)
		default:
			r := noneOf(w)
			diff := 2
			if r.d == full {
				diff = 0
			}
			others := 0
			if r.ret && r.started == len(wraps)-c15LostAfter(wraps, w, wraps[w-1].first) && visible == 1 {
				others = 1
			}
			tr.p("e %s %d %s 1 %s 1 %d %d", ec.unit, i, b2s(wrote[i]), b2s(wraps[w-1].committed), diff, others)
		}
	}
}

var _ = time.Second
var _ = abci.RequestBeginBlock{}
var _ = auctionsV2types.ModuleName
var _ = liquidationsV2.BeginBlocker
