//go:build verif

package verifharness

import (
	"fmt"
	"math"
	"strings"
	"testing"
	"time"

	sdk "github.com/cosmos/cosmos-sdk/types"

	lendtypes "github.com/comdex-official/comdex/x/lend/types"
)

// TestC18 calls the REAL accrual and rate functions and dumps inputs and results:
//   L  CalculateLendReward        B  CalculateBorrowInterest      S  CalculateStableInterest
//   C  Rewardskeeper.CalculationOfRewards (float path; x, y, f = math.Pow(x, y) recomputed from the
//      same operands by the same expression and printed as IEEE bit patterns)
//   R  GetUtilisationRatioByPoolIDAndAssetID / GetBorrowAPRByAssetID (both kinds) /
//      GetLendAPRByAssetIDAndPoolID on a lend-pool fixture
// A case is a small group of observations of one kind on neighbouring inputs (monotonicity) or on
// consecutive intervals (sub-additivity).

const c18Year = 31557600

var c18One = sdk.OneDec()

func c18DecU(v uint64) sdk.Dec { return sdk.NewDecFromBigIntWithPrec(sdk.NewIntFromUint64(v).BigInt(), 18) }

type c18Gen struct{ r *rng }

func (g c18Gen) amt() int64 {
	lat := []int64{1, 2, 999, 1000000, 1000000000, 1000000000000, 1 << 40, 1 << 53, 1<<53 + 1, 1 << 62, 1<<62 + 12345}
	if g.r.chance(60) {
		return lat[g.r.intn(len(lat))]
	}
	return int64(g.r.next()>>uint(1+g.r.intn(62))) + 1
}

// rates 0 .. 10 as scaled integers, including 10^-18
func (g c18Gen) rate() uint64 {
	lat := []uint64{0, 1, 1000000000000000, 20000000000000000, 50000000000000000, 130000000000000000, 1000000000000000000,
		2500000000000000000, 10000000000000000000, 9999999999999999999}
	if g.r.chance(60) {
		return lat[g.r.intn(len(lat))]
	}
	return g.r.next() % 10000000000000000001
}

func (g c18Gen) secs() int64 {
	lat := []int64{0, 1, 6, 86400, c18Year, 30 * c18Year, 5, 7, 3600, c18Year - 1, c18Year + 1}
	if g.r.chance(60) {
		return lat[g.r.intn(len(lat))]
	}
	return int64(g.r.next() % uint64(40*c18Year))
}

func (g c18Gen) index() uint64 {
	lat := []uint64{1000000000000000000, 1000000004119451416, 20000000000000000, 2000000000000000000, 1500000000000000000,
		5000000000000000, 1234567890123456789}
	if g.r.chance(70) {
		return lat[g.r.intn(len(lat))]
	}
	return 1 + g.r.next()%3000000000000000000
}

func c18Bump(r *rng, v int64, hi int64) int64 {
	switch r.intn(4) {
	case 0:
		return v
	case 1:
		if v < hi {
			return v + 1
		}
		return v
	case 2:
		if v <= hi/2 {
			return v * 2
		}
		return v
	default:
		d := int64(r.next() % 1000000)
		if v <= hi-d {
			return v + d
		}
		return v
	}
}

func c18BumpU(r *rng, v uint64, hi uint64) uint64 {
	switch r.intn(4) {
	case 0:
		return v
	case 1:
		if v < hi {
			return v + 1
		}
		return v
	case 2:
		if v <= hi/2 {
			return v * 2
		}
		return v
	default:
		d := r.next() % 1000000000000
		if v <= hi-d {
			return v + d
		}
		return v
	}
}

func TestC18(t *testing.T) {
	a, base := newApp(t)
	tr := newTracer(t, "c18.trace")
	defer tr.close()
	r := newRng(seed())
	g := c18Gen{r}
	ncases := envInt("VERIF_CASES", 600)
	only := envInt("VERIF_CASE", -1)

	const now0 = int64(1700000000)
	ctxAt := func(now int64) sdk.Context { return base.WithBlockTime(time.Unix(now, 0).UTC()) }
	cls := func(p bool, err error) string {
		if p {
			return "panic"
		}
		if err != nil {
			return "err"
		}
		return "ok"
	}
	z := sdk.ZeroDec()

	lend := func(now, last, amt int64, rate, gi uint64) (sdk.Dec, sdk.Dec) {
		var n, i sdk.Dec = z, z
		var err error
		p, _ := safely(func() {
			n, i, err = a.LendKeeper.CalculateLendReward(ctxAt(now), sdk.NewInt(amt).String(), c18DecU(rate),
				lendtypes.LendAsset{LastInteractionTime: time.Unix(last, 0).UTC(), GlobalIndex: c18DecU(gi)})
		})
		c := cls(p, err)
		if c != "ok" {
			n, i = z, z
		}
		tr.p("o L %d %d %d %d %d %s %s %s", now, last, amt, rate, gi, c, n.BigInt(), i.BigInt())
		return n, i
	}
	borrow := func(now, last, amt int64, rate, rrate, gi, rgi uint64) {
		var n1, i1, n2, i2 sdk.Dec = z, z, z, z
		var err error
		p, _ := safely(func() {
			n1, i1, n2, i2, err = a.LendKeeper.CalculateBorrowInterest(ctxAt(now), sdk.NewInt(amt).String(), c18DecU(rate), c18DecU(rrate),
				lendtypes.BorrowAsset{LastInteractionTime: time.Unix(last, 0).UTC(), GlobalIndex: c18DecU(gi), ReserveGlobalIndex: c18DecU(rgi)})
		})
		c := cls(p, err)
		if c != "ok" {
			n1, i1, n2, i2 = z, z, z, z
		}
		tr.p("o B %d %d %d %d %d %d %d %s %s %s %s %s", now, last, amt, rate, rrate, gi, rgi, c, n1.BigInt(), i1.BigInt(), n2.BigInt(), i2.BigInt())
	}
	stable := func(now, last, amt int64, perc uint64) sdk.Dec {
		n := z
		var err error
		p, _ := safely(func() {
			n, err = a.LendKeeper.CalculateStableInterest(ctxAt(now), sdk.NewInt(amt).String(),
				lendtypes.BorrowAsset{LastInteractionTime: time.Unix(last, 0).UTC(), StableBorrowRate: c18DecU(perc)})
		})
		c := cls(p, err)
		if c != "ok" {
			n = z
		}
		tr.p("o S %d %d %d %d %s %s", now, last, amt, perc, c, n.BigInt())
		return n
	}
	cmp := func(now, btime int64, amt sdk.Int, lsr uint64) sdk.Dec {
		n := z
		var err error
		p, _ := safely(func() { n, err = a.Rewardskeeper.CalculationOfRewards(ctxAt(now), amt, c18DecU(lsr), btime) })
		c := cls(p, err)
		if c != "ok" {
			n = z
		}
		// the float operands and math.Pow result, recomputed by the same expression from the same operands
		var x, y, f float64
		secs := now - btime
		if secs >= 0 {
			x = c18One.Add(c18DecU(lsr)).MustFloat64()
			y = sdk.NewDec(secs).QuoInt64(c18Year).MustFloat64()
			f = math.Pow(x, y)
		}
		tr.p("o C %d %d %s %d %s %s %d %d %d", now, btime, amt, lsr, c, n.BigInt(), math.Float64bits(x), math.Float64bits(y), math.Float64bits(f))
		return n
	}

	// ---- lend-pool fixture for the rate functions ----
	const poolID, assetID = uint64(1), uint64(1)
	rates := func(ctx sdk.Context, u uint64, p [8]uint64) {
		// utilisation u = B / (M + B) with M + B = 10^18, B = u (scaled)
		cctx, _ := ctx.CacheContext()
		B := u
		if B > 1000000000000000000 {
			B = 1000000000000000000
		}
		M := 1000000000000000000 - B
		if M > 0 {
			fund(t, a, cctx, modAddr("c18pool"), sdk.NewCoins(sdk.NewCoin("uc18", sdk.NewIntFromUint64(M))))
		}
		half := B / 2
		a.LendKeeper.SetAssetStatsByPoolIDAndAssetID(cctx, lendtypes.PoolAssetLBMapping{PoolID: poolID, AssetID: assetID,
			TotalBorrowed: sdk.NewIntFromUint64(B - half), TotalStableBorrowed: sdk.NewIntFromUint64(half), TotalLend: sdk.ZeroInt(),
			TotalInterestAccumulated: sdk.ZeroInt(), LendApr: z, BorrowApr: z, StableBorrowApr: z, UtilisationRatio: z})
		var ut, ba, sa, la sdk.Dec = z, z, z, z
		var e1, e2, e3, e4 error
		p1, _ := safely(func() { ut, e1 = a.LendKeeper.GetUtilisationRatioByPoolIDAndAssetID(cctx, poolID, assetID) })
		p2, _ := safely(func() { ba, e2 = a.LendKeeper.GetBorrowAPRByAssetID(cctx, poolID, assetID, false) })
		p3, _ := safely(func() { sa, e3 = a.LendKeeper.GetBorrowAPRByAssetID(cctx, poolID, assetID, true) })
		p4, _ := safely(func() { la, e4 = a.LendKeeper.GetLendAPRByAssetIDAndPoolID(cctx, poolID, assetID) })
		fix := func(c string, d sdk.Dec) string {
			if c != "ok" || d.IsNil() {
				return "0"
			}
			return d.BigInt().String()
		}
		c1, c2, c3, c4 := cls(p1, e1), cls(p2, e2), cls(p3, e3), cls(p4, e4)
		tr.p("o R %d %d %s %s %s %s %s %s %s %s", M, B, c1, fix(c1, ut), c2, fix(c2, ba), c3, fix(c3, sa), c4, fix(c4, la))
	}

	for ci := 0; ci < ncases; ci++ {
		kind := []string{"L", "L", "B", "S", "C", "C", "C", "R", "R", "LS", "SS", "CS"}[r.intn(12)]
		// draw every parameter first (VERIF_CASE replays exactly)
		amt, rate, rrate, secs, gi, rgi := g.amt(), g.rate(), g.rate(), g.secs(), g.index(), g.index()
		amt2, rate2, secs2 := c18Bump(r, amt, 1<<62+99999), c18BumpU(r, rate, 10000000000000000000), c18Bump(r, secs, 45*c18Year)
		t2 := g.secs()
		neg := r.chance(4)
		negOff := int64(r.intn(1000))
		zeroLast := r.chance(5)
		huge := r.chance(3)
		var rp [8]uint64
		uopts := []uint64{800000000000000000, 500000000000000000, 900000000000000000, 1, 2, 999999999999999999, 1000000000000000000, 650000000000000000}
		rp[0] = uopts[r.intn(len(uopts))]
		if r.chance(30) {
			rp[0] = 1 + r.next()%999999999999999999
		}
		for i := 1; i < 7; i++ {
			rp[i] = []uint64{0, 1, 20000000000000000, 70000000000000000, 1000000000000000000, 3000000000000000000, r.next() % 2000000000000000000}[r.intn(7)]
		}
		rp[7] = []uint64{1, 100000000000000000, 200000000000000000, 1000000000000000000, r.next() % 1000000000000000001}[r.intn(5)]
		var us []uint64
		for i := 0; i < 4; i++ {
			us = append(us, r.next()%1000000000000000001)
		}
		if only >= 0 && ci != only {
			continue
		}
		tr.p("case %d %s", ci, kind)
		now := now0 + secs
		last := now0
		if neg {
			last = now + 1 + negOff
		}
		if zeroLast {
			last = 0
		}
		switch kind {
		case "L":
			lend(now, last, amt, rate, gi)
			if !neg && !zeroLast {
				lend(now0+secs2, now0, amt2, rate2, gi)
			}
		case "B":
			borrow(now, last, amt, rate, rrate, gi, rgi)
			if !neg && !zeroLast {
				borrow(now0+secs2, now0, amt2, rate2, rrate, gi, rgi)
			}
		case "S":
			stable(now, last, amt, rate)
			if !neg && !zeroLast {
				stable(now0+secs2, now0, amt2, rate2)
			}
		case "C":
			am := sdk.NewInt(amt)
			if huge {
				am = sdk.NewIntFromUint64(1 << 63).Add(sdk.NewInt(amt))
			}
			bt := now0
			if neg {
				bt = now + 5
			}
			cmp(now, bt, am, rate)
			if !neg && !huge {
				cmp(now0+secs2, now0, sdk.NewInt(amt2), rate2)
			}
		case "LS": // consecutive intervals, the second starting from the index stored by the first
			n1, i1 := lend(now0+secs, now0, amt, rate, gi)
			var i1u uint64 = gi
			if i1.BigInt().IsUint64() && i1.IsPositive() {
				i1u = i1.BigInt().Uint64()
			}
			n2, _ := lend(now0+secs+t2, now0+secs, amt, rate, i1u)
			n12, _ := lend(now0+secs+t2, now0, amt, rate, gi)
			tr.p("sub L %d %d %d %d %s %s %s", amt, gi, i1u, gi, n1.BigInt(), n2.BigInt(), n12.BigInt())
		case "SS":
			n1 := stable(now0+secs, now0, amt, rate)
			n2 := stable(now0+secs+t2, now0+secs, amt, rate)
			n12 := stable(now0+secs+t2, now0, amt, rate)
			tr.p("sub S %s %s %s", n1.BigInt(), n2.BigInt(), n12.BigInt())
		case "CS":
			n1 := cmp(now0+secs, now0, sdk.NewInt(amt), rate)
			n2 := cmp(now0+secs+t2, now0+secs, sdk.NewInt(amt), rate)
			n12 := cmp(now0+secs+t2, now0, sdk.NewInt(amt), rate)
			tr.p("sub C %d %s %s %s", amt, n1.BigInt(), n2.BigInt(), n12.BigInt())
		case "R":
			ctx, _ := base.CacheContext()
			addAsset(t, a, ctx, "CEIGHTA", "uc18", 1000000, false, false)
			as, _ := a.AssetKeeper.GetAssetForDenom(ctx, "uc18")
			if as.Id != assetID {
				// keep the fixture simple: the harness app has no assets at genesis
				t.Fatalf("unexpected asset id %d", as.Id)
			}
			a.LendKeeper.SetPool(ctx, lendtypes.Pool{PoolID: poolID, ModuleName: "c18pool", CPoolName: "C18"})
			d := func(v uint64) sdk.Dec { return c18DecU(v) }
			a.LendKeeper.SetAssetRatesParams(ctx, lendtypes.AssetRatesParams{AssetID: assetID, UOptimal: d(rp[0]), Base: d(rp[1]), Slope1: d(rp[2]),
				Slope2: d(rp[3]), EnableStableBorrow: true, StableBase: d(rp[4]), StableSlope1: d(rp[5]), StableSlope2: d(rp[6]), Ltv: c18One,
				LiquidationThreshold: c18One, LiquidationPenalty: c18One, LiquidationBonus: c18One, ReserveFactor: d(rp[7]), CAssetID: 2})
			var sb strings.Builder
			for _, v := range rp {
				fmt.Fprintf(&sb, " %d", v)
			}
			tr.p("params%s", sb.String())
			// ascending utilisations incl. 0, the kink and its lower neighbour, 1
			pts := []uint64{0, 1}
			if rp[0] >= 2 && rp[0] <= 1000000000000000000 {
				pts = append(pts, rp[0]-1, rp[0])
			}
			pts = append(pts, us...)
			pts = append(pts, 1000000000000000000)
			for i := 0; i < len(pts); i++ { // sort
				for j := i + 1; j < len(pts); j++ {
					if pts[j] < pts[i] {
						pts[i], pts[j] = pts[j], pts[i]
					}
				}
			}
			for _, u := range pts {
				rates(ctx, u, rp)
			}
		}
	}
}
