//go:build verif

package verifharness

import (
	"fmt"
	"math"
	"strings"
	"testing"
	"time"

	sdk "github.com/cosmos/cosmos-sdk/types"

	lendmod "github.com/comdex-official/comdex/x/lend"
	lendtypes "github.com/comdex-official/comdex/x/lend/types"
)

// TestC18 calls the REAL accrual and rate functions and dumps inputs and results:
//   L  CalculateLendReward        B  CalculateBorrowInterest      S  CalculateStableInterest
//   C  Rewardskeeper.CalculationOfRewards (float path; x, y, f = math.Pow(x, y) recomputed from the
//      same operands by the same expression and printed as IEEE bit patterns)
//   R  rate parameters through every validation path (AssetRatesParams.Validate,
//      AssetRatesPoolPairs.Validate, both proposals' ValidateBasic, GenesisState.Validate, the
//      governance handler -> keeper.AddAssetRatesParams, keeper.AddAssetRatesPoolPairs), then
//      GetUtilisationRatioByPoolIDAndAssetID / GetBorrowAPRByAssetID (both kinds) /
//      GetLendAPRByAssetIDAndPoolID on a lend-pool fixture holding those parameters (stored by
//      the handler when it accepts them, forced with SetAssetRatesParams otherwise)
// A case is a small group of observations of one kind on neighbouring inputs (monotonicity) or on
// consecutive intervals (sub-additivity).

const c18Year = 31557600

var c18One = sdk.OneDec()

func c18DecU(v uint64) sdk.Dec { return sdk.NewDecFromBigIntWithPrec(sdk.NewIntFromUint64(v).BigInt(), 18) }

type c18Gen struct{ r *rng }

func (g c18Gen) amt() int64 {
	lat := []int64{1, 2, 999, 1000000, 1000000000, 1000000000000, 1 << 40, 1 << 53, 1<<53 + 1, 1 << 62, 1<<62 + 12345}
	if g.r.chance(60) {
		return lat[g.r.intn(len(lat))]
	}
	return int64(g.r.next()>>uint(1+g.r.intn(62))) + 1
}

// rates 0 .. 10 as scaled integers, including 10^-18
func (g c18Gen) rate() uint64 {
	lat := []uint64{0, 1, 1000000000000000, 20000000000000000, 50000000000000000, 130000000000000000, 1000000000000000000,
		2500000000000000000, 10000000000000000000, 9999999999999999999}
	if g.r.chance(60) {
		return lat[g.r.intn(len(lat))]
	}
	return g.r.next() % 10000000000000000001
}

func (g c18Gen) secs() int64 {
	lat := []int64{0, 1, 6, 86400, c18Year, 30 * c18Year, 5, 7, 3600, c18Year - 1, c18Year + 1}
	if g.r.chance(60) {
		return lat[g.r.intn(len(lat))]
	}
	return int64(g.r.next() % uint64(40*c18Year))
}

func (g c18Gen) index() uint64 {
	lat := []uint64{1000000000000000000, 1000000004119451416, 20000000000000000, 2000000000000000000, 1500000000000000000,
		5000000000000000, 1234567890123456789}
	if g.r.chance(70) {
		return lat[g.r.intn(len(lat))]
	}
	return 1 + g.r.next()%3000000000000000000
}

func c18b2i(b bool) int {
	if b {
		return 1
	}
	return 0
}

func c18Bump(r *rng, v int64, hi int64) int64 {
	switch r.intn(4) {
	case 0:
		return v
	case 1:
		if v < hi {
			return v + 1
		}
		return v
	case 2:
		if v <= hi/2 {
			return v * 2
		}
		return v
	default:
		d := int64(r.next() % 1000000)
		if v <= hi-d {
			return v + d
		}
		return v
	}
}

func c18BumpU(r *rng, v uint64, hi uint64) uint64 {
	switch r.intn(4) {
	case 0:
		return v
	case 1:
		if v < hi {
			return v + 1
		}
		return v
	case 2:
		if v <= hi/2 {
			return v * 2
		}
		return v
	default:
		d := r.next() % 1000000000000
		if v <= hi-d {
			return v + d
		}
		return v
	}
}

func TestC18(t *testing.T) {
	a, base := newApp(t)
	tr := newTracer(t, "c18.trace")
	defer tr.close()
	// consecutive seeds of the splitmix generator are the same stream shifted by one draw (they re-synchronise
	// after a few cases): derive the stream from a hashed seed so that different VERIF_SEEDs are unrelated
	r := newRng(newRng(seed()).next() ^ 0xC18)
	g := c18Gen{r}
	ncases := envInt("VERIF_CASES", 600)
	only := envInt("VERIF_CASE", -1)

	const now0 = int64(1700000000)
	ctxAt := func(now int64) sdk.Context { return base.WithBlockTime(time.Unix(now, 0).UTC()) }
	cls := func(p bool, err error) string {
		if p {
			return "panic"
		}
		if err != nil {
			return "err"
		}
		return "ok"
	}
	z := sdk.ZeroDec()

	lend := func(now, last, amt int64, rate, gi uint64) (sdk.Dec, sdk.Dec) {
		var n, i sdk.Dec = z, z
		var err error
		p, _ := safely(func() {
			n, i, err = a.LendKeeper.CalculateLendReward(ctxAt(now), sdk.NewInt(amt).String(), c18DecU(rate),
				lendtypes.LendAsset{LastInteractionTime: time.Unix(last, 0).UTC(), GlobalIndex: c18DecU(gi)})
		})
		c := cls(p, err)
		if c != "ok" {
			n, i = z, z
		}
		tr.p("o L %d %d %d %d %d %s %s %s", now, last, amt, rate, gi, c, n.BigInt(), i.BigInt())
		return n, i
	}
	borrow := func(now, last, amt int64, rate, rrate, gi, rgi uint64) {
		var n1, i1, n2, i2 sdk.Dec = z, z, z, z
		var err error
		p, _ := safely(func() {
			n1, i1, n2, i2, err = a.LendKeeper.CalculateBorrowInterest(ctxAt(now), sdk.NewInt(amt).String(), c18DecU(rate), c18DecU(rrate),
				lendtypes.BorrowAsset{LastInteractionTime: time.Unix(last, 0).UTC(), GlobalIndex: c18DecU(gi), ReserveGlobalIndex: c18DecU(rgi)})
		})
		c := cls(p, err)
		if c != "ok" {
			n1, i1, n2, i2 = z, z, z, z
		}
		tr.p("o B %d %d %d %d %d %d %d %s %s %s %s %s", now, last, amt, rate, rrate, gi, rgi, c, n1.BigInt(), i1.BigInt(), n2.BigInt(), i2.BigInt())
	}
	stable := func(now, last, amt int64, perc uint64) sdk.Dec {
		n := z
		var err error
		p, _ := safely(func() {
			n, err = a.LendKeeper.CalculateStableInterest(ctxAt(now), sdk.NewInt(amt).String(),
				lendtypes.BorrowAsset{LastInteractionTime: time.Unix(last, 0).UTC(), StableBorrowRate: c18DecU(perc)})
		})
		c := cls(p, err)
		if c != "ok" {
			n = z
		}
		tr.p("o S %d %d %d %d %s %s", now, last, amt, perc, c, n.BigInt())
		return n
	}
	cmp := func(now, btime int64, amt sdk.Int, lsr uint64) sdk.Dec {
		n := z
		var err error
		p, _ := safely(func() { n, err = a.Rewardskeeper.CalculationOfRewards(ctxAt(now), amt, c18DecU(lsr), btime) })
		c := cls(p, err)
		if c != "ok" {
			n = z
		}
		// the float operands and math.Pow result, recomputed by the same expression from the same operands
		var x, y, f float64
		secs := now - btime
		if secs >= 0 {
			x = c18One.Add(c18DecU(lsr)).MustFloat64()
			y = sdk.NewDec(secs).QuoInt64(c18Year).MustFloat64()
			f = math.Pow(x, y)
		}
		tr.p("o C %d %d %s %d %s %s %d %d %d", now, btime, amt, lsr, c, n.BigInt(), math.Float64bits(x), math.Float64bits(y), math.Float64bits(f))
		return n
	}

	// ---- lend-pool fixture for the rate functions ----
	const poolID, assetID = uint64(1), uint64(1)
	rates := func(ctx sdk.Context, u uint64) {
		// utilisation u = B / (M + B) with M + B = 10^18, B = u (scaled)
		cctx, _ := ctx.CacheContext()
		B := u
		if B > 1000000000000000000 {
			B = 1000000000000000000
		}
		M := 1000000000000000000 - B
		if M > 0 {
			fund(t, a, cctx, modAddr("c18pool"), sdk.NewCoins(sdk.NewCoin("uc18", sdk.NewIntFromUint64(M))))
		}
		half := B / 2
		a.LendKeeper.SetAssetStatsByPoolIDAndAssetID(cctx, lendtypes.PoolAssetLBMapping{PoolID: poolID, AssetID: assetID,
			TotalBorrowed: sdk.NewIntFromUint64(B - half), TotalStableBorrowed: sdk.NewIntFromUint64(half), TotalLend: sdk.ZeroInt(),
			TotalInterestAccumulated: sdk.ZeroInt(), LendApr: z, BorrowApr: z, StableBorrowApr: z, UtilisationRatio: z})
		var ut, ba, sa, la sdk.Dec = z, z, z, z
		var e1, e2, e3, e4 error
		p1, _ := safely(func() { ut, e1 = a.LendKeeper.GetUtilisationRatioByPoolIDAndAssetID(cctx, poolID, assetID) })
		p2, _ := safely(func() { ba, e2 = a.LendKeeper.GetBorrowAPRByAssetID(cctx, poolID, assetID, false) })
		p3, _ := safely(func() { sa, e3 = a.LendKeeper.GetBorrowAPRByAssetID(cctx, poolID, assetID, true) })
		p4, _ := safely(func() { la, e4 = a.LendKeeper.GetLendAPRByAssetIDAndPoolID(cctx, poolID, assetID) })
		fix := func(c string, d sdk.Dec) string {
			if c != "ok" || d.IsNil() {
				return "0"
			}
			return d.BigInt().String()
		}
		c1, c2, c3, c4 := cls(p1, e1), cls(p2, e2), cls(p3, e3), cls(p4, e4)
		tr.p("o R %d %d %s %s %s %s %s %s %s %s", M, B, c1, fix(c1, ut), c2, fix(c2, ba), c3, fix(c3, sa), c4, fix(c4, la))
	}

	for ci := 0; ci < ncases; ci++ {
		kind := []string{"L", "L", "B", "S", "C", "C", "C", "R", "R", "LS", "SS", "CS"}[r.intn(12)]
		// draw every parameter first (VERIF_CASE replays exactly)
		amt, rate, rrate, secs, gi, rgi := g.amt(), g.rate(), g.rate(), g.secs(), g.index(), g.index()
		amt2, rate2, secs2 := c18Bump(r, amt, 1<<62+99999), c18BumpU(r, rate, 10000000000000000000), c18Bump(r, secs, 45*c18Year)
		t2 := g.secs()
		neg := r.chance(4)
		negOff := int64(r.intn(1000))
		zeroLast := r.chance(5)
		huge := r.chance(3)
		// rate parameters: 0 asset, 1 uopt, 2 base, 3 slope1, 4 slope2, 5 stable base, 6 stable slope1, 7 stable slope2,
		// 8 liquidation threshold, 9 bonus, 10 penalty, 11 ltv, 12 reserve factor, 13 cAsset
		var rp [14]uint64
		rp[0], rp[13] = assetID, 2
		uopts := []uint64{800000000000000000, 500000000000000000, 900000000000000000, 1, 2, 999999999999999999, 1000000000000000000, 650000000000000000,
			1000000000000000001, 2000000000000000000, 0}
		rp[1] = uopts[r.intn(len(uopts))]
		if r.chance(30) {
			rp[1] = 1 + r.next()%999999999999999999
		}
		for i := 2; i < 8; i++ {
			rp[i] = []uint64{0, 1, 20000000000000000, 70000000000000000, 1000000000000000000, 3000000000000000000, r.next() % 2000000000000000000,
				2000000000000000, 80000000000000000}[r.intn(9)]
		}
		for i := 8; i < 12; i++ {
			rp[i] = 1000000000000000000
		}
		rp[12] = []uint64{1, 100000000000000000, 200000000000000000, 1000000000000000000, r.next() % 1000000000000000001, 0, 1000000000000000001, 2500000000000000000}[r.intn(8)]
		if r.chance(6) {
			rp[8+r.intn(4)] = 0
		}
		if r.chance(3) {
			rp[[]int{0, 13}[r.intn(2)]] = 0
		}
		nameLen := []int{14, 19, 20, 25}[r.intn(4)]
		if r.chance(70) {
			nameLen = 14
		}
		hasData := !r.chance(8)
		c18f1 := r.chance(4) // the regression case of C18-F1: mainnet-like parameters with UOptimal = 1
		if ci == 0 { // every run replays the regression case first
			kind, c18f1 = "R", true
		}
		var us []uint64
		for i := 0; i < 4; i++ {
			us = append(us, r.next()%1000000000000000001)
		}
		if only >= 0 && ci != only {
			continue
		}
		tr.p("case %d %s", ci, kind)
		now := now0 + secs
		last := now0
		if neg {
			last = now + 1 + negOff
		}
		if zeroLast {
			last = 0
		}
		switch kind {
		case "L":
			lend(now, last, amt, rate, gi)
			if !neg && !zeroLast {
				lend(now0+secs2, now0, amt2, rate2, gi)
			}
		case "B":
			borrow(now, last, amt, rate, rrate, gi, rgi)
			if !neg && !zeroLast {
				borrow(now0+secs2, now0, amt2, rate2, rrate, gi, rgi)
			}
		case "S":
			stable(now, last, amt, rate)
			if !neg && !zeroLast {
				stable(now0+secs2, now0, amt2, rate2)
			}
		case "C":
			am := sdk.NewInt(amt)
			if huge {
				am = sdk.NewIntFromUint64(1 << 63).Add(sdk.NewInt(amt))
			}
			bt := now0
			if neg {
				bt = now + 5
			}
			cmp(now, bt, am, rate)
			if !neg && !huge {
				cmp(now0+secs2, now0, sdk.NewInt(amt2), rate2)
			}
		case "LS": // consecutive intervals, the second starting from the index stored by the first
			n1, i1 := lend(now0+secs, now0, amt, rate, gi)
			var i1u uint64 = gi
			if i1.BigInt().IsUint64() && i1.IsPositive() {
				i1u = i1.BigInt().Uint64()
			}
			n2, _ := lend(now0+secs+t2, now0+secs, amt, rate, i1u)
			n12, _ := lend(now0+secs+t2, now0, amt, rate, gi)
			tr.p("sub L %d %d %d %d %s %s %s", amt, gi, i1u, gi, n1.BigInt(), n2.BigInt(), n12.BigInt())
		case "SS":
			n1 := stable(now0+secs, now0, amt, rate)
			n2 := stable(now0+secs+t2, now0+secs, amt, rate)
			n12 := stable(now0+secs+t2, now0, amt, rate)
			tr.p("sub S %s %s %s", n1.BigInt(), n2.BigInt(), n12.BigInt())
		case "CS":
			n1 := cmp(now0+secs, now0, sdk.NewInt(amt), rate)
			n2 := cmp(now0+secs+t2, now0+secs, sdk.NewInt(amt), rate)
			n12 := cmp(now0+secs+t2, now0, sdk.NewInt(amt), rate)
			tr.p("sub C %d %s %s %s", amt, n1.BigInt(), n2.BigInt(), n12.BigInt())
		case "R":
			ctx, _ := base.CacheContext()
			addAsset(t, a, ctx, "CEIGHTA", "uc18", 1000000, false, false)
			as, _ := a.AssetKeeper.GetAssetForDenom(ctx, "uc18")
			if as.Id != assetID {
				// keep the fixture simple: the harness app has no assets at genesis
				t.Fatalf("unexpected asset id %d", as.Id)
			}
			a.LendKeeper.SetPool(ctx, lendtypes.Pool{PoolID: poolID, ModuleName: "c18pool", CPoolName: "C18"})
			d := func(v uint64) sdk.Dec { return c18DecU(v) }
			if c18f1 {
				rp = [14]uint64{assetID, 1000000000000000000, 2000000000000000, 80000000000000000, 1500000000000000000, 0, 0, 0,
					700000000000000000, 75000000000000000, 75000000000000000, 650000000000000000, 200000000000000000, 8}
				nameLen, hasData = 14, true
			}
			params := lendtypes.AssetRatesParams{AssetID: rp[0], UOptimal: d(rp[1]), Base: d(rp[2]), Slope1: d(rp[3]),
				Slope2: d(rp[4]), EnableStableBorrow: true, StableBase: d(rp[5]), StableSlope1: d(rp[6]), StableSlope2: d(rp[7]), Ltv: d(rp[11]),
				LiquidationThreshold: d(rp[8]), LiquidationPenalty: d(rp[10]), LiquidationBonus: d(rp[9]), ReserveFactor: d(rp[12]), CAssetID: rp[13]}
			var data []*lendtypes.AssetDataPoolMapping
			if hasData {
				data = []*lendtypes.AssetDataPoolMapping{{AssetID: assetID, AssetTransitType: 1, SupplyCap: sdk.NewDec(1000000000000)}}
			}
			pp := lendtypes.AssetRatesPoolPairs{AssetID: rp[0], UOptimal: d(rp[1]), Base: d(rp[2]), Slope1: d(rp[3]),
				Slope2: d(rp[4]), EnableStableBorrow: true, StableBase: d(rp[5]), StableSlope1: d(rp[6]), StableSlope2: d(rp[7]), Ltv: d(rp[11]),
				LiquidationThreshold: d(rp[8]), LiquidationPenalty: d(rp[10]), LiquidationBonus: d(rp[9]), ReserveFactor: d(rp[12]), CAssetID: rp[13],
				ModuleName: "c18pp", CPoolName: strings.Repeat("P", nameLen), AssetData: data, MinUsdValueLeft: 1000000}
			var sb strings.Builder
			for _, v := range rp {
				fmt.Fprintf(&sb, " %d", v)
			}
			tr.p("params%s", sb.String())
			// every path by which rate parameters are validated / reach the store
			try := func(f func() error) string {
				var err error
				p, _ := safely(func() { err = f() })
				return cls(p, err)
			}
			v1 := try(func() error { return params.Validate() })
			v2 := try(func() error { return pp.Validate() })
			v3 := try(func() error {
				return (&lendtypes.AddAssetRatesParams{Title: "t", Description: "d", AssetRatesParams: params}).ValidateBasic()
			})
			v4 := try(func() error {
				return (&lendtypes.AddAssetRatesPoolPairsProposal{Title: "t", Description: "d", AssetRatesPoolPairs: pp}).ValidateBasic()
			})
			v5 := try(func() error {
				gs := lendtypes.DefaultGenesisState()
				gs.AssetRatesParams = []lendtypes.AssetRatesParams{params}
				return gs.Validate()
			})
			// keeper.AddAssetRatesPoolPairs on a throw-away branch (no parameters stored yet for the asset)
			v7 := try(func() error {
				pctx, _ := ctx.CacheContext()
				return a.LendKeeper.AddAssetRatesPoolPairs(pctx, pp)
			})
			// the governance handler (what gov v1 MsgExecLegacyContent and the legacy route both execute)
			v6 := try(func() error {
				return lendmod.NewLendHandler(a.LendKeeper)(ctx, &lendtypes.AddAssetRatesParams{Title: "t", Description: "d", AssetRatesParams: params})
			})
			_, stored := a.LendKeeper.GetAssetRatesParams(ctx, rp[0])
			tr.p("v %s %s %s %s %s %s %d %s %d %d", v1, v2, v3, v4, v5, v6, c18b2i(stored), v7, nameLen, c18b2i(hasData))
			if rp[0] != assetID {
				continue // asset id 0: validation only
			}
			if !stored {
				a.LendKeeper.SetAssetRatesParams(ctx, params) // outside the validated domain: the rate functions are still compared
			}
			// ascending utilisations incl. 0, the kink and its lower neighbour, 1
			pts := []uint64{0, 1}
			if rp[1] >= 2 && rp[1] <= 1000000000000000000 {
				pts = append(pts, rp[1]-1, rp[1])
			}
			pts = append(pts, us...)
			pts = append(pts, 1000000000000000000)
			for i := 0; i < len(pts); i++ { // sort
				for j := i + 1; j < len(pts); j++ {
					if pts[j] < pts[i] {
						pts[i], pts[j] = pts[j], pts[i]
					}
				}
			}
			for _, u := range pts {
				rates(ctx, u)
			}
		}
	}
}
