//go:build verif

package verifharness

// C19, stable-mint external reward programs (TestC19Stable): ActivateExternalRewardsStableMint through the
// msg router, stable-mint (PSM) create / deposit / withdraw messages of several users (which write and
// shrink the StableMintVaultRewards entries the programs pay on), transfers that change the users'
// holdings, the kill switch / ESM status of the app, and rewards.BeginBlocker as a whole - steps 5
// (CombinePSMUserPositions) and 6 (DistributeExtRewardStableVault) included - on the C12 fixture world
// (app harbor with a USDC-PSM stable-mint pair, lockers, lend positions, liquidity pools).
// Per BeginBlocker and program the harness records, before the hook: the block height, the app's total
// TokenMintedAmount over its stable-mint pairs and every StableMintVaultRewards entry of the app with the
// user's holdings of the minted asset (bank balance + farmed + lent + locker, read with the keepers' own
// functions); after it: the entries again (the result of CombinePSMUserPositions).

import (
	"fmt"
	"strings"
	"testing"

	sdkmath "cosmossdk.io/math"
	sdk "github.com/cosmos/cosmos-sdk/types"

	rewardstypes "github.com/comdex-official/comdex/x/rewards/types"
	vaulttypes "github.com/comdex-official/comdex/x/vault/types"
)

type c19sCfg struct {
	app, ep, sid uint64
	usdc, cmst   string
}

var c19sWorld *c19sCfg

// holdings of the asset minted through the entry's extended pair, as 427-446 of iter.go compute them
func (w *c19World) stableHold(v rewardstypes.StableVaultExternalRewards, user string, extPair uint64) sdk.Int {
	a := w.a
	ep, _ := a.AssetKeeper.GetPairsVault(w.ctx, extPair)
	pr, _ := a.AssetKeeper.GetPair(w.ctx, ep.PairId)
	as, _ := a.AssetKeeper.GetAsset(w.ctx, pr.AssetOut)
	addr, err := sdk.AccAddressFromBech32(user)
	if err != nil {
		return sdk.ZeroInt()
	}
	h := a.BankKeeper.GetBalance(w.ctx, addr, as.Denom).Amount
	if f, err := a.LiquidityKeeper.GetAmountFarmedForAssetID(w.ctx, v.CswapAppId, as.Id, addr); err == nil {
		h = h.Add(f)
	}
	if l, found := a.LendKeeper.UserAssetLends(w.ctx, addr.String(), as.Id); found {
		h = h.Add(l)
	}
	if lm, found := a.LockerKeeper.GetUserLockerAssetMapping(w.ctx, addr.String(), v.AppId, as.Id); found {
		ld, _ := a.LockerKeeper.GetLocker(w.ctx, lm.LockerId)
		if !ld.NetBalance.IsNil() {
			h = h.Add(ld.NetBalance)
		}
	}
	return h
}

func (w *c19World) stableTotal(app uint64) sdk.Int {
	tot := sdk.ZeroInt()
	eps, _ := w.a.AssetKeeper.GetPairsVaults(w.ctx)
	for _, e := range eps {
		if e.AppId == app && e.IsStableMintVault {
			md, _ := w.a.VaultKeeper.GetAppExtendedPairVaultMappingData(w.ctx, e.AppId, e.Id)
			if !md.TokenMintedAmount.IsNil() {
				tot = tot.Add(md.TokenMintedAmount)
			}
		}
	}
	return tot
}

// before the hook: "height H" and per program "senv i total n (acct height amount hold)*"
func (w *c19World) stableEnv() {
	if len(w.sxs) == 0 {
		return
	}
	w.tr.p("height %d", w.ctx.BlockHeight())
	for i, id := range w.sxs {
		v, _ := w.a.Rewardskeeper.GetExternalRewardStableVaultByApp(w.ctx, id)
		recs, _ := w.a.VaultKeeper.GetStableMintVaultRewardsByApp(w.ctx, v.AppId)
		var sb strings.Builder
		for _, r := range recs {
			fmt.Fprintf(&sb, " %d %d %s %s", w.acct(r.User), r.BlockHeight, r.Amount, w.stableHold(v, r.User, r.StableExtendedPairId))
		}
		w.tr.p("senv %d %s %d%s", i, w.stableTotal(v.AppId), len(recs), sb.String())
	}
}

// after the hook: the entries as CombinePSMUserPositions left them
func (w *c19World) stableRecs() {
	for i, id := range w.sxs {
		v, _ := w.a.Rewardskeeper.GetExternalRewardStableVaultByApp(w.ctx, id)
		recs, _ := w.a.VaultKeeper.GetStableMintVaultRewardsByApp(w.ctx, v.AppId)
		var sb strings.Builder
		for _, r := range recs {
			fmt.Fprintf(&sb, " %d %d %s", w.acct(r.User), r.BlockHeight, r.Amount)
		}
		w.tr.p("srecs %d %d%s", i, len(recs), sb.String())
	}
}

func (w *c19World) opSCreate(app uint64, denom string, total sdk.Int, days, accept int64, creator int, short bool) {
	cr := addrN(creator)
	have := bal(w.a, w.ctx, cr, denom)
	want := total
	if short {
		want = total.SubRaw(1)
	}
	if want.IsPositive() && have.LT(want) {
		fund(w.t, w.a, w.ctx, cr, sdk.NewCoins(sdk.NewCoin(denom, want.Sub(have))))
	} else if have.GT(want) && want.Sign() >= 0 {
		_ = w.a.BankKeeper.SendCoins(w.ctx, cr, addrN(95), sdk.NewCoins(sdk.NewCoin(denom, have.Sub(want))))
	}
	funds := bal(w.a, w.ctx, cr, denom)
	ok := !w.halted(app)
	idBefore := w.a.Rewardskeeper.GetExternalRewardsStableVault(w.ctx)
	msg := &rewardstypes.ActivateExternalRewardsStableMint{AppId: app, CswapAppId: c19sCswap, CommodoAppId: c19sCommodo, TotalRewards: sdk.Coin{Denom: denom, Amount: total},
		DurationDays: days, Depositor: cr.String(), AcceptedBlockHeight: accept}
	class, _, _ := execMsg(w.a, w.ctx, msg)
	w.tr.p("op screate %d %d %s %d %d %d %s %s %s", app, c19DenomCode(denom), total, days, accept, w.now.Unix(), funds, b2s(ok), class)
	if class == "ok" {
		w.sxs = append(w.sxs, idBefore+1)
	}
	w.st()
}

var c19sCswap, c19sCommodo uint64

// PSM messages and transfers: they change only environment values of the model
func (w *c19World) opPsm(kind string, n int, amt sdk.Int) {
	c := c19sWorld
	var msg sdk.Msg
	switch kind {
	case "deposit":
		msg = vaulttypes.NewMsgDepositStableMintRequest(addrN(n), c.app, c.ep, amt, c.sid)
	case "withdraw":
		msg = vaulttypes.NewMsgWithdrawStableMintRequest(addrN(n), c.app, c.ep, amt, c.sid)
	}
	class, _, _ := execMsg(w.a, w.ctx, msg)
	w.tr.p("env psm-%s %d %s %s", kind, n, amt, class)
}

func (w *c19World) opSendCmst(from, to int, amt sdk.Int) {
	err := w.a.BankKeeper.SendCoins(w.ctx, addrN(from), addrN(to), sdk.NewCoins(sdk.NewCoin(c19sWorld.cmst, amt)))
	w.tr.p("env send-cmst %d %d %s %s", from, to, amt, b2s(err == nil))
}

func (w *c19World) blockOnly(dh int64) {
	// blocks in which the rewards hook is not observed: only the height moves (entries age by height)
	w.height += dh
	w.ctx = w.ctx.WithBlockHeight(w.height)
	w.tr.p("env blocks %d", dh)
}

func c19sAmount(g *rng) sdk.Int {
	switch g.intn(6) {
	case 0:
		return sdk.NewInt(1000000)
	case 1:
		return sdk.NewInt(int64(1+g.intn(9)) * 100000000)
	default:
		return sdk.NewInt(int64(1+g.intn(500)) * 1000000)
	}
}

func c19sTotal(g *rng) sdk.Int {
	switch g.intn(8) {
	case 0:
		return sdk.NewInt(1)
	case 1:
		return sdk.NewIntFromUint64(1 << 63).SubRaw(1)
	case 2:
		return sdk.NewIntFromUint64(1 << 63) // Int64() panics at the first entry that is due
	case 3:
		return sdkmath.NewIntWithDecimal(int64(1+g.intn(9)), 18)
	default:
		return sdk.NewInt(int64(1+g.intn(100000)) * g.pickI(1, 1000, 1000000))
	}
}

// directed: the share of one entry exceeds one.  User 11 mints 200 cmst through the PSM while a program is
// active (entry 199.8); another holder of cmst (minted in a CDP vault) redeems 280 through the PSM: the
// recorded total falls to 20.28 while 11's entry and holdings stay; one day later the program (1 day,
// 1 000 000 uatom) pays 11 on a share of 199.8 / 20.28, out of a second program's / a donor's coins
func c19sShare(w *c19World, g *rng) {
	c := c19sWorld
	w.opSCreate(c.app, "uatom", sdk.NewInt(1000000), 1, 1, 81, false)
	if g.chance(50) {
		w.opSCreate(c.app, "uatom", sdk.NewInt(int64(50000000+g.intn(5000000))), 3, 1, 81, false) // somebody else's money, same denom
	} else {
		w.opDonate("uatom", sdk.NewInt(int64(50000000+g.intn(5000000))))
	}
	w.opPsm("deposit", 11, sdk.NewInt(200000000))
	w.opPsm("withdraw", 12, sdk.NewInt(int64(270000000+g.intn(20000000))))
	w.blockOnly(3)
	w.opBegin(86401)
	w.opBegin(6)
	w.opBegin(86401)
}

// directed: several entries of one user and of three users, aged past the accepted height: combined by
// step 5; paid one after the other out of the SHRINKING available amount
func c19sCombine(w *c19World, g *rng) {
	c := c19sWorld
	days := g.pickI(1, 2, 3)
	accept := g.pickI(1, 2, 5)
	w.opSCreate(c.app, []string{"uatom", "ucmdx", "uharbor"}[g.intn(3)], c19sTotal(g), days, accept, 81, false)
	for i := 0; i < 2+g.intn(3); i++ {
		w.opPsm("deposit", 11+g.intn(3), c19sAmount(g))
		w.blockOnly(int64(1 + g.intn(3)))
	}
	w.opPsm("deposit", 11, c19sAmount(g))
	if g.chance(50) {
		w.opSendCmst(11, 95, sdk.NewInt(int64(1+g.intn(100))*1000000)) // holdings below the entries
	}
	w.opBegin(g.pickI(86401, 6, 90000))
	w.blockOnly(accept)
	w.opBegin(86401)
	w.opBegin(86401)
	w.opBegin(6)
}

func c19sRandom(w *c19World, g *rng) {
	c := c19sWorld
	np := 1 + g.intn(2)
	for i := 0; i < np; i++ {
		app := c.app
		if g.chance(6) {
			app = 0
		}
		w.opSCreate(app, []string{"uatom", "ucmdx", "uharbor"}[g.intn(3)], c19sTotal(g), g.pickI(1, 1, 2, 3, 0), g.pickI(1, 1, 2, 5, 0), 81, g.chance(6))
		if g.chance(60) {
			w.opDonate([]string{"uatom", "ucmdx", "uharbor"}[g.intn(3)], sdk.NewInt(int64(1+g.intn(5000000))))
		}
	}
	nb := 5 + g.intn(8)
	for b := 0; b < nb; b++ {
		for i := 0; i < g.intn(4); i++ {
			switch g.intn(9) {
			case 0, 1, 2:
				w.opPsm("deposit", 11+g.intn(4), c19sAmount(g))
			case 3, 4:
				w.opPsm("withdraw", 11+g.intn(4), c19sAmount(g))
			case 5:
				w.opSendCmst(11+g.intn(4), 95, c19sAmount(g))
			case 6:
				w.blockOnly(int64(1 + g.intn(4)))
			case 7:
				if g.chance(50) {
					w.opHalt(c.app, !w.haltedKS(c.app))
				} else {
					st, _ := w.a.EsmKeeper.GetESMStatus(w.ctx, c.app)
					w.opEsm(c.app, !st.Status)
				}
			default:
				if g.chance(30) {
					w.opSCreate(c.app, []string{"uatom", "ucmdx"}[g.intn(2)], c19sTotal(g), g.pickI(1, 2, 3), g.pickI(1, 2), 81, false)
				}
			}
		}
		w.opBegin(g.pickI(6, 3600, 86401, 86401, 86401, 90000, 200000))
	}
}

// TestC19Stable: stable-mint reward programs on the world of the C12 fixture
func TestC19Stable(t *testing.T) {
	a, base := newApp(t)
	tr := newTracer(t, "c19stable.trace")
	defer tr.close()
	r := newRng(seed())
	ncases := envInt("VERIF_CASES", 30)
	only := envInt("VERIF_CASE", -1)
	cw := c12Setup(t, a, base)
	usdc, _ := a.AssetKeeper.GetAsset(cw.Ctx, cw.USDC)
	cmst, _ := a.AssetKeeper.GetAsset(cw.Ctx, cw.CMST)
	c19sWorld = &c19sCfg{app: cw.VaultApp, ep: cw.StableExtPair, sid: cw.StableVaultID, usdc: usdc.Denom, cmst: cmst.Denom}
	c19sCswap, c19sCommodo = cw.LiqApp, cw.LendApp
	for ci := 0; ci < ncases; ci++ {
		cs := r.next()
		if only >= 0 && ci != only {
			continue
		}
		g := newRng(cs)
		ctx, _ := cw.Ctx.CacheContext()
		w := &c19World{t: t, a: a, ctx: ctx, tr: tr, now: cw.Ctx.BlockTime(), height: cw.Ctx.BlockHeight(), nacct: map[string]int{}}
		for _, n := range c19Watched {
			w.nacct[addrN(n).String()] = n
		}
		fund(t, a, w.ctx, addrN(90), sdk.NewCoins(sdk.NewCoin("ucmdx", sdkmath.NewIntWithDecimal(1, 15)), sdk.NewCoin("uharbor", sdkmath.NewIntWithDecimal(1, 15)),
			sdk.NewCoin("uatom", sdkmath.NewIntWithDecimal(1, 15))))
		for _, n := range []int{11, 12, 13, 14} {
			fund(t, a, w.ctx, addrN(n), sdk.NewCoins(sdk.NewCoin(usdc.Denom, sdkmath.NewIntWithDecimal(1, 13)), sdk.NewCoin(cmst.Denom, sdk.NewInt(int64(g.intn(4))*300000000))))
		}
		kind := "stable"
		switch {
		case ci%6 == 0:
			kind = "stable-share"
		case ci%6 == 1:
			kind = "stable-combine"
		}
		tr.p("case %d %s %d", ci, kind, len(a.Rewardskeeper.GetAllGauges(w.ctx)))
		w.st()
		switch kind {
		case "stable-share":
			c19sShare(w, g)
		case "stable-combine":
			c19sCombine(w, g)
		default:
			c19sRandom(w, g)
		}
	}
}
