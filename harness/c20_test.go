//go:build verif

package verifharness

import (
	"crypto/sha256"
	"encoding/binary"
	"fmt"
	"os"
	"sort"
	"strings"
	"testing"
	"time"

	abci "github.com/cometbft/cometbft/abci/types"
	"github.com/cosmos/cosmos-sdk/codec"
	sdk "github.com/cosmos/cosmos-sdk/types"
	paramstypes "github.com/cosmos/cosmos-sdk/x/params/types"
	gogotypes "github.com/cosmos/gogoproto/types"

	chain "github.com/comdex-official/comdex/app"
	"github.com/comdex-official/comdex/app/wasm/bindings"
	"github.com/comdex-official/comdex/x/asset"
	assettypes "github.com/comdex-official/comdex/x/asset/types"
	"github.com/comdex-official/comdex/x/auction"
	auctiontypes "github.com/comdex-official/comdex/x/auction/types"
	"github.com/comdex-official/comdex/x/auctionsV2"
	auctionsV2types "github.com/comdex-official/comdex/x/auctionsV2/types"
	"github.com/comdex-official/comdex/x/collector"
	collectortypes "github.com/comdex-official/comdex/x/collector/types"
	"github.com/comdex-official/comdex/x/esm"
	esmtypes "github.com/comdex-official/comdex/x/esm/types"
	"github.com/comdex-official/comdex/x/lend"
	lendtypes "github.com/comdex-official/comdex/x/lend/types"
	"github.com/comdex-official/comdex/x/liquidation"
	liquidationtypes "github.com/comdex-official/comdex/x/liquidation/types"
	"github.com/comdex-official/comdex/x/liquidationsV2"
	liquidationsV2types "github.com/comdex-official/comdex/x/liquidationsV2/types"
	"github.com/comdex-official/comdex/x/liquidity"
	liquiditytypes "github.com/comdex-official/comdex/x/liquidity/types"
	"github.com/comdex-official/comdex/x/locker"
	lockertypes "github.com/comdex-official/comdex/x/locker/types"
	"github.com/comdex-official/comdex/x/market"
	markettypes "github.com/comdex-official/comdex/x/market/types"
	"github.com/comdex-official/comdex/x/rewards"
	rewardstypes "github.com/comdex-official/comdex/x/rewards/types"
	"github.com/comdex-official/comdex/x/tokenmint"
	tokenminttypes "github.com/comdex-official/comdex/x/tokenmint/types"
	"github.com/comdex-official/comdex/x/vault"
	vaulttypes "github.com/comdex-official/comdex/x/vault/types"
)

// ---------------------------------------------------------------------------------------------
// one DeFi module: table name (directory under x/), store key, export -> JSON -> import
type c20Module struct {
	name, store string
	roundtrip   func(a *chain.App, cdc codec.JSONCodec, src, dst sdk.Context)
}

func c20Modules() []c20Module {
	return []c20Module{
		{"asset", assettypes.StoreKey, func(a *chain.App, cdc codec.JSONCodec, src, dst sdk.Context) {
			var g assettypes.GenesisState
			cdc.MustUnmarshalJSON(cdc.MustMarshalJSON(asset.ExportGenesis(src, a.AssetKeeper)), &g)
			asset.InitGenesis(dst, a.AssetKeeper, &g)
		}},
		{"market", markettypes.StoreKey, func(a *chain.App, cdc codec.JSONCodec, src, dst sdk.Context) {
			var g markettypes.GenesisState
			cdc.MustUnmarshalJSON(cdc.MustMarshalJSON(market.ExportGenesis(src, a.MarketKeeper)), &g)
			market.InitGenesis(dst, a.MarketKeeper, &g)
		}},
		{"collector", collectortypes.StoreKey, func(a *chain.App, cdc codec.JSONCodec, src, dst sdk.Context) {
			var g collectortypes.GenesisState
			cdc.MustUnmarshalJSON(cdc.MustMarshalJSON(collector.ExportGenesis(src, a.CollectorKeeper)), &g)
			collector.InitGenesis(dst, a.CollectorKeeper, &g)
		}},
		{"vault", vaulttypes.StoreKey, func(a *chain.App, cdc codec.JSONCodec, src, dst sdk.Context) {
			var g vaulttypes.GenesisState
			cdc.MustUnmarshalJSON(cdc.MustMarshalJSON(vault.ExportGenesis(src, a.VaultKeeper)), &g)
			vault.InitGenesis(dst, a.VaultKeeper, &g)
		}},
		{"locker", lockertypes.StoreKey, func(a *chain.App, cdc codec.JSONCodec, src, dst sdk.Context) {
			var g lockertypes.GenesisState
			cdc.MustUnmarshalJSON(cdc.MustMarshalJSON(locker.ExportGenesis(src, a.LockerKeeper)), &g)
			locker.InitGenesis(dst, a.LockerKeeper, &g)
		}},
		{"esm", esmtypes.StoreKey, func(a *chain.App, cdc codec.JSONCodec, src, dst sdk.Context) {
			var g esmtypes.GenesisState
			cdc.MustUnmarshalJSON(cdc.MustMarshalJSON(esm.ExportGenesis(src, a.EsmKeeper)), &g)
			esm.InitGenesis(dst, a.EsmKeeper, &g)
		}},
		{"tokenmint", tokenminttypes.StoreKey, func(a *chain.App, cdc codec.JSONCodec, src, dst sdk.Context) {
			var g tokenminttypes.GenesisState
			cdc.MustUnmarshalJSON(cdc.MustMarshalJSON(tokenmint.ExportGenesis(src, a.TokenmintKeeper)), &g)
			tokenmint.InitGenesis(dst, a.TokenmintKeeper, &g)
		}},
		{"rewards", rewardstypes.StoreKey, func(a *chain.App, cdc codec.JSONCodec, src, dst sdk.Context) {
			var g rewardstypes.GenesisState
			cdc.MustUnmarshalJSON(cdc.MustMarshalJSON(rewards.ExportGenesis(src, a.Rewardskeeper)), &g)
			rewards.InitGenesis(dst, a.Rewardskeeper, &g)
		}},
		{"liquidity", liquiditytypes.StoreKey, func(a *chain.App, cdc codec.JSONCodec, src, dst sdk.Context) {
			var g liquiditytypes.GenesisState
			cdc.MustUnmarshalJSON(cdc.MustMarshalJSON(liquidity.ExportGenesis(src, a.LiquidityKeeper)), &g)
			liquidity.InitGenesis(dst, a.LiquidityKeeper, g)
		}},
		{"lend", lendtypes.StoreKey, func(a *chain.App, cdc codec.JSONCodec, src, dst sdk.Context) {
			var g lendtypes.GenesisState
			cdc.MustUnmarshalJSON(cdc.MustMarshalJSON(lend.ExportGenesis(src, a.LendKeeper)), &g)
			lend.InitGenesis(dst, a.LendKeeper, &g)
		}},
		{"liquidation", liquidationtypes.StoreKey, func(a *chain.App, cdc codec.JSONCodec, src, dst sdk.Context) {
			var g liquidationtypes.GenesisState
			cdc.MustUnmarshalJSON(cdc.MustMarshalJSON(liquidation.ExportGenesis(src, a.LiquidationKeeper)), &g)
			liquidation.InitGenesis(dst, a.LiquidationKeeper, &g)
		}},
		{"liquidationsV2", liquidationsV2types.StoreKey, func(a *chain.App, cdc codec.JSONCodec, src, dst sdk.Context) {
			var g liquidationsV2types.GenesisState
			cdc.MustUnmarshalJSON(cdc.MustMarshalJSON(liquidationsV2.ExportGenesis(src, a.NewliqKeeper)), &g)
			liquidationsV2.InitGenesis(dst, a.NewliqKeeper, g)
		}},
		{"auction", auctiontypes.StoreKey, func(a *chain.App, cdc codec.JSONCodec, src, dst sdk.Context) {
			var g auctiontypes.GenesisState
			cdc.MustUnmarshalJSON(cdc.MustMarshalJSON(auction.ExportGenesis(src, a.AuctionKeeper)), &g)
			auction.InitGenesis(dst, a.AuctionKeeper, &g)
		}},
		{"auctionsV2", auctionsV2types.StoreKey, func(a *chain.App, cdc codec.JSONCodec, src, dst sdk.Context) {
			var g auctionsV2types.GenesisState
			cdc.MustUnmarshalJSON(cdc.MustMarshalJSON(auctionsV2.ExportGenesis(src, a.NewaucKeeper)), &g)
			auctionsV2.InitGenesis(dst, a.NewaucKeeper, g)
		}},
	}
}

// ---------------------------------------------------------------------------------------------
// store dumps
type c20Entry struct {
	k, v    uint64 // 60-bit digests (v = 0 for an empty value)
	trailID uint64 // trailing 8 bytes of the key, big endian (ids are stored that way)
	u64     int64  // value decoded as a protobuf UInt64Value, -1 when it is not one
	klen    int    // length of the key
}

func c20Hash(bz []byte) uint64 {
	h := sha256.Sum256(bz)
	return binary.BigEndian.Uint64(h[:8]) >> 4
}

func c20Dump(a *chain.App, ctx sdk.Context, store string) map[int][]c20Entry {
	out := map[int][]c20Entry{}
	it := ctx.KVStore(a.GetKey(store)).Iterator(nil, nil)
	defer it.Close()
	for ; it.Valid(); it.Next() {
		k, v := it.Key(), it.Value()
		e := c20Entry{k: c20Hash(k), u64: -1, klen: len(k)}
		if len(v) > 0 {
			e.v = c20Hash(v)
		}
		if len(k) >= 9 {
			e.trailID = binary.BigEndian.Uint64(k[len(k)-8:])
		}
		var u gogotypes.UInt64Value
		if err := u.Unmarshal(v); err == nil && (len(v) == 0 || v[0] == 0x08) {
			e.u64 = int64(u.Value)
		}
		out[int(k[0])] = append(out[int(k[0])], e)
	}
	return out
}

// the parameter subspace of a module (pseudo prefix 256): keys "<subspace>/..." of the params store
func c20ParamDump(a *chain.App, ctx sdk.Context, subspace string) []c20Entry {
	var out []c20Entry
	pfx := []byte(subspace + "/")
	it := sdk.KVStorePrefixIterator(ctx.KVStore(a.GetKey(paramstypes.StoreKey)), pfx)
	defer it.Close()
	for ; it.Valid(); it.Next() {
		e := c20Entry{k: c20Hash(it.Key()), u64: -1}
		if len(it.Value()) > 0 {
			e.v = c20Hash(it.Value())
		}
		out = append(out, e)
	}
	return out
}

func c20Wipe(a *chain.App, ctx sdk.Context, store, subspace string) {
	st := ctx.KVStore(a.GetKey(store))
	var keys [][]byte
	it := st.Iterator(nil, nil)
	for ; it.Valid(); it.Next() {
		keys = append(keys, append([]byte{}, it.Key()...))
	}
	it.Close()
	for _, k := range keys {
		st.Delete(k)
	}
	ps := ctx.KVStore(a.GetKey(paramstypes.StoreKey))
	keys = nil
	it = sdk.KVStorePrefixIterator(ps, []byte(subspace+"/"))
	for ; it.Valid(); it.Next() {
		keys = append(keys, append([]byte{}, it.Key()...))
	}
	it.Close()
	for _, k := range keys {
		ps.Delete(k)
	}
}

func c20Stats(es []c20Entry) (maxID, lastID uint64, cval int64) {
	cval = -1
	for i, e := range es {
		if e.trailID > maxID {
			maxID = e.trailID
		}
		lastID = e.trailID
		if i == 0 {
			cval = e.u64
		}
	}
	return
}

func c20EntriesStr(es []c20Entry) string {
	var sb strings.Builder
	for _, e := range es {
		fmt.Fprintf(&sb, " %d %d", e.k, e.v)
	}
	return sb.String()
}

// ---------------------------------------------------------------------------------------------
// fixtures of one scenario
type c20World struct {
	t                        *testing.T
	a                        *chain.App
	app1, app2               uint64
	cmdx, cmst, harbor, atom uint64
	pairCmdx, pairAtom       uint64
	epA, epB                 uint64
	usdc, epS                uint64 // stable-mint asset and extended pair (scenarios with rewards)
	liqPair, liqPool         uint64
	users                    []sdk.AccAddress
}

var c20Denoms = []string{"ucmdx", "ucmst", "uharbor", "uatom"}

// balances of the users and of the DeFi module accounts, as "holder/denom" -> amount
func c20Balances(w *c20World, ctx sdk.Context) map[string]sdk.Int {
	out := map[string]sdk.Int{}
	for i, u := range w.users {
		for _, c := range w.a.BankKeeper.GetAllBalances(ctx, u) {
			out[fmt.Sprintf("u%d/%s", i, c.Denom)] = c.Amount
		}
	}
	for _, m := range []string{"vaultV1", "lockerV1", "collectorV1", "liquidityV1", "esmV1", "rewardsV1", "auctionV1"} {
		for _, c := range w.a.BankKeeper.GetAllBalances(ctx, modAddr(m)) {
			out[m+"/"+c.Denom] = c.Amount
		}
	}
	return out
}

// digest of the balance CHANGES of one step (so that a difference does not cascade into later steps)
func c20BalDelta(before, after map[string]sdk.Int) uint64 {
	keys := map[string]bool{}
	for k := range before {
		keys[k] = true
	}
	for k := range after {
		keys[k] = true
	}
	var ks []string
	for k := range keys {
		ks = append(ks, k)
	}
	sort.Strings(ks)
	var sb strings.Builder
	for _, k := range ks {
		b, ok1 := before[k]
		a, ok2 := after[k]
		if !ok1 {
			b = sdk.ZeroInt()
		}
		if !ok2 {
			a = sdk.ZeroInt()
		}
		if d := a.Sub(b); !d.IsZero() {
			fmt.Fprintf(&sb, "%s:%s;", k, d)
		}
	}
	return c20Hash([]byte(sb.String()))
}

type c20Scenario struct {
	nVaults, closeVault   int // closeVault: 0 none, k: close the k-th created vault (1-based)
	nLockers, closeLocker int
	drawFee               int64 // draw-down fee in percent (0 => no net fee from vaults)
	nOrders               int
	withLiquidity         bool
	withEsm               bool
	withLiqSweep          bool // run the liquidation begin-blockers (sweep offsets)
	withRewards           bool
	withGenesisToken      bool // the collector's secondary asset is a genesis token of the app (the validating
	// collector.SetCollectorLookupTable, through which InitGenesis imported before C20-F12 was repaired, wants that)
	amt      int64
	liqBatch uint64 // batch size of the liquidation V1 sweep (small: the sweep offset matters)
}

// populate drives user messages (and the governance / wasm-binding entry points for configuration)
func c20Populate(w *c20World, ctx sdk.Context, sc c20Scenario, tr *tracer) {
	t, a := w.t, w.a
	must := func(what string, class string, err error) {
		if class != "ok" {
			t.Fatalf("populate %s: %s %v", what, class, err)
		}
	}
	w.app1 = addAppRecord(t, a, ctx, "appone")
	w.app2 = addAppRecord(t, a, ctx, "apptwo")
	w.cmdx = addAsset(t, a, ctx, "CMDX", "ucmdx", 1000000, true, false)
	w.cmst = addAsset(t, a, ctx, "CMST", "ucmst", 1000000, true, true)
	w.harbor = addAsset(t, a, ctx, "HARBOR", "uharbor", 1000000, false, false)
	w.atom = addAsset(t, a, ctx, "ATOM", "uatom", 1000000, true, false)
	setPrice(a, ctx, w.cmdx, 2000000, true)
	setPrice(a, ctx, w.cmst, 1000000, true)
	setPrice(a, ctx, w.atom, 9000000+uint64(sc.amt%1000), true)
	w.pairCmdx = addPair(t, a, ctx, w.cmdx, w.cmst)
	w.pairAtom = addPair(t, a, ctx, w.atom, w.cmst)
	w.epA = addExtPair(t, a, ctx, extPairCfg{Name: "CMDX-A", App: w.app1, Pair: w.pairCmdx, StabilityFee: sdk.NewDecWithPrec(2, 2), ClosingFee: sdk.ZeroDec(),
		LiqPenalty: sdk.NewDecWithPrec(15, 2), DrawDownFee: sdk.NewDecWithPrec(sc.drawFee, 2), MinCr: sdk.NewDecWithPrec(15, 1),
		DebtCeiling: sdk.NewInt(1000000000000), DebtFloor: sdk.NewInt(1000000), Active: true, OraclePrice: true, AssetOutPrice: 1000000, MinUsdValLeft: 100000})
	w.epB = addExtPair(t, a, ctx, extPairCfg{Name: "ATOM-A", App: w.app1, Pair: w.pairAtom, StabilityFee: sdk.ZeroDec(), ClosingFee: sdk.ZeroDec(),
		LiqPenalty: sdk.NewDecWithPrec(12, 2), DrawDownFee: sdk.NewDecWithPrec(sc.drawFee, 2), MinCr: sdk.NewDecWithPrec(14, 1),
		DebtCeiling: sdk.NewInt(1000000000000), DebtFloor: sdk.NewInt(1000000), Active: true, OraclePrice: true, AssetOutPrice: 1000000, MinUsdValLeft: 100000})
	w.users = nil
	for i := 1; i <= 8; i++ {
		u := addrN(i)
		w.users = append(w.users, u)
		fund(t, a, ctx, u, sdk.NewCoins(sdk.NewCoin("ucmdx", sdk.NewInt(100000000000)), sdk.NewCoin("uatom", sdk.NewInt(100000000000)),
			sdk.NewCoin("ucmst", sdk.NewInt(50000000000)), sdk.NewCoin("uharbor", sdk.NewInt(50000000000))))
	}
	if sc.withGenesisToken {
		if err := a.AssetKeeper.AddAssetInAppRecords(ctx, assettypes.AppData{Id: w.app1, GenesisToken: []assettypes.MintGenesisToken{{AssetId: w.harbor,
			GenesisSupply: sdk.NewInt(1000000000000), IsGovToken: false, Recipient: w.users[0].String()}}}); err != nil {
			t.Fatalf("genesis token: %v", err)
		}
	}
	// collector configuration (wasm binding entry points, as governance does)
	if err := a.CollectorKeeper.WasmSetCollectorLookupTable(ctx, &bindings.MsgSetCollectorLookupTable{AppID: w.app1, CollectorAssetID: w.cmst, SecondaryAssetID: w.harbor,
		SurplusThreshold: sdk.NewInt(10000000000), DebtThreshold: sdk.NewInt(5000000), LockerSavingRate: sdk.MustNewDecFromStr("0.1"),
		LotSize: sdk.NewInt(2000000), BidFactor: sdk.MustNewDecFromStr("0.01"), DebtLotSize: sdk.NewInt(2000000)}); err != nil {
		t.Fatalf("collector lookup: %v", err)
	}
	if err := a.CollectorKeeper.WasmSetAuctionMappingForApp(ctx, &bindings.MsgSetAuctionMappingForApp{AppID: w.app1, AssetIDs: w.cmst,
		IsSurplusAuctions: true, IsDebtAuctions: false, IsDistributor: false}); err != nil {
		t.Fatalf("auction mapping: %v", err)
	}
	// vaults: users 1..n alternate between the two extended pairs
	for i := 0; i < sc.nVaults; i++ {
		ep := w.epA
		in, out := sdk.NewInt(sc.amt*100+int64(i)), sdk.NewInt(sc.amt*20)
		if i%2 == 1 {
			ep = w.epB
		}
		c, err, _ := execMsg(a, ctx, vaulttypes.NewMsgCreateRequest(w.users[i], w.app1, ep, in, out))
		must(fmt.Sprintf("vault %d", i+1), c, err)
	}
	if sc.closeVault > 0 && sc.closeVault <= sc.nVaults {
		i := sc.closeVault - 1
		ep := w.epA
		if i%2 == 1 {
			ep = w.epB
		}
		c, err, _ := execMsg(a, ctx, &vaulttypes.MsgCloseRequest{From: w.users[i].String(), AppId: w.app1, ExtendedPairVaultId: ep, UserVaultId: uint64(i + 1)})
		must("close vault", c, err)
	}
	// lockers
	if sc.nLockers > 0 {
		if _, err := a.LockerKeeper.AddWhiteListedAsset(ctx, lockertypes.NewMsgAddWhiteListedAssetRequest(w.users[0].String(), w.app1, w.cmst)); err != nil {
			t.Fatalf("whitelist locker asset: %v", err)
		}
		for i := 0; i < sc.nLockers; i++ {
			c, err, _ := execMsg(a, ctx, lockertypes.NewMsgCreateLockerRequest(w.users[i].String(), sdk.NewInt(sc.amt*3+int64(i)), w.cmst, w.app1))
			must(fmt.Sprintf("locker %d", i+1), c, err)
		}
		if sc.closeLocker > 0 && sc.closeLocker <= sc.nLockers {
			i := sc.closeLocker - 1
			c, err, _ := execMsg(a, ctx, lockertypes.NewMsgCloseLockerRequest(w.users[i].String(), w.app1, w.cmst, uint64(i+1)))
			must("close locker", c, err)
		}
	}
	if sc.withRewards {
		_ = a.Rewardskeeper.WhitelistAppIDVault(ctx, w.app1)
		// a stable-mint vault of an app that is white-listed for rewards: MsgCreateStableMint records the
		// minter under StableVaultRewardsKeyPrefix
		w.usdc = addAsset(t, a, ctx, "USDC", "uusdc", 1000000, false, false)
		ps := addPair(t, a, ctx, w.usdc, w.cmst)
		w.epS = addExtPair(t, a, ctx, extPairCfg{Name: "USDC-PSM", App: w.app1, Pair: ps, StabilityFee: sdk.ZeroDec(), ClosingFee: sdk.ZeroDec(),
			LiqPenalty: sdk.ZeroDec(), DrawDownFee: sdk.NewDecWithPrec(1, 2), MinCr: sdk.OneDec(), DebtCeiling: sdk.NewInt(1000000000000), DebtFloor: sdk.NewInt(1000000),
			Stable: true, Active: true, OraclePrice: false, AssetOutPrice: 1000000, MinUsdValLeft: 100000})
		fund(t, a, ctx, w.users[5], sdk.NewCoins(sdk.NewCoin("uusdc", sdk.NewInt(100000000000))))
		// external rewards for the stable-mint vaults of the app (a user message; the reward coins go to
		// the rewards module account)
		c0, err0, _ := execMsg(a, ctx, &rewardstypes.ActivateExternalRewardsStableMint{AppId: w.app1, CswapAppId: w.app2, CommodoAppId: w.app2, DurationDays: 3,
			AcceptedBlockHeight: 1, TotalRewards: sdk.NewCoin("uharbor", sdk.NewInt(1000000000)), Depositor: w.users[4].String()})
		must("stable-mint external rewards", c0, err0)
		c, err, _ := execMsg(a, ctx, vaulttypes.NewMsgCreateStableMintRequest(w.users[5], w.app1, w.epS, sdk.NewInt(sc.amt*5)))
		must("stable mint", c, err)
		if sc.nLockers > 0 {
			_ = a.Rewardskeeper.WhitelistAssetForInternalRewards(ctx, w.app1, w.cmst)
		}
	}
	if sc.withEsm {
		if err := a.EsmKeeper.AddESMTriggerParamsForApp(ctx, &bindings.MsgAddESMTriggerParams{AppID: w.app1, TargetValue: sdk.NewCoin("uharbor", sdk.NewInt(1000000000)),
			CoolOffPeriod: 3600, AssetID: []uint64{w.cmdx, w.cmst}, Rates: []uint64{2000000, 1000000}}); err != nil {
			t.Fatalf("esm params: %v", err)
		}
		_ = a.EsmKeeper.SetKillSwitchData(ctx, esmtypes.KillSwitchParams{AppId: w.app2, BreakerEnable: false})
		// (MsgDepositESM needs a governance token minted through tokenmint: not populated here)
	}
	if sc.withLiquidity {
		params, err := a.LiquidityKeeper.GetGenericParams(ctx, w.app1)
		if err != nil {
			t.Fatalf("liquidity params: %v", err)
		}
		fund(t, a, ctx, w.users[6], params.PairCreationFee.Add(params.PairCreationFee...).Add(params.PoolCreationFee...))
		c, err2, _ := execMsg(a, ctx, liquiditytypes.NewMsgCreatePair(w.app1, w.users[6], "ucmdx", "ucmst"))
		must("liquidity pair", c, err2)
		w.liqPair = a.LiquidityKeeper.GetLastPairID(ctx, w.app1)
		c, err2, _ = execMsg(a, ctx, liquiditytypes.NewMsgCreatePool(w.app1, w.users[6], w.liqPair,
			sdk.NewCoins(sdk.NewCoin("ucmdx", sdk.NewInt(1000000000)), sdk.NewCoin("ucmst", sdk.NewInt(2000000000)))))
		must("liquidity pool", c, err2)
		w.liqPool = a.LiquidityKeeper.GetLastPoolID(ctx, w.app1)
		// a second pair without a pool: the pair id counter and the pool id counter differ
		c, err2, _ = execMsg(a, ctx, liquiditytypes.NewMsgCreatePair(w.app1, w.users[6], "uharbor", "ucmst"))
		must("liquidity pair 2", c, err2)
		for i := 0; i < sc.nOrders; i++ {
			price := sdk.NewDecWithPrec(190+int64(i), 2)
			c, err2, _ = execMsg(a, ctx, liquiditytypes.NewMsgLimitOrder(w.app1, w.users[i%4], w.liqPair, liquiditytypes.OrderDirectionBuy,
				sdk.NewCoin("ucmst", sdk.NewInt(3000000)), "ucmdx", price, sdk.NewInt(1000000), time.Hour))
			must("limit order", c, err2)
		}
		// a deposit request that stays pending (no end blocker in between) and a farmer
		c, err2, _ = execMsg(a, ctx, liquiditytypes.NewMsgDeposit(w.app1, w.users[1], w.liqPool,
			sdk.NewCoins(sdk.NewCoin("ucmdx", sdk.NewInt(10000000)), sdk.NewCoin("ucmst", sdk.NewInt(20000000)))))
		must("liquidity deposit", c, err2)
		pool, _ := a.LiquidityKeeper.GetPool(ctx, w.app1, w.liqPool)
		pc := a.BankKeeper.GetBalance(ctx, w.users[6], pool.PoolCoinDenom)
		if pc.Amount.IsPositive() {
			c, err2, _ = execMsg(a, ctx, liquiditytypes.NewMsgFarm(w.app1, w.liqPool, w.users[6], sdk.NewCoin(pool.PoolCoinDenom, pc.Amount.QuoRaw(2))))
			must("farm", c, err2)
		}
	}
	if sc.withLiqSweep {
		_ = a.LiquidationKeeper.WasmWhitelistAppIDLiquidation(ctx, w.app1)
		a.LiquidationKeeper.SetParams(ctx, liquidationtypes.NewParams(sc.liqBatch))
		// (auction V1 parameters of the app: a vault that the sweep liquidates in the random continuation
		// gets its dutch auction)
		a.AuctionKeeper.SetAuctionParams(ctx, auctiontypes.AuctionParams{AppId: w.app1, AuctionDurationSeconds: 300, Buffer: sdk.MustNewDecFromStr("1.2"),
			Cusp: sdk.MustNewDecFromStr("0.6"), Step: sdk.NewIntFromUint64(1), PriceFunctionType: 1, SurplusId: 1, DebtId: 2, DutchId: 3, BidDurationSeconds: 300})
		bctx := ctx.WithBlockHeight(ctx.BlockHeight() + 1).WithBlockTime(ctx.BlockTime().Add(6 * time.Second))
		safely(func() { liquidation.BeginBlocker(bctx, abci.RequestBeginBlock{}, a.LiquidationKeeper) })
	}
}

// ---------------------------------------------------------------------------------------------
// continuation workload: the same operations on the original and on the re-imported chain
type c20Step struct {
	name    string
	depMod  string // the (module, prefix) whose round trip this step observes ("-" 0: none)
	depByte int
	run     func(ctx sdk.Context) (class string)
	id      func(ctx sdk.Context) uint64
}

func c20Keeper(f func(ctx sdk.Context) error) func(ctx sdk.Context) string {
	return func(ctx sdk.Context) string {
		cctx, write := ctx.CacheContext()
		var err error
		if p, _ := safely(func() { err = f(cctx) }); p {
			return "panic"
		}
		if err != nil {
			return "err"
		}
		write()
		return "ok"
	}
}

func c20Continuation(w *c20World, sc c20Scenario) []c20Step {
	a := w.a
	msg := func(m sdk.Msg) func(ctx sdk.Context) string {
		return func(ctx sdk.Context) string { c, _, _ := execMsg(a, ctx, m); return c }
	}
	none := func(ctx sdk.Context) uint64 { return 0 }
	vaultID := func(ctx sdk.Context) uint64 { return a.VaultKeeper.GetIDForVault(ctx) }
	lockerID := func(ctx sdk.Context) uint64 { return a.LockerKeeper.GetIDForLocker(ctx) }
	u := w.users
	amt := sdk.NewInt(sc.amt)
	steps := []c20Step{
		{"asset.add-asset", "asset", 1, c20Keeper(func(ctx sdk.Context) error {
			return a.AssetKeeper.AddAssetRecords(ctx, assettypes.Asset{Name: "OSMO", Denom: "uosmo", Decimals: sdk.NewInt(1000000), IsOnChain: true})
		}), func(ctx sdk.Context) uint64 { return a.AssetKeeper.GetAssetID(ctx) }},
		{"asset.add-app", "asset", 4, c20Keeper(func(ctx sdk.Context) error {
			return a.AssetKeeper.AddAppRecords(ctx, assettypes.AppData{Name: "appthree", ShortName: "appthree", MinGovDeposit: sdk.NewInt(0), GenesisToken: []assettypes.MintGenesisToken{}})
		}), func(ctx sdk.Context) uint64 { return a.AssetKeeper.GetAppID(ctx) }},
		{"asset.add-pair", "asset", 3, c20Keeper(func(ctx sdk.Context) error {
			return a.AssetKeeper.AddPairsRecords(ctx, assettypes.Pair{AssetIn: w.harbor, AssetOut: w.cmst})
		}), func(ctx sdk.Context) uint64 { return a.AssetKeeper.GetPairID(ctx) }},
		{"asset.query-by-denom", "asset", 33, func(ctx sdk.Context) string {
			if _, ok := a.AssetKeeper.GetAssetForDenom(ctx, "uatom"); ok {
				return "ok"
			}
			return "err"
		}, func(ctx sdk.Context) uint64 { as, _ := a.AssetKeeper.GetAssetForDenom(ctx, "uatom"); return as.Id }},
		{"market.price", "market", 36, func(ctx sdk.Context) string {
			if _, err := a.MarketKeeper.GetLatestPrice(ctx, w.atom); err != nil {
				return "err"
			}
			return "ok"
		}, func(ctx sdk.Context) uint64 { p, _ := a.MarketKeeper.GetLatestPrice(ctx, w.atom); return p }},
		{"vault.create", "vault", 21, msg(vaulttypes.NewMsgCreateRequest(u[6], w.app1, w.epA, amt.MulRaw(100), amt.MulRaw(20))), vaultID},
		{"vault.create2", "vault", 21, msg(vaulttypes.NewMsgCreateRequest(u[7], w.app1, w.epB, amt.MulRaw(100), amt.MulRaw(20))), vaultID},
		{"vault.length", "vault", 23, func(ctx sdk.Context) string { return "ok" }, func(ctx sdk.Context) uint64 { return a.VaultKeeper.GetLengthOfVault(ctx) }},
		{"vault.app-mapping", "vault", 19, func(ctx sdk.Context) string { return "ok" }, func(ctx sdk.Context) uint64 {
			m, _ := a.VaultKeeper.GetAppExtendedPairVaultMappingData(ctx, w.app1, w.epA)
			// (the vault id list is left out: ids are observed by the vault.create steps)
			return c20Hash([]byte(m.TokenMintedAmount.String() + "/" + m.CollateralLockedAmount.String() + fmt.Sprint(len(m.VaultIds))))
		}},
		{"collector.net-fee", "collector", 8, func(ctx sdk.Context) string {
			if _, ok := a.CollectorKeeper.GetNetFeeCollectedData(ctx, w.app1, w.cmst); ok {
				return "ok"
			}
			return "err"
		}, func(ctx sdk.Context) uint64 {
			d, ok := a.CollectorKeeper.GetNetFeeCollectedData(ctx, w.app1, w.cmst)
			if !ok || d.NetFeesCollected.IsNil() {
				return 0
			}
			return d.NetFeesCollected.Uint64()
		}},
		{"collector.lookup", "collector", 1, func(ctx sdk.Context) string {
			if _, ok := a.CollectorKeeper.GetCollectorLookupTable(ctx, w.app1, w.cmst); ok {
				return "ok"
			}
			return "err"
		}, none},
	}
	if sc.nVaults >= 1 && sc.closeVault != 1 {
		steps = append(steps,
			c20Step{"vault.deposit", "vault", 16, msg(vaulttypes.NewMsgDepositRequest(u[0], w.app1, w.epA, 1, amt)), none},
			c20Step{"vault.draw", "vault", 16, msg(vaulttypes.NewMsgDrawRequest(u[0], w.app1, w.epA, 1, amt)), none},
			c20Step{"vault.repay", "vault", 16, msg(vaulttypes.NewMsgRepayRequest(u[0], w.app1, w.epA, 1, amt)), none},
			c20Step{"vault.withdraw", "vault", 16, msg(vaulttypes.NewMsgWithdrawRequest(u[0], w.app1, w.epA, 1, amt)), none},
			c20Step{"vault.close", "vault", 16, msg(&vaulttypes.MsgCloseRequest{From: u[0].String(), AppId: w.app1, ExtendedPairVaultId: w.epA, UserVaultId: 1}), none},
		)
	}
	if sc.nLockers > 0 {
		// (MsgCreateLocker needs the collector lookup table: before the repair of C20-F12 it was dropped
		// at import when the secondary asset was no genesis token of the app, and these steps failed)
		lm, lb := "locker", 23
		steps = append(steps,
			c20Step{"locker.create", lm, lb, msg(lockertypes.NewMsgCreateLockerRequest(u[6].String(), amt, w.cmst, w.app1)), lockerID},
			c20Step{"locker.create2", lm, lb, msg(lockertypes.NewMsgCreateLockerRequest(u[7].String(), amt, w.cmst, w.app1)), lockerID},
			c20Step{"locker.lookup", lm, lb, func(ctx sdk.Context) string { return "ok" }, func(ctx sdk.Context) uint64 {
				l, _ := a.LockerKeeper.GetLockerLookupTable(ctx, w.app1, w.cmst)
				return c20Hash([]byte(l.DepositedAmount.String() + fmt.Sprint(l.LockerIds)))
			}},
		)
		if sc.closeLocker != 1 {
			// the first locker belongs to user 1: on the re-imported chain the reset id counter lets
			// locker.create overwrite it, so these observe (locker, 23) too
			steps = append(steps,
				c20Step{"locker.deposit", lm, lb, msg(lockertypes.NewMsgDepositAssetRequest(u[0].String(), 1, amt, w.cmst, w.app1)), none},
				c20Step{"locker.withdraw", lm, lb, msg(lockertypes.NewMsgWithdrawAssetRequest(u[0].String(), 1, amt, w.cmst, w.app1)), none},
			)
		}
	}
	if sc.withLiquidity {
		orderID := func(ctx sdk.Context) uint64 {
			p, _ := a.LiquidityKeeper.GetPair(ctx, w.app1, w.liqPair)
			return p.LastOrderId
		}
		steps = append(steps,
			c20Step{"liquidity.order", "liquidity", 162, msg(liquiditytypes.NewMsgLimitOrder(w.app1, u[2], w.liqPair, liquiditytypes.OrderDirectionSell,
				sdk.NewCoin("ucmdx", sdk.NewInt(1000000)), "ucmst", sdk.NewDecWithPrec(230, 2), sdk.NewInt(1000000), time.Hour)), orderID},
			c20Step{"liquidity.deposit", "liquidity", 165, msg(liquiditytypes.NewMsgDeposit(w.app1, u[3], w.liqPool,
				sdk.NewCoins(sdk.NewCoin("ucmdx", sdk.NewInt(5000000)), sdk.NewCoin("ucmst", sdk.NewInt(10000000))))), func(ctx sdk.Context) uint64 {
				p, _ := a.LiquidityKeeper.GetPool(ctx, w.app1, w.liqPool)
				return p.LastDepositRequestId
			}},
			c20Step{"liquidity.pair", "liquidity", 160, msg(liquiditytypes.NewMsgCreatePair(w.app1, u[6], "uatom", "ucmst")),
				func(ctx sdk.Context) uint64 { return a.LiquidityKeeper.GetLastPairID(ctx, w.app1) }},
			c20Step{"liquidity.endblock", "liquidity", 178, func(ctx sdk.Context) string {
				if p, _ := safely(func() { liquidity.EndBlocker(ctx, a.LiquidityKeeper, a.AssetKeeper) }); p {
					return "panic"
				}
				return "ok"
			}, func(ctx sdk.Context) uint64 { return uint64(len(a.LiquidityKeeper.GetAllOrders(ctx, w.app1))) }},
		)
		if sc.nOrders > 0 {
			steps = append(steps, c20Step{"liquidity.cancel", "liquidity", 179, msg(liquiditytypes.NewMsgCancelOrder(w.app1, u[0], w.liqPair, 1)), none})
		}
	}
	if sc.withRewards {
		steps = append(steps,
			c20Step{"vault.stable-rewards", "vault", 24, func(ctx sdk.Context) string {
				if rs, ok := a.VaultKeeper.GetStableMintVaultUserRewards(ctx, w.app1, u[5].String()); ok && len(rs) > 0 {
					return "ok"
				}
				return "err"
			}, func(ctx sdk.Context) uint64 {
				rs, _ := a.VaultKeeper.GetStableMintVaultUserRewards(ctx, w.app1, u[5].String())
				return uint64(len(rs))
			}},
			c20Step{"rewards.stable-ext", "rewards", 41, func(ctx sdk.Context) string { return "ok" }, func(ctx sdk.Context) uint64 {
				return uint64(len(a.Rewardskeeper.GetAllExternalRewardStableVault(ctx)))
			}},
			c20Step{"vault.stable-vault", "vault", 20, func(ctx sdk.Context) string {
				if _, ok := a.VaultKeeper.GetStableMintVault(ctx, 1); ok {
					return "ok"
				}
				return "err"
			}, func(ctx sdk.Context) uint64 { return a.VaultKeeper.GetIDForStableVault(ctx) }},
		)
	}
	if sc.withEsm {
		steps = append(steps, c20Step{"esm.params", "esm", 1, func(ctx sdk.Context) string {
			if _, ok := a.EsmKeeper.GetESMTriggerParams(ctx, w.app1); ok {
				return "ok"
			}
			return "err"
		}, func(ctx sdk.Context) uint64 {
			d, _ := a.EsmKeeper.GetESMTriggerParams(ctx, w.app1)
			return c20Hash([]byte(d.String()))
		}}, c20Step{"esm.killswitch", "esm", 4, func(ctx sdk.Context) string {
			if _, ok := a.EsmKeeper.GetKillSwitchData(ctx, w.app2); ok {
				return "ok"
			}
			return "err"
		}, none})
	}
	if sc.withLiqSweep {
		steps = append(steps, c20Step{"liquidation.sweep", "liquidation", 22, func(ctx sdk.Context) string {
			bctx := ctx.WithBlockHeight(ctx.BlockHeight() + 2).WithBlockTime(ctx.BlockTime().Add(12 * time.Second))
			if p, _ := safely(func() { liquidation.BeginBlocker(bctx, abci.RequestBeginBlock{}, a.LiquidationKeeper) }); p {
				return "panic"
			}
			return "ok"
		}, func(ctx sdk.Context) uint64 {
			h, _ := a.LiquidationKeeper.GetLiquidationOffsetHolder(ctx, w.app1, liquidationtypes.VaultLiquidationsOffsetPrefix)
			return h.CurrentOffset
		}})
	}
	return steps
}

// per (module, prefix) comparison of the two branches: one `p` line each
func c20DumpCompare(a *chain.App, tr *tracer, mods []c20Module, orig, reimp sdk.Context) {
	for _, m := range mods {
		do, dn := c20Dump(a, orig, m.store), c20Dump(a, reimp, m.store)
		if po := c20ParamDump(a, orig, m.store); len(po) > 0 {
			do[256] = po
		}
		if pn := c20ParamDump(a, reimp, m.store); len(pn) > 0 {
			dn[256] = pn
		}
		bytes := map[int]bool{}
		for b := range do {
			bytes[b] = true
		}
		for b := range dn {
			bytes[b] = true
		}
		var bs []int
		for b := range bytes {
			bs = append(bs, b)
		}
		sort.Ints(bs)
		for _, b := range bs {
			mo, lo, co := c20Stats(do[b])
			mn, ln, cn := c20Stats(dn[b])
			tr.p("p %s %d %d %d %d %d %d %d %d %d E%s N%s", m.name, b, len(do[b]), len(dn[b]), mo, lo, mn, ln, co, cn,
				c20EntriesStr(do[b]), c20EntriesStr(dn[b]))
		}
	}
}

// ---------------------------------------------------------------------------------------------
// TestC20: populate -> ExportGenesis of every DeFi module -> JSON -> InitGenesis into emptied module
// stores (a branch of the same chain, so that bank / auth / staking state is identical) -> compare
// store prefix by prefix, then run the continuation workload on both branches.
func TestC20(t *testing.T) {
	a, base := newApp(t)
	tr := newTracer(t, "c20.trace")
	defer tr.close()
	r := newRng(seed())
	ncases := envInt("VERIF_CASES", 10)
	only := envInt("VERIF_CASE", -1)
	mods := c20Modules()
	cdc := a.AppCodec()
	nRand := 12 // random continuation steps per case (the plan is always drawn in full)
	if os.Getenv("VERIF_TIER") == "thorough" {
		nRand = c20RandPlanLen
	}
	nRand = envInt("VERIF_C20_RAND", nRand)

	for ci := 0; ci < ncases; ci++ {
		sc := c20Scenario{nVaults: 1 + r.intn(5), nLockers: r.intn(5), drawFee: r.pickI(0, 1, 1, 2, 5), nOrders: r.intn(5),
			withLiquidity: r.chance(70), withEsm: r.chance(60), withLiqSweep: r.chance(60), withRewards: r.chance(60), withGenesisToken: r.chance(60),
			amt: r.pickI(1000000, 1500000, 2500000, 7000001) + int64(r.intn(1000))}
		switch r.intn(4) {
		case 0:
			sc.closeVault = sc.nVaults // the newest vault
		case 1:
			sc.closeVault = 1 + r.intn(sc.nVaults)
		}
		if sc.nLockers > 0 {
			switch r.intn(4) {
			case 0:
				sc.closeLocker = sc.nLockers
			case 1:
				sc.closeLocker = 1 + r.intn(sc.nLockers)
			}
		}
		if ci == 0 { // the first case always exercises everything
			sc.withLiquidity, sc.withEsm, sc.withLiqSweep, sc.withRewards, sc.withGenesisToken = true, true, true, true, true
			if sc.nLockers == 0 {
				sc.nLockers = 2
			}
			if sc.drawFee == 0 {
				sc.drawFee = 1
			}
		}
		if ci == 1 { // regression of C20-F1 / C20-F12: net fees collected, lockers, and a collector lookup table
			// whose secondary asset is NOT a genesis token of the app (the validating import setter rejected it)
			sc.withGenesisToken = false
			if sc.nLockers == 0 {
				sc.nLockers = 2
			}
			if sc.closeLocker == 1 {
				sc.closeLocker = 0
			}
			if sc.drawFee == 0 {
				sc.drawFee = 2
			}
		}
		sc.liqBatch = r.pickU(2, 3, 200)
		plan := c20DrawRandPlan(r)
		if only >= 0 && ci != only {
			continue
		}
		ctx, _ := base.CacheContext()
		w := &c20World{t: t, a: a}
		tr.p("case %d vaults=%d close=%d lockers=%d closel=%d fee=%d orders=%d liq=%s esm=%s sweep=%s batch=%d rewards=%s gentoken=%s amt=%d", ci, sc.nVaults, sc.closeVault,
			sc.nLockers, sc.closeLocker, sc.drawFee, sc.nOrders, b2s(sc.withLiquidity), b2s(sc.withEsm), b2s(sc.withLiqSweep), sc.liqBatch, b2s(sc.withRewards), b2s(sc.withGenesisToken), sc.amt)
		c20Populate(w, ctx, sc, tr)

		// the two branches
		orig, _ := ctx.CacheContext()
		reimp, _ := ctx.CacheContext()
		for _, m := range mods {
			c20Wipe(a, reimp, m.store, m.store)
		}
		for _, m := range mods {
			m := m
			class := "ok"
			if p, msg := safely(func() { m.roundtrip(a, cdc, orig, reimp) }); p {
				class = "panic"
				t.Logf("case %d: %s export/import panicked: %s", ci, m.name, msg)
			}
			tr.p("imp %s %s", m.name, class)
		}
		c20DumpCompare(a, tr, mods, orig, reimp)
		// continuation: the fixed steps, then a random sequence of messages and blocks
		fixedSteps := c20Continuation(w, sc)
		for i, st := range fixedSteps {
			bo, bn := c20Balances(w, orig), c20Balances(w, reimp)
			co := st.run(orig)
			cn := st.run(reimp)
			tr.p("cont %d %s %s %d %s %s %d %d %d %d", i, st.name, st.depMod, st.depByte, co, cn, st.id(orig), st.id(reimp),
				c20BalDelta(bo, c20Balances(w, orig)), c20BalDelta(bn, c20Balances(w, reimp)))
		}
		c20RunRandom(w, sc, plan, nRand, orig, reimp, tr, len(fixedSteps))
	}
}
