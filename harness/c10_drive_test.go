//go:build verif

package verifharness

// C10: the part of the generation-2 workloads that is the same for every initiator type (TestC10: vault and
// external positions; TestC10Lend: lend borrows): the observation after every step, market bids, limit-bid
// deposits and block ticks (the real auctionsV2.BeginBlocker: price update, then the automatic fill).

import (
	"fmt"
	"sort"
	"strings"
	"testing"

	sdk "github.com/cosmos/cosmos-sdk/types"

	chain "github.com/comdex-official/comdex/app"
	"github.com/comdex-official/comdex/x/auctionsV2"
	auctypes "github.com/comdex-official/comdex/x/auctionsV2/types"
	liqtypes "github.com/comdex-official/comdex/x/liquidationsV2/types"
)

type c10LimKey struct {
	prem int64
	who  int
}

type c10Run struct {
	t                     *testing.T
	a                     *chain.App
	ctx                   sdk.Context
	tr                    *tracer
	p                     c10Params
	app, assetC, assetD   uint64
	denomC, denomD        string
	bidders, owners       []sdk.AccAddress
	liquidator, initiator sdk.AccAddress
	pools                 []sdk.AccAddress // accounts whose debt-denom balances are observed as the lending pool (lend auctions)
	supply0               sdk.Int
	bidderIdx             map[string]int
	limKeys               []c10LimKey
	limSeen               map[c10LimKey]bool
	lastBidID             uint64
	now                   int64
	twaC, twaDcur         uint64
	actC, actD            bool
	debug                 bool
}

// prints the case header and the bidders' store order; call once the positions exist
func (e *c10Run) begin(ci int) {
	p := e.p
	e.tr.p("case %d %s %s %d %d %s %d %d", ci, p.premium.BigInt(), p.disc.BigInt(), p.dur, p.minUsd, p.ki.BigInt(), p.dc, p.dd)
	// the order in which GetUserLimitBidDataByPremium lists the bidders: by the address string in the store key
	border := []int{0, 1, 2}
	sort.Slice(border, func(i, j int) bool { return e.bidders[border[i]].String() < e.bidders[border[j]].String() })
	e.tr.p("order %d %d %d", border[0], border[1], border[2])
	e.bidderIdx = map[string]int{}
	for i, b := range e.bidders {
		e.bidderIdx[b.String()] = i
	}
	e.limSeen = map[c10LimKey]bool{}
	e.lastBidID = e.a.NewaucKeeper.GetUserBidID(e.ctx)
	e.supply0 = supply(e.a, e.ctx, e.denomD)
}

// the start op of an auction that the liquidation just created
func (e *c10Run) emitStart(aid uint64) {
	c := c10At(e.ctx, e.now)
	au, _ := e.a.NewaucKeeper.GetAuction(c, aid)
	lk, _ := e.a.NewliqKeeper.GetLockedVault(c, au.AppId, au.LockedVaultId)
	it := map[string]int{"vault": 0, "lend": 1, "external": 2}[lk.InitiatorType]
	// lend: the borrow carries a bridged (cross-pool) amount and its lend position was deleted at the seizure
	stuck := false
	if lk.InitiatorType == "lend" {
		if bp, found := e.a.LendKeeper.GetBorrow(c, lk.OriginalVaultId); found && bp.BridgedAssetAmount.Amount.IsPositive() {
			_, lfound := e.a.LendKeeper.GetLend(c, bp.LendingID)
			stuck = !lfound
		}
	}
	e.tr.p("op start %d %s %s %s %s %d %s %s %d %s %d %s %d ok %s", aid, lk.CollateralToken.Amount, lk.TargetDebt.Amount, lk.FeeToBeCollected,
		lk.BonusToBeGiven, it, b2s(lk.IsInternalKeeper), b2s(lk.IsDebtCmst), e.now, b2s(e.actC), e.twaC, b2s(e.actD), e.twaDcur, b2s(stuck))
}

func (e *c10Run) observe() {
	a, ctx, tr, f, now := e.a, e.ctx, e.tr, e, e.now
	owners, bidders, liquidator, initiator, null, supply0 := e.owners, e.bidders, e.liquidator, e.initiator, sdk.AccAddress{}, e.supply0
	limKeys, bidderIdx, lastBidID := e.limKeys, e.bidderIdx, e.lastBidID
	c := c10At(ctx, now)
	ownC := sdk.ZeroInt()
	for _, o := range owners {
		ownC = ownC.Add(bal(a, c, o, f.denomC))
	}
	rs, rfound := a.NewliqKeeper.GetAppReserveFunds(c, f.app, f.assetD)
	rsAmt := sdk.ZeroInt()
	if rfound {
		rsAmt = rs.TokenQuantity.Amount
	}
	xf, xfound := a.NewaucKeeper.GetAuctionLimitBidFeeDataExternal(c, f.assetD)
	xfAmt := sdk.ZeroInt()
	if xfound {
		xfAmt = xf.Amount
	}
	var sb strings.Builder
	for _, b := range bidders {
		fmt.Fprintf(&sb, " %s %s", bal(a, c, b, f.denomC), bal(a, c, b, f.denomD))
	}
	// the limit-bid pool of the market and the collector's net-fee book of (app, debt asset)
	pd, pfound := a.NewaucKeeper.GetLimitBidProtocolDataByAssetID(c, f.assetD, f.assetC)
	pool := sdk.ZeroInt()
	if pfound {
		pool = pd.BidValue
	}
	nfd, nffound := a.CollectorKeeper.GetNetFeeCollectedData(c, f.app, f.assetD)
	nf := sdk.ZeroInt()
	if nffound {
		nf = nfd.NetFeesCollected
	}
	poolD := sdk.ZeroInt()
	for _, pa := range e.pools {
		poolD = poolD.Add(bal(a, c, pa, f.denomD))
	}
	tr.p("L %s %s %s %s %s %s %s %s %s %s%s %s %s %s %s %s %s %s",
		bal(a, c, modAddr(auctypes.ModuleName), f.denomC), bal(a, c, modAddr(auctypes.ModuleName), f.denomD), ownC,
		bal(a, c, modAddr("collectorV1"), f.denomD), bal(a, c, liquidator, f.denomD), bal(a, c, initiator, f.denomD),
		bal(a, c, null, f.denomD), bal(a, c, modAddr(liqtypes.ModuleName), f.denomD), supply0.Sub(supply(a, c, f.denomD)), poolD,
		sb.String(), b2s(rfound), rsAmt, xfAmt, b2s(pfound), pool, b2s(nffound), nf)
	// the limit bids of the market (every key ever deposited to)
	for _, k := range limKeys {
		if rec, found := a.NewaucKeeper.GetUserLimitBidData(c, f.assetD, f.assetC, sdk.NewInt(k.prem), bidders[k.who].String()); found {
			tr.p("R %d %d %s", k.prem, k.who, rec.DebtToken.Amount)
		}
	}
	// the user bids created since the last observation (market bids and the automatic bids of fills)
	for id := lastBidID + 1; id <= a.NewaucKeeper.GetUserBidID(c); id++ {
		if ub, err := a.NewaucKeeper.GetUserBid(c, id); err == nil {
			w, known := bidderIdx[ub.BidderAddress]
			if !known {
				w = 99
			}
			tr.p("U %d %d %d %s %s", id, ub.AuctionId, w, ub.DebtTokenAmount.Amount, ub.CollateralTokenAmount.Amount)
		}
	}
	lastBidID = a.NewaucKeeper.GetUserBidID(c)
	for _, au := range a.NewaucKeeper.GetAuctions(c) {
		tr.p("A %d %s %s %s %s %s %s %s %d %d", au.AuctionId, au.CollateralToken.Amount, au.DebtToken.Amount, au.BonusAmount,
			au.CollateralTokenAuctionPrice.BigInt(), au.CollateralTokenInitialPrice.BigInt(), au.CollateralTokenOraclePrice.BigInt(),
			au.DebtTokenOraclePrice.BigInt(), c10Unix(au.StartTime), c10Unix(au.EndTime))
	}
	tr.p("E")
	e.lastBidID = lastBidID
}

// a market bid (MsgPlaceMarketBid)
func (e *c10Run) bid(o c10PlanOp) {
	a, tr, f, p, bidders, debug := e.a, e.tr, e, e.p, e.bidders, e.debug
	c := c10At(e.ctx, e.now)
	observe := e.observe
	aus := a.NewaucKeeper.GetAuctions(c)
	var aid uint64 = 77
	remaining := sdk.NewInt(1000000)
	var target *auctypes.Auction
	if len(aus) > 0 {
		target = &aus[o.f2%len(aus)]
		aid = target.AuctionId
		remaining = target.DebtToken.Amount
	}
	var amt sdk.Int
	denom := f.denomD
	switch o.class {
	case 0:
		amt = sdk.NewInt(1)
	case 1:
		amt = sdk.NewInt(int64(o.f2))
	case 2, 3, 4:
		amt = remaining.MulRaw(int64(o.f1)).QuoRaw(100)
	case 5:
		amt = remaining
	case 6:
		amt = remaining.SubRaw(1)
	case 7:
		amt = remaining.AddRaw(1)
	case 8:
		amt = remaining.MulRaw(3)
	case 9: // leaves dust
		amt = remaining.Sub(sdk.NewInt(p.dd).MulRaw(int64(o.f1)).QuoRaw(1000))
	case 10:
		amt = remaining.MulRaw(int64(o.f1)).QuoRaw(100)
		if o.f1%5 == 0 {
			denom = f.denomC
		} else if o.f1%5 == 1 {
			amt = sdk.ZeroInt()
		}
	default:
		amt = remaining.MulRaw(int64(o.f1)).QuoRaw(200)
	}
	if amt.IsNegative() {
		amt = sdk.NewInt(1)
	}
	if o.lit {
		amt, denom = sdk.NewInt(o.v1), f.denomD
	}
	msg := &auctypes.MsgPlaceMarketBidRequest{AuctionId: aid, Bidder: bidders[o.who].String(), Amount: sdk.Coin{Denom: denom, Amount: amt}}
	class, berr, _ := execMsg(a, c, msg)
	if debug && berr != nil {
		tr.p("# %s", strings.ReplaceAll(berr.Error(), "\n", " "))
	}
	tw, twFound := a.MarketKeeper.GetTwa(c, f.assetD)
	tr.p("op bid %d %d %s %s %d %s %s", aid, o.who, amt, b2s(denom != f.denomD), tw.Twa, b2s(twFound && tw.IsPriceActive), class)
	observe()
}

// a limit bid of the market through MsgDepositLimitBid
func (e *c10Run) deposit(o c10PlanOp) {
	a, tr, f, bidders, debug := e.a, e.tr, e, e.bidders, e.debug
	c := c10At(e.ctx, e.now)
	observe := e.observe
	// a limit bid of the market through MsgDepositLimitBid
	aus := a.NewaucKeeper.GetAuctions(c)
	remaining := sdk.NewInt(1000000)
	cur := int64(5)
	if len(aus) > 0 {
		au := aus[o.f2%len(aus)]
		remaining = au.DebtToken.Amount
		cur = 0
		if pr, ok := c10Discount(au); ok {
			cur = pr.Int64()
		}
	}
	var prem int64
	switch o.class {
	case 0, 1, 2: // a little above the current discount: met by a later block
		prem = cur + int64(1+o.f2%3)
	case 3, 4:
		prem = int64(o.f2 % 17)
	case 5:
		prem = cur // met by the next block if the discount is still the same whole percent
	case 6:
		prem = cur + int64(o.f1%9)
	default:
		prem = 31 // above MaxPremiumDiscount
	}
	var amt sdk.Int
	denom := f.denomD
	switch o.f1 % 10 {
	case 0:
		amt = sdk.NewInt(1)
	case 1:
		amt = sdk.NewInt(int64(o.f2))
	case 2, 3:
		amt = remaining.MulRaw(int64(o.f1)).QuoRaw(100)
	case 4:
		amt = remaining
	case 5:
		amt = remaining.AddRaw(1)
	case 6:
		amt = remaining.MulRaw(3)
	case 7:
		amt = remaining.SubRaw(1)
	case 8:
		amt = remaining.MulRaw(int64(o.f1)).QuoRaw(300)
	default:
		amt = remaining.QuoRaw(2)
		if o.f2%3 == 0 {
			denom = f.denomC
		} else if o.f2%3 == 1 {
			amt = sdk.ZeroInt()
		}
	}
	if amt.IsNegative() {
		amt = sdk.NewInt(1)
	}
	if o.lit {
		prem, amt, denom = o.v1, sdk.NewInt(o.v2), f.denomD
	}
	k := c10LimKey{prem, o.who}
	if !e.limSeen[k] && prem >= 0 {
		e.limSeen[k] = true
		e.limKeys = append(e.limKeys, k)
	}
	msg := &auctypes.MsgDepositLimitBidRequest{CollateralTokenId: f.assetC, DebtTokenId: f.assetD, PremiumDiscount: sdk.NewInt(prem),
		Bidder: bidders[o.who].String(), Amount: sdk.Coin{Denom: denom, Amount: amt}}
	class, derr, _ := execMsg(a, c, msg)
	if debug && derr != nil {
		tr.p("# %s", strings.ReplaceAll(derr.Error(), "\n", " "))
	}
	tr.p("op dep %d %d %s %s %s", o.who, prem, amt, b2s(denom != f.denomD), class)
	observe()
}

// time advances, prices may change, then the auctionsV2 BeginBlocker runs
func (e *c10Run) tick(o c10PlanOp) {
	a, ctx, tr, f, p := e.a, e.ctx, e.tr, e, e.p
	c := c10At(e.ctx, e.now)
	observe := e.observe
	now, twaC, twaDcur, actC, actD := e.now, e.twaC, e.twaDcur, e.actC, e.actD
	limKeys := e.limKeys
	sync := func() { e.now, e.twaC, e.twaDcur, e.actC, e.actD = now, twaC, twaDcur, actC, actD }
	// time advances, prices may change, then the auctionsV2 BeginBlocker runs
	var dt int64
	switch {
	case o.lit:
		dt = o.v1
	default:
		switch o.dtClass {
		case 0:
			dt = 0
		case 1:
			dt = 1
		case 2:
			dt = 5
		case 3:
			dt = int64(p.dur) / 4
		case 4:
			dt = int64(p.dur) / 2
		case 5, 6: // exactly to the end time of the oldest live auction (t = D), or one past it
			aus := a.NewaucKeeper.GetAuctions(c)
			if len(aus) > 0 {
				dt = c10Unix(aus[0].EndTime) - now
				if o.dtClass == 6 {
					dt++
				}
				if dt < 0 {
					dt = 0
				}
			}
		case 7:
			dt = 2*int64(p.dur) + 1
		case 9, 10, 11, 12:
			// the next instant at which a live auction's discount meets a limit bid, searched on throw-away
			// contexts with the real price update; the oracle prices stay as they are for this tick
			dt = int64(1 + o.f1%7)
			aus := a.NewaucKeeper.GetAuctions(c)
			if len(aus) > 0 && len(limKeys) > 0 {
				step := int64(p.dur) / 120
				if step < 1 {
					step = 1
				}
				last := c10Unix(aus[0].EndTime)
			search:
				for t, n := now+1, 0; t <= last && n < 130; t, n = t+step, n+1 {
					cc, _ := c10At(ctx, t).CacheContext()
					if pn, _ := safely(func() { _ = a.NewaucKeeper.AuctionIterator(cc) }); pn {
						continue
					}
					for _, au := range a.NewaucKeeper.GetAuctions(cc) {
						if pr, ok := c10Discount(au); ok {
							if _, found := a.NewaucKeeper.GetUserLimitBidDataByPremium(cc, f.assetD, f.assetC, pr); found {
								dt = t - now
								break search
							}
						}
					}
				}
			}
		default:
			dt = int64(1 + o.f1%7)
		}
	}
	now += dt
	switch {
	case o.lit || (o.dtClass >= 9 && o.dtClass <= 12):
	case o.priceClass == 0:
		actC = !actC
	case o.priceClass == 1:
		actD = !actD
	case o.priceClass <= 4:
		twaC = twaC * uint64(o.f1) / 100
		if twaC == 0 {
			twaC = 1
		}
	case o.priceClass == 5:
		twaDcur = twaDcur * uint64(o.f1) / 100
		if twaDcur == 0 {
			twaDcur = 1
		}
	case o.priceClass <= 7:
		actC, actD = true, true
	}
	c = c10At(ctx, now)
	setPrice(a, c, f.assetC, twaC, actC)
	setPrice(a, c, f.assetD, twaDcur, actD)
	// the prices this block posts, read off a throw-away run of the price update alone (the fills of
	// the block happen at these prices; a closed auction's record is gone afterwards)
	var posted []auctypes.Auction
	{
		cc, _ := c.CacheContext()
		safely(func() { _ = a.NewaucKeeper.AuctionIterator(cc) })
		posted = a.NewaucKeeper.GetAuctions(cc)
	}
	pn, _ := safely(func() { auctionsV2.BeginBlocker(c, a.NewaucKeeper) })
	class := "ok"
	if pn {
		class = "panic"
	}
	tr.p("op tick %d %s %d %s %d %s", now, b2s(actC), twaC, b2s(actD), twaDcur, class)
	for _, au := range posted {
		tr.p("P %d %s %s", au.AuctionId, au.CollateralTokenAuctionPrice.BigInt(), au.CollateralTokenOraclePrice.BigInt())
	}
	sync()
	observe()
}
