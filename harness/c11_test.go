//go:build verif

package verifharness

import (
	"fmt"
	"strings"
	"testing"

	sdk "github.com/cosmos/cosmos-sdk/types"

	auctiontypes "github.com/comdex-official/comdex/x/auction/types"
	"github.com/comdex-official/comdex/x/auctionsV2"
	auctionsV2types "github.com/comdex-official/comdex/x/auctionsV2/types"
	esmtypes "github.com/comdex-official/comdex/x/esm/types"
)

// TestC11 drives the REAL keepers: generation 1 surplus / debt auctions (x/auction, through its msg
// server and BeginBlocker) and generation 2 english auctions + limit bids (x/auctionsV2, through its
// msg server and BeginBlocker), and dumps after every step all bidder balances, the module
// balances, the auction record, the limit-bid records and the protocol totals.  Limit-bid cases
// can run Dutch auctions next to the book: the auctionsV2 BeginBlocker then fills limit bids
// automatically (LimitOrderBid); one "op fill" line per auction closure, then "op block".
//
// denom ids in the trace: 0 = uharbor, 1 = ucmst, 2 = uoth.  bidders are 0..nb-1.
//
// Emergency shutdown: in 40% of the generation-1 cases (and 10% of the generation-2 ones, whose english
// hook does not read it) the app's ESM status is switched on (EsmKeeper.SetESMStatus) before one of the
// ops 0, 1, 2, 3, 5, 8 (in 65% of these cases not before there is a standing bid, waiting at most 12 more
// ops for one) - so with and without a standing bid - and stays on; from then on the block hooks
// are emitted as "op esm" (the model's TickEsm).  In 60% of these cases the hook runs at once, in the
// others the ordinary flow goes on (a bid can land between the switch and the hook).  In 10% of the
// generation-1 cases the kill switch (BreakerEnable) is on from the start: the closes do not read it.

type c11EngObs struct {
	found                       bool
	sell, buy                   sdk.Int
	bidder, nbids, status       int
	bidEnd, end                 int64
	nactive                     int // generation 1: user-bidding records of the auction in the ACTIVE store; -1 = not projected
}

const c11T0 = int64(1700000000)

func TestC11(t *testing.T) {
	f := c11NewFixture(t)
	tr := newTracer(t, "c11.trace")
	defer tr.close()
	master := newRng(seed())
	ncases := envInt("VERIF_CASES", 120)
	only := envInt("VERIF_CASE", -1)
	// corpus: minimised regression inputs of repaired defects and the automatic-fill scenarios always run first (case ids 0..7)
	for ci := 0; ci < c11NCorpus; ci++ {
		if only < 0 || only == ci {
			c11LimitCorpus(t, f, tr, ci)
		}
	}
	for ci := c11NCorpus; ci < ncases+c11NCorpus; ci++ {
		cs := master.next() // one draw per case: VERIF_CASE replays exactly
		if only >= 0 && ci != only {
			continue
		}
		r := newRng(cs)
		switch (ci - c11NCorpus) % 8 {
		case 0, 5:
			c11LimitCase(t, f, tr, r, ci)
		case 1:
			c11EngCase(t, f, tr, r, ci, "V2S")
		case 2:
			c11EngCase(t, f, tr, r, ci, "V2D")
		case 3:
			c11EngCase(t, f, tr, r, ci, "V2X")
		case 4:
			c11EngCase(t, f, tr, r, ci, "V1S")
		case 6:
			c11EngCase(t, f, tr, r, ci, "V1D")
		case 7:
			c11EngCase(t, f, tr, r, ci, []string{"V2S", "V2D", "V2X", "V1S", "V1D"}[r.intn(5)])
		}
	}
}

func c11Idx(f *c11Fix, addr string) int {
	for i, b := range f.bidders {
		if b.String() == addr {
			return i
		}
	}
	return -1
}

// ------------------------------------------------------------------------------------------------
func c11EngCase(t *testing.T, f *c11Fix, tr *tracer, r *rng, ci int, variant string) {
	a := f.a
	ctx, _ := f.base.CacheContext()
	now := c11T0
	ctx = c11At(ctx, now)
	nb := 2 + r.intn(4)
	factors := []string{"0", "0.01", "0.1", "0.000001", "1.0", "0.333333333333333333", "0.05"}
	factor := sdk.MustNewDecFromStr(factors[r.intn(len(factors))])
	dur := uint64(r.pickI(100, 300, 3600))
	bidDur := uint64(r.pickI(50, 300, 400))
	lot := sdk.NewInt(r.pickI(1, 1000, 200000, 1000000000))
	debtLot := sdk.NewInt(r.pickI(1, 10, 2000000, 777))
	startBuy := sdk.NewInt(r.pickI(1, 1000, 150000))
	rev := variant == "V1D" || variant == "V2D"
	v1 := variant[:2] == "V1"
	bidDenom, lotDenom := 0, 1
	if rev {
		bidDenom, lotDenom = 1, 0
	}
	// funding: some bidders rich, some poor
	for i := 0; i < nb; i++ {
		amt := r.pickI(1000000000000, 1000000000000, 1000000000000, 1000000000000, 1000000000000, 300000, 5000, 0)
		if amt > 0 {
			fund(t, a, ctx, f.bidders[i], sdk.NewCoins(sdk.NewCoin(f.c11Denom(bidDenom), sdk.NewInt(amt))))
		}
		fund(t, a, ctx, f.bidders[i], sdk.NewCoins(sdk.NewCoin(c11Oth, sdk.NewInt(1000000))))
		if r.chance(30) {
			fund(t, a, ctx, f.bidders[i], sdk.NewCoins(sdk.NewCoin(f.c11Denom(lotDenom), sdk.NewInt(r.pickI(5, 100000)))))
		}
	}
	// emergency shutdown / kill switch (drawn for every case: the PRNG stream does not depend on the variant)
	esmCase := r.chance(40)
	if !v1 {
		esmCase = esmCase && r.chance(25)
	}
	esmAt := int(r.pickI(0, 1, 2, 3, 5, 8))
	esmHookAtOnce := r.chance(60)
	esmWantBid := r.chance(65) // wait (at most 12 more ops) for a standing bid before the switch
	breaker := r.chance(10) && v1
	esmOn := false
	collFunded := !r.chance(12) // V2S: the lot is still where the start put it (or not: the close then fails)
	tmStarve := r.chance(10)     // tokenmint supply too small for the burn: the close fails
	f.c11Collector(t, ctx, !rev, lot, debtLot, factor)
	f.c11V1Params(ctx, dur, bidDur)
	f.c11V2Params(ctx, dur, factor, sdk.ZeroDec(), sdk.ZeroDec())

	var sell0, buy0 sdk.Int
	var auctionID, mappingID uint64
	modName := auctionsV2types.ModuleName
	if v1 {
		modName = auctiontypes.ModuleName
	}
	switch variant {
	case "V1S":
		// net fees = threshold + lot: exactly one auction starts; the collector holds the lot
		f.c11FundModule(t, ctx, "collectorV1", sdk.NewCoin(c11Cmst, lot.Add(sdk.NewInt(5000))))
		if err := a.CollectorKeeper.SetNetFeeCollectedData(ctx, f.app, f.cmst, lot.Add(sdk.NewInt(1000))); err != nil {
			t.Fatal(err)
		}
		f.c11V1BeginBlock(ctx)
		as := a.AuctionKeeper.GetSurplusAuctions(ctx, f.app)
		if len(as) != 1 {
			t.Fatalf("V1S: %d surplus auctions started", len(as))
		}
		auctionID, mappingID = as[0].AuctionId, as[0].AuctionMappingId
		sell0, buy0 = as[0].SellToken.Amount, as[0].Bid.Amount
	case "V1D":
		if err := a.CollectorKeeper.SetNetFeeCollectedData(ctx, f.app, f.cmst, sdk.NewInt(1000)); err != nil {
			t.Fatal(err)
		}
		f.c11V1BeginBlock(ctx)
		as := a.AuctionKeeper.GetDebtAuctions(ctx, f.app)
		if len(as) != 1 {
			t.Fatalf("V1D: %d debt auctions started", len(as))
		}
		auctionID, mappingID = as[0].AuctionId, as[0].AuctionMappingId
		sell0, buy0 = as[0].ExpectedMintedToken.Amount, as[0].ExpectedUserToken.Amount
	case "V2S":
		// the REAL start: net fees >= surplus threshold + lot, the collector holds (at least) the lot;
		// liquidationsV2 CheckStatsForSurplusAndDebt -> collector.GetAmountFromCollector moves the lot
		// from the collector to the generation-1 auction module account (and lowers the net fees by it),
		// then creates the locked vault -> the english auction.  The close takes the lot from there.
		extra := sdk.NewInt(r.pickI(0, 7, 5000)).Add(lot.MulRaw(r.pickI(0, 0, 1, 2))) // what the collector holds beyond the lot
		f.c11FundModule(t, ctx, "collectorV1", sdk.NewCoin(c11Cmst, lot.Add(extra)))
		if err := a.CollectorKeeper.SetNetFeeCollectedData(ctx, f.app, f.cmst, lot.Add(sdk.NewInt(1000+r.pickI(0, 1, 5000)))); err != nil {
			t.Fatal(err)
		}
		if err := a.NewliqKeeper.CheckStatsForSurplusAndDebt(ctx, f.app, f.cmst); err != nil {
			t.Fatalf("V2S: CheckStatsForSurplusAndDebt: %v", err)
		}
		if got := a.BankKeeper.GetBalance(ctx, modAddr(auctiontypes.ModuleName), c11Cmst).Amount; !got.Equal(lot) {
			t.Fatalf("V2S: the start left %s in the generation-1 auction module account, lot %s", got, lot)
		}
		if !collFunded {
			// the lot source not funded: something else has taken (a part of) the lot out of the
			// generation-1 auction module account before the close (all of it / one coin)
			drain := lot
			if r.chance(50) {
				drain = sdk.OneInt()
			}
			if err := a.BankKeeper.SendCoinsFromModuleToAccount(ctx, auctiontypes.ModuleName, addrN(91), sdk.NewCoins(sdk.NewCoin(c11Cmst, drain))); err != nil {
				t.Fatalf("V2S: drain: %v", err)
			}
		}
		sell0, buy0 = lot, sdk.ZeroInt()
	case "V2D":
		// the REAL start: net fees <= debt threshold - lot (= 1000), debt auctions switched on
		if err := a.CollectorKeeper.SetNetFeeCollectedData(ctx, f.app, f.cmst, sdk.NewInt(r.pickI(0, 1, 1000))); err != nil {
			t.Fatal(err)
		}
		if err := a.NewliqKeeper.CheckStatsForSurplusAndDebt(ctx, f.app, f.cmst); err != nil {
			t.Fatalf("V2D: CheckStatsForSurplusAndDebt: %v", err)
		}
		sell0, buy0 = debtLot, lot
	case "V2X":
		f.c11FundModule(t, ctx, modName, sdk.NewCoin(c11Cmst, lot))
		coll, debt := sdk.NewCoin(c11Cmst, lot), sdk.NewCoin(c11Harbor, startBuy)
		if err := a.NewliqKeeper.CreateLockedVault(ctx, 0, 0, "", coll, debt, coll, debt, sdk.ZeroDec(), f.app, false, "", f.ext.String(), sdk.ZeroInt(), sdk.ZeroInt(), "external", false, false, f.cmst, f.harbor); err != nil {
			t.Fatal(err)
		}
		sell0, buy0 = lot, startBuy
	}
	if !v1 {
		as := a.NewaucKeeper.GetAuctions(ctx)
		if len(as) != 1 {
			t.Fatalf("%s: %d auctions", variant, len(as))
		}
		auctionID = as[0].AuctionId
	}
	if breaker {
		_ = a.EsmKeeper.SetKillSwitchData(ctx, esmtypes.KillSwitchParams{AppId: f.app, BreakerEnable: true})
	}
	if tmStarve {
		td, _ := a.TokenmintKeeper.GetAssetDataInTokenMintByApp(ctx, f.app, f.harbor)
		a.TokenmintKeeper.UpdateAssetDataInTokenMintByApp(ctx, f.app, f.harbor, false, td.CurrentSupply.Sub(sdk.NewInt(r.pickI(1, 1000, 250000))))
	}

	observe := func() c11EngObs {
		var o c11EngObs
		o.bidder = -1
		switch variant {
		case "V1S":
			au, err := a.AuctionKeeper.GetSurplusAuction(ctx, f.app, mappingID, auctionID)
			if err == nil {
				o = c11EngObs{true, au.SellToken.Amount, au.Bid.Amount, c11Idx(f, au.Bidder.String()), len(au.BiddingIds), int(au.AuctionStatus), au.BidEndTime.Unix(), au.EndTime.Unix(), 0}
				if au.Bidder == nil {
					o.bidder = -1
				}
			}
		case "V1D":
			au, err := a.AuctionKeeper.GetDebtAuction(ctx, f.app, mappingID, auctionID)
			if err == nil {
				o = c11EngObs{true, au.ExpectedMintedToken.Amount, au.ExpectedUserToken.Amount, c11Idx(f, au.Bidder.String()), len(au.BiddingIds), int(au.AuctionStatus), au.BidEndTime.Unix(), au.EndTime.Unix(), 0}
				if au.Bidder == nil {
					o.bidder = -1
				}
			}
		default:
			au, err := a.NewaucKeeper.GetAuction(ctx, auctionID)
			if err == nil {
				o = c11EngObs{true, au.CollateralToken.Amount, au.DebtToken.Amount, -1, len(au.BiddingIds), 0, au.EndTime.Unix(), au.EndTime.Unix(), -1}
				if au.ActiveBiddingId != 0 {
					o.status = 1
					if ub, err := a.NewaucKeeper.GetUserBid(ctx, au.ActiveBiddingId); err == nil {
						o.bidder = c11Idx(f, ub.BidderAddress)
					}
				}
			}
		}
		if !o.found {
			o.sell, o.buy = sdk.ZeroInt(), sdk.ZeroInt()
		}
		// generation 1: the user-bidding records of this auction that are still in the active store
		o.nactive = -1
		if v1 {
			o.nactive = 0
			for i := 0; i < nb; i++ {
				if variant == "V1S" {
					for _, ub := range a.AuctionKeeper.GetSurplusUserBiddings(ctx, f.bidders[i].String(), f.app) {
						if ub.AuctionId == auctionID {
							o.nactive++
						}
					}
				} else {
					for _, ub := range a.AuctionKeeper.GetDebtUserBiddings(ctx, f.bidders[i].String(), f.app) {
						if ub.AuctionId == auctionID {
							o.nactive++
						}
					}
				}
			}
		}
		var sb strings.Builder
		fmt.Fprintf(&sb, "obs %s %s %s %d %d %d %d %d %d", b2s(o.found), o.sell, o.buy, o.bidder, o.nbids, o.bidEnd, o.end, o.status, o.nactive)
		// MOD COLL EXT TM AUC1 (the generation-1 auction module account: the lot source of V2S; for V1S / V1D it is MOD itself)
		for _, acc := range []sdk.AccAddress{modAddr(modName), modAddr("collectorV1"), f.ext, modAddr("tokenmint"), modAddr(auctiontypes.ModuleName)} {
			fmt.Fprintf(&sb, " %s %s", bal(a, ctx, acc, f.c11Denom(bidDenom)), bal(a, ctx, acc, f.c11Denom(lotDenom)))
		}
		// NF: the collector's net-fee record of (app, cmst), under the denom id of cmst (1)
		nf := sdk.ZeroInt()
		if d, ok := a.CollectorKeeper.GetNetFeeCollectedData(ctx, f.app, f.cmst); ok {
			nf = d.NetFeesCollected
		}
		if bidDenom == 1 {
			fmt.Fprintf(&sb, " %s 0", nf)
		} else {
			fmt.Fprintf(&sb, " 0 %s", nf)
		}
		for i := 0; i < nb; i++ {
			fmt.Fprintf(&sb, " %s %s", bal(a, ctx, f.bidders[i], f.c11Denom(bidDenom)), bal(a, ctx, f.bidders[i], f.c11Denom(lotDenom)))
		}
		tr.p("%s", sb.String())
		return o
	}

	tr.p("case %d eng %s %d %d %d %s %s %d %s %d %d", ci, variant, nb, bidDenom, lotDenom, sell0, buy0, now, factor.BigInt(), dur, bidDur)
	o := observe()

	doTick := func() {
		ctx = c11At(ctx, now)
		amount := o.buy
		tmOk := f.c11TmOk(ctx, !rev, amount)
		res := "ok"
		if v1 {
			if f.c11V1BeginBlock(ctx) {
				res = "panic"
			}
		} else {
			if p, _ := safely(func() { auctionsV2.BeginBlocker(ctx, a.NewaucKeeper) }); p {
				res = "panic"
			}
		}
		if esmOn {
			tr.p("op esm %d %s %s", now, b2s(tmOk), res)
		} else {
			tr.p("op tick %d %s %s", now, b2s(tmOk), res)
		}
		o = observe()
	}

	nops := 8 + r.intn(22)
	closedOps := 0
	for k := 0; k < nops; k++ {
		// time: usually small steps, sometimes exactly onto / just past a deadline
		if !o.found {
			closedOps++
			if closedOps > 2 {
				break
			}
		}
		switch r.intn(24) {
		case 0:
			if o.found && o.end >= now {
				now = o.end
			}
		case 1:
			if o.found && o.end >= now {
				now = o.end + 1
			}
		case 2, 3:
			if o.found && o.bidEnd >= now && o.status == 1 {
				now = o.bidEnd + int64(r.intn(2))
			}
		case 4:
			if o.status == 0 {
				now += int64(dur) + int64(r.intn(2))
			}
		case 5, 6, 7:
			now += int64(r.pickI(0, 1, 10, int64(bidDur)-1, int64(bidDur)/2))
		default:
			now += int64(r.intn(12))
		}
		if esmCase && !esmOn && k >= esmAt && (!esmWantBid || o.status == 1 || k >= esmAt+12) {
			// the emergency shutdown of the app is triggered (it stays on)
			a.EsmKeeper.SetESMStatus(ctx, esmtypes.ESMStatus{AppId: f.app, Status: true})
			esmOn = true
			if esmHookAtOnce {
				doTick()
				continue
			}
		}
		if r.chance(15) {
			doTick()
			continue
		}
		if r.chance(70) {
			doTick() // the chain runs the block hook before the transactions of a block
		}
		// ---- a bid
		who := r.intn(nb)
		last := o.buy
		if rev {
			last = o.sell
		}
		c := factor.MulInt(last).Ceil().TruncateInt()
		var amt sdk.Int
		if !rev {
			thr := last.Add(c)
			if o.status == 0 {
				thr = last
			}
			switch r.intn(12) {
			case 0:
				amt = thr.Sub(sdk.NewInt(1))
			case 1:
				amt = last
			case 2:
				amt = last.Add(sdk.NewInt(1))
			case 3:
				amt = sdk.ZeroInt()
			case 4:
				amt = thr.Add(sdk.NewInt(int64(r.intn(100000))))
			case 5:
				amt = sdk.NewInt(2000000000000) // more than anybody has
			case 6:
				amt = last.Sub(sdk.NewInt(int64(1 + r.intn(50))))
			default:
				amt = thr // barely improving
			}
		} else {
			thr := last.Sub(c)
			if o.status == 0 {
				thr = last
			}
			switch r.intn(12) {
			case 0:
				amt = thr.Add(sdk.NewInt(1))
			case 1:
				amt = last
			case 2:
				amt = last.Sub(sdk.NewInt(1))
			case 3:
				amt = sdk.ZeroInt()
			case 4:
				amt = thr.Sub(sdk.NewInt(int64(r.intn(1000))))
			case 5:
				amt = sdk.NewInt(-5)
			case 6:
				amt = last.Add(sdk.NewInt(int64(1 + r.intn(50))))
			default:
				amt = thr
			}
		}
		denom := bidDenom
		if rev {
			denom = lotDenom
		}
		if r.chance(8) {
			denom = []int{0, 1, 2}[r.intn(3)]
		}
		xd, xa := bidDenom, o.buy
		if r.chance(12) {
			if r.chance(50) {
				xd = 2
			} else {
				xa = xa.Add(sdk.NewInt(r.pickI(-1, 1, 1000)))
			}
		}
		ctx = c11At(ctx, now)
		coin := sdk.Coin{Denom: f.c11Denom(denom), Amount: amt}
		var msg sdk.Msg
		switch variant {
		case "V1S":
			msg = &auctiontypes.MsgPlaceSurplusBidRequest{AuctionId: auctionID, Bidder: f.bidders[who].String(), Amount: coin, AppId: f.app, AuctionMappingId: mappingID}
		case "V1D":
			msg = &auctiontypes.MsgPlaceDebtBidRequest{AuctionId: auctionID, Bidder: f.bidders[who].String(), Bid: coin,
				ExpectedUserToken: sdk.Coin{Denom: f.c11Denom(xd), Amount: xa}, AppId: f.app, AuctionMappingId: mappingID}
		default:
			msg = &auctionsV2types.MsgPlaceMarketBidRequest{AuctionId: auctionID, Bidder: f.bidders[who].String(), Amount: coin}
		}
		cls, _, _ := execMsg(a, ctx, msg)
		tr.p("op bid %d %d %s %d %d %s %s", who, denom, amt, now, xd, xa, cls)
		o = observe()
	}
	// let the auction end (twice: a failed close is retried)
	for k := 0; k < 2; k++ {
		if o.found {
			now = o.end + 1 + int64(k)
			doTick()
		}
	}
}

