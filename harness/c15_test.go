//go:build verif

package verifharness

// C15 workload.
//  (i)  environment cases: every block hook of every DeFi module is called directly on prepared
//       states (vaults and borrows past their liquidation threshold, auctions running, a liquidity
//       batch with orders) under environment faults; a panic that leaves a hook is recorded.
//  (ii) crash-point enumeration: a probe multistore + gas meter numbers every store-gas
//       consumption of a hook run, attributes it to the ApplyFuncIfNoError instance it happens in
//       (each CacheMultiStore() call of the hook opens one), and re-runs the hook once per sampled
//       consumption k with a meter that panics exactly there.  Observation per (unit, k): did the
//       hook return, is the resulting state the state of "this unit contributed nothing" (= the
//       state after failing the unit at its first access) / the fault-free state / something else,
//       and were all the other units still started.
//  (iii) error injection (c15_err_test.go): reachable states in which a unit RETURNS AN ERROR after it
//       has written; the unit's ApplyFuncIfNoError instance must have contributed nothing, every other
//       unit everything.

import (
	"fmt"
	"os"
	"runtime"
	"runtime/debug"
	"strings"
	"testing"
	"time"

	abci "github.com/cometbft/cometbft/abci/types"
	storetypes "github.com/cosmos/cosmos-sdk/store/types"
	sdk "github.com/cosmos/cosmos-sdk/types"
	"github.com/cosmos/cosmos-sdk/x/params"
	paramproposal "github.com/cosmos/cosmos-sdk/x/params/types/proposal"

	chain "github.com/comdex-official/comdex/app"
	"github.com/comdex-official/comdex/app/wasm/bindings"
	"github.com/comdex-official/comdex/x/asset"
	"github.com/comdex-official/comdex/x/auction"
	"github.com/comdex-official/comdex/x/auctionsV2"
	"github.com/comdex-official/comdex/x/bandoracle"
	"github.com/comdex-official/comdex/x/esm"
	"github.com/comdex-official/comdex/x/lend"
	"github.com/comdex-official/comdex/x/liquidation"
	"github.com/comdex-official/comdex/x/liquidationsV2"
	lendtypes "github.com/comdex-official/comdex/x/lend/types"
	liqV1types "github.com/comdex-official/comdex/x/liquidation/types"
	liqV2types "github.com/comdex-official/comdex/x/liquidationsV2/types"
	"github.com/comdex-official/comdex/x/liquidity"
	"github.com/comdex-official/comdex/x/market"
	"github.com/comdex-official/comdex/x/rewards"
	vaulttypes "github.com/comdex-official/comdex/x/vault/types"
)

// ---------- the probe ----------
type c15Wrap struct {
	parent     int
	tag        string // function that called ApplyFuncIfNoError
	first, cnt int    // first consumption index inside, number of consumptions inside (own level)
	committed  bool
}

type c15Probe struct {
	n        int
	crashAt  int
	cur      int
	record   bool
	wraps    []c15Wrap // wrap id = index+1
	owner    []int     // per consumption (record mode): wrap id, 0 = outside every wrap
	rootTag  []string  // per consumption outside every wrap: marker of an unwrapped unit, or ""
	disabled bool
	// error cases (record mode): per marked function (suffix of its qualified name), the wrap
	// instances (0 = outside every wrap) in which it performed store accesses, in order of entry
	markers []string
	seen    map[string][]int
}

// which of the marked functions are on the stack
func (p *c15Probe) noteMarkers() {
	pcs := make([]uintptr, 64)
	n := runtime.Callers(3, pcs)
	fr := runtime.CallersFrames(pcs[:n])
	for {
		f, more := fr.Next()
		for _, m := range p.markers {
			if strings.HasSuffix(f.Function, m) {
				if l := p.seen[m]; len(l) == 0 || l[len(l)-1] != p.cur {
					p.seen[m] = append(l, p.cur)
				}
			}
		}
		if !more {
			break
		}
	}
}

type c15Inner = storetypes.CacheMultiStore

type c15MS struct {
	c15Inner
	p  *c15Probe
	id int
}

func (m *c15MS) CacheMultiStore() storetypes.CacheMultiStore {
	inner := m.c15Inner.CacheMultiStore()
	if m.p.disabled {
		return inner
	}
	m.p.wraps = append(m.p.wraps, c15Wrap{parent: m.id, tag: c15WrapCaller(), first: -1})
	return &c15MS{c15Inner: inner, p: m.p, id: len(m.p.wraps)}
}

func (m *c15MS) GetKVStore(k storetypes.StoreKey) storetypes.KVStore {
	m.p.cur = m.id
	return m.c15Inner.GetKVStore(k)
}

func (m *c15MS) Write() {
	if m.id > 0 && m.id <= len(m.p.wraps) {
		m.p.wraps[m.id-1].committed = true
	}
	m.c15Inner.Write()
}

// the function that called utils.ApplyFuncIfNoError (top of the stack downwards)
func c15WrapCaller() string {
	pcs := make([]uintptr, 48)
	n := runtime.Callers(2, pcs)
	fr := runtime.CallersFrames(pcs[:n])
	next := false
	for {
		f, more := fr.Next()
		if next {
			return c15Short(f.Function)
		}
		if strings.HasSuffix(f.Function, "comdex/types.ApplyFuncIfNoError") {
			next = true
		}
		if !more {
			break
		}
	}
	return "?"
}

func c15Short(fn string) string {
	if i := strings.Index(fn, "comdex/x/"); i >= 0 {
		fn = fn[i+len("comdex/x/"):]
	}
	return strings.TrimSuffix(fn, ".func1")
}

// per-item functions of the units: a consumption OUTSIDE every wrap with one of these on the stack
// belongs to that unit and is reported as unwrapped (the table must say the same); a panic that
// leaves a hook is attributed to the unit whose function is on the stack
var c15UnwrappedMarkers = map[string]string{
	"liquidationsV2/keeper.Keeper.LiquidateIndividualBorrow":   "v2.borrow",
	"liquidationsV2/keeper.Keeper.CheckStatsForSurplusAndDebt": "v2.surplusdebt",
	"liquidationsV2/keeper.Keeper.LiquidateIndividualVault":    "v2.vault",
	"auctionsV2/keeper.Keeper.UpdateDutchAuction":              "v2.auction",
	"liquidity/keeper.Keeper.ExecuteRequests":                  "liquidity.batch",
	"liquidity/keeper.Keeper.DeleteOutdatedRequests":           "liquidity.cleanup",
	"liquidation/keeper.Keeper.CreateLockedVault":              "v1.vault", // (the V2 keeper has a CreateLockedVault too)
	"auction/keeper.Keeper.SurplusActivator":                   "v1.surplus",
	"auction/keeper.Keeper.DebtActivator":                      "v1.debt",
}

// outermost marked function on the stack (a unit's per-item function calls helpers that may carry
// another unit's marker: the unit is the one that was entered first)
func c15RootMarker() string {
	pcs := make([]uintptr, 48)
	n := runtime.Callers(3, pcs)
	fr := runtime.CallersFrames(pcs[:n])
	found := ""
	for {
		f, more := fr.Next()
		for k, v := range c15UnwrappedMarkers {
			if strings.HasSuffix(f.Function, "comdex/x/"+k) {
				found = v
			}
		}
		if !more {
			break
		}
	}
	return found
}

// which unit of Model/Hooks.v a wrap instance is (by the function that opened it)
var c15UnitOfCaller = map[string]string{
	"liquidationsV2/keeper.Keeper.LiquidateVaults":     "v2.vault",
	"liquidationsV2/keeper.Keeper.LiquidateBorrows":    "v2.borrow", // wrapped per item since fix C09-F3 / C15-F1
	"liquidationsV2/keeper.Keeper.LiquidateForSurplusAndDebt": "v2.surplusdebt", // wrapped per (app, asset) once fix C15-F3 is applied
	"liquidation/keeper.Keeper.LiquidateVaults":        "v1.vault",
	"liquidation/keeper.Keeper.LiquidateBorrows":       "v1.borrow",
	"auction.BeginBlocker":                             "v1.surplus",
	"auction/keeper.Keeper.RestartDutchAuctions":       "v1.dutch",
	"auction/keeper.Keeper.RestartDutchLendAuctions":   "v1.lenddutch",
	"auctionsV2.BeginBlocker":                          "v2.auctions.hook",
	"auctionsV2/keeper.Keeper.AuctionIterator":         "v2.auction",
	"auctionsV2/keeper.Keeper.LimitOrderBid":           "v2.limitbid",
	"liquidity.BeginBlocker":                           "liquidity.cleanup",
	"liquidity.EndBlocker":                             "liquidity.batch",
	"rewards.BeginBlocker":                             "rewards.hook",
	"esm.BeginBlocker":                                 "esm.hook",
	"lend.BeginBlocker":                                "lend.hook",
	"asset.BeginBlocker":                               "asset.hook",
}

type c15Meter struct{ p *c15Probe }

func (g *c15Meter) GasConsumed() storetypes.Gas        { return 0 }
func (g *c15Meter) GasConsumedToLimit() storetypes.Gas { return 0 }
func (g *c15Meter) GasRemaining() storetypes.Gas       { return 1 << 62 }
func (g *c15Meter) Limit() storetypes.Gas              { return 0 }
func (g *c15Meter) RefundGas(storetypes.Gas, string)   {}
func (g *c15Meter) IsPastLimit() bool                  { return false }
func (g *c15Meter) IsOutOfGas() bool                   { return false }
func (g *c15Meter) String() string                     { return "c15Meter" }
func (g *c15Meter) ConsumeGas(_ storetypes.Gas, descriptor string) {
	p := g.p
	if p.disabled {
		return
	}
	idx := p.n
	p.n++
	if p.record {
		p.owner = append(p.owner, p.cur)
		tag := ""
		if p.cur == 0 {
			tag = c15RootMarker()
		} else {
			w := &p.wraps[p.cur-1]
			if w.first < 0 {
				w.first = idx
			}
			w.cnt++
		}
		p.rootTag = append(p.rootTag, tag)
		if len(p.markers) > 0 {
			p.noteMarkers()
		}
	}
	if idx == p.crashAt {
		panic(storetypes.ErrorOutOfGas{Descriptor: descriptor})
	}
}

// probed context on a private branch of base
func c15Probed(base sdk.Context, p *c15Probe) sdk.Context {
	cms := base.MultiStore().CacheMultiStore()
	return base.WithMultiStore(&c15MS{c15Inner: cms, p: p, id: 0}).WithGasMeter(&c15Meter{p: p})
}

// ---------- hooks ----------
type c15Hook struct {
	name string
	run  func(a *chain.App, ctx sdk.Context)
}

var c15Hooks = []c15Hook{
	{"market.BeginBlocker", func(a *chain.App, ctx sdk.Context) {
		market.BeginBlocker(ctx, abci.RequestBeginBlock{}, a.MarketKeeper, a.BandoracleKeeper, a.AssetKeeper)
	}},
	{"bandoracle.BeginBlocker", func(a *chain.App, ctx sdk.Context) { bandoracle.BeginBlocker(ctx, abci.RequestBeginBlock{}, a.BandoracleKeeper) }},
	{"asset.BeginBlocker", func(a *chain.App, ctx sdk.Context) { asset.BeginBlocker(ctx, abci.RequestBeginBlock{}, a.AssetKeeper) }},
	{"esm.BeginBlocker", func(a *chain.App, ctx sdk.Context) { esm.BeginBlocker(ctx, abci.RequestBeginBlock{}, a.EsmKeeper, a.AssetKeeper) }},
	{"lend.BeginBlocker", func(a *chain.App, ctx sdk.Context) { lend.BeginBlocker(ctx, abci.RequestBeginBlock{}, a.LendKeeper) }},
	{"rewards.BeginBlocker", func(a *chain.App, ctx sdk.Context) { rewards.BeginBlocker(ctx, abci.RequestBeginBlock{}, a.Rewardskeeper) }},
	{"liquidity.BeginBlocker", func(a *chain.App, ctx sdk.Context) { liquidity.BeginBlocker(ctx, a.LiquidityKeeper, a.AssetKeeper) }},
	{"liquidationsV2.BeginBlocker", func(a *chain.App, ctx sdk.Context) { liquidationsV2.BeginBlocker(ctx, abci.RequestBeginBlock{}, a.NewliqKeeper) }},
	{"auctionsV2.BeginBlocker", func(a *chain.App, ctx sdk.Context) { auctionsV2.BeginBlocker(ctx, a.NewaucKeeper) }},
	{"liquidity.EndBlocker", func(a *chain.App, ctx sdk.Context) { liquidity.EndBlocker(ctx, a.LiquidityKeeper, a.AssetKeeper) }},
	{"rewards.EndBlocker", func(a *chain.App, ctx sdk.Context) { rewards.EndBlocker(ctx, a.Rewardskeeper) }},
	// first generation (not wired into AppModule.BeginBlock on this tree, anchored by the property)
	{"liquidation.BeginBlocker", func(a *chain.App, ctx sdk.Context) { liquidation.BeginBlocker(ctx, abci.RequestBeginBlock{}, a.LiquidationKeeper) }},
	{"auction.BeginBlocker", func(a *chain.App, ctx sdk.Context) {
		auction.BeginBlocker(ctx, a.AuctionKeeper, a.AssetKeeper, a.CollectorKeeper, a.EsmKeeper)
	}},
}

func c15HookByName(n string) c15Hook {
	for _, h := range c15Hooks {
		if h.name == n {
			return h
		}
	}
	panic("no hook " + n)
}

// state names: the prepared state a hook is exercised on
//   p1    fixture + orders + price drop (vaults / borrows liquidatable)
//   p2    p1 after one liquidationsV2.BeginBlocker (V2 auctions running), 10 minutes later
//   p2e   p2 two hours later (V2 auctions past their end time: restart path)
//   p1v1  p1 after one first-generation liquidation.BeginBlocker (V1 dutch auctions running), later
//   p3    p1 after liquidity.EndBlocker at a batch height (requests to clean up)
//   p2s   p2 with a collector lookup table and a surplus-auction mapping for (vault app, debt asset)
type c15State struct {
	name string
	ctx  sdk.Context
}

func c15Height(ctx sdk.Context, h int64, dt time.Duration) sdk.Context {
	return ctx.WithBlockHeight(h).WithBlockTime(baseTime.Add(dt))
}

func c15BuildStates(t *testing.T, a *chain.App, base sdk.Context) (map[string]sdk.Context, *c15Env) {
	ctx, _ := base.CacheContext()
	ctx = c15Height(ctx, 10, 0)
	e := c15Fixture(t, a, ctx)
	for i, o := range []struct {
		buy   bool
		price string
		amt   int64
	}{{true, "1.01", 1000000}, {true, "1.01", 2000000}, {true, "1.01", 1500000}, {false, "0.99", 1200000}, {false, "0.99", 1700000}, {false, "1.00", 900000}} {
		e.order(t, a, ctx, addrN(110+i), o.buy, o.price, o.amt)
	}
	e.dropPrices(a, ctx)
	st := map[string]sdk.Context{}
	p1, _ := ctx.CacheContext()
	st["p1"] = c15Height(p1, 20, 60*time.Second)
	p2, _ := ctx.CacheContext()
	liquidationsV2.BeginBlocker(c15Height(p2, 20, 60*time.Second), abci.RequestBeginBlock{}, a.NewliqKeeper)
	st["p2"] = c15Height(p2, 40, 660*time.Second)
	p2e, _ := p2.CacheContext()
	st["p2e"] = c15Height(p2e, 400, 7800*time.Second)
	// p2 with the collector configured for the vault app (lookup table + surplus-auction mapping for
	// the debt asset, thresholds below the opening fees the two vault creations paid in): the
	// surplus / debt trigger of the V2 sweep (CheckStatsForSurplusAndDebt) has work to do
	p2s, _ := p2.CacheContext()
	c15CollectorSetup(t, a, p2s, e)
	st["p2s"] = c15Height(p2s, 40, 660*time.Second)
	pv, _ := ctx.CacheContext()
	liquidation.BeginBlocker(c15Height(pv, 20, 60*time.Second), abci.RequestBeginBlock{}, a.LiquidationKeeper)
	st["p1v1"] = c15Height(pv, 40, 120*time.Second)
	pve, _ := pv.CacheContext()
	st["p1v1e"] = c15Height(pve, 400, 7800*time.Second)
	p3, _ := ctx.CacheContext()
	liquidity.EndBlocker(c15Height(p3, 20, 60*time.Second), a.LiquidityKeeper, a.AssetKeeper)
	st["p3"] = c15Height(p3, 21, 66*time.Second)
	return st, e
}

// ---------- environment faults ----------
func c15ApplyFault(t *testing.T, a *chain.App, ctx sdk.Context, e *c15Env, fault string, r *rng) (detail string) {
	switch fault {
	case "none":
	case "inactive-prices":
		for _, id := range e.assets {
			tw, _ := a.MarketKeeper.GetTwa(ctx, id)
			tw.IsPriceActive = false
			a.MarketKeeper.SetTwa(ctx, tw)
		}
	case "zero-prices":
		for _, id := range e.assets {
			c15SetPrice(a, ctx, id, 0, true)
		}
	case "huge-prices":
		for _, id := range e.assets {
			c15SetPrice(a, ctx, id, ^uint64(0), true)
		}
	case "drained-modules":
		sink := addrN(999)
		for _, m := range []string{"vaultV1", "auctionV1", "auctionsV2", "liquidationV1", "liquidationsV2", "collectorV1", "liquidityV1", "rewardsV1", "lockerV1",
			"cmdx", "osmo", "lendV2", "esmV1"} {
			addr := modAddr(m)
			bals := a.BankKeeper.GetAllBalances(ctx, addr)
			if !bals.IsZero() {
				if err := a.BankKeeper.SendCoins(ctx, addr, sink, bals); err != nil {
					t.Logf("drain %s: %v", m, err)
				}
			}
		}
	case "deleted-params":
		key := a.GetKey("params")
		st := ctx.KVStore(key)
		var del [][]byte
		it := st.Iterator(nil, nil)
		for ; it.Valid(); it.Next() {
			k := string(it.Key())
			if strings.HasPrefix(k, "liquidationsV2/") || strings.HasPrefix(k, "liquidationV1/") || strings.HasPrefix(k, "liquidityV1/") ||
				strings.HasPrefix(k, "rewardsV1/") || strings.HasPrefix(k, "auctionsV2/") || strings.HasPrefix(k, "auctionV1/") {
				del = append(del, append([]byte{}, it.Key()...))
			}
		}
		it.Close()
		for _, k := range del {
			st.Delete(k)
		}
		detail = fmt.Sprintf("deleted=%d", len(del))
	case "counter-high":
		n := a.VaultKeeper.GetLengthOfVault(ctx)
		a.VaultKeeper.SetLengthOfVault(ctx, n+uint64(1+r.intn(200)))
	case "counter-high-1":
		a.VaultKeeper.SetLengthOfVault(ctx, a.VaultKeeper.GetLengthOfVault(ctx)+1)
	case "counter-low":
		n := a.VaultKeeper.GetLengthOfVault(ctx)
		if n > 0 {
			a.VaultKeeper.SetLengthOfVault(ctx, n-1)
		}
	case "batch-huge", "batch-over-int":
		// REACHABLE parameter fault.  New healthy vaults and a new borrow are created through the real
		// message handlers until the swept lists are longer than the stored offsets (every chain whose
		// list was swept completely has offset = length; the next creation makes offset < length),
		// then the liquidation batch size is set through the real parameter setter (what a
		// governance parameter change executes; validateLiquidationBatchSize accepts every v > 0):
		//   batch-huge      2^63-1: int(offset + batch) overflows for every stored offset >= 1
		//   batch-over-int  2^63 or 2^64-1: int(batch) is negative, the helper's batchSize < 0 branch
		grown := c15GrowSweptLists(t, a, ctx, e, 1+r.intn(2))
		b := uint64(1<<63 - 1)
		if fault == "batch-over-int" {
			b = []uint64{1 << 63, ^uint64(0)}[r.intn(2)]
		}
		// the handler a passed governance parameter-change proposal executes (it runs the module's
		// validateLiquidationBatchSize); the keeper's own setter is used only if that is refused
		gov := "gov:ok"
		for _, sub := range []string{liqV2types.ModuleName, liqV1types.ModuleName} {
			err := params.NewParamChangeProposalHandler(a.ParamsKeeper)(ctx, &paramproposal.ParameterChangeProposal{Title: "batch", Description: "batch",
				Changes: []paramproposal.ParamChange{{Subspace: sub, Key: "LiquidationBatchSize", Value: fmt.Sprintf("\"%d\"", b)}}})
			if err != nil {
				gov = "gov:refused"
			}
		}
		if gov != "gov:ok" {
			// refused: since fix C09-F4 the validation rejects sizes above MaxInt64, and the keeper's own setter
			// validates too (it panics on an invalid value and stores nothing): the stored size then stays
			safely(func() { a.NewliqKeeper.SetParams(ctx, liqV2types.Params{LiquidationBatchSize: b}) })
			safely(func() { a.LiquidationKeeper.SetParams(ctx, liqV1types.Params{LiquidationBatchSize: b}) })
		}
		detail = fmt.Sprintf("batch=%d %s grown=%s", b, gov, grown)
	case "english-off":
		// REACHABLE configuration fault: the app's liquidation whitelisting has English auctions
		// switched off (surplus / debt auctions are English auctions: CreateLockedVault refuses them)
		if w, found := a.NewliqKeeper.GetLiquidationWhiteListing(ctx, e.appHarbor); found {
			w.IsEnglishActivated = false
			a.NewliqKeeper.SetLiquidationWhiteListing(ctx, w)
		}
	case "batch-zero-liquidity":
		p, err := a.LiquidityKeeper.GetGenericParams(ctx, e.appSwap)
		if err == nil {
			p.BatchSize = 0
			a.LiquidityKeeper.SetGenericParams(ctx, p)
		}
	}
	return
}

var c15Faults = []string{"none", "inactive-prices", "zero-prices", "huge-prices", "drained-modules", "counter-high", "counter-high-1",
	"counter-low", "batch-zero-liquidity", "batch-huge", "batch-over-int", "english-off"}

// collector configuration for (vault app, debt asset uasset3), through the functions the wasm
// bindings call.  The net fees of that pair are the opening fees of the fixture's vault creations.
func c15CollectorSetup(t *testing.T, a *chain.App, ctx sdk.Context, e *c15Env) {
	a3, a4 := e.assets[2], e.assets[3]
	net, found := a.CollectorKeeper.GetNetFeeCollectedData(ctx, e.appHarbor, a3)
	if !found || !net.NetFeesCollected.IsPositive() {
		t.Fatalf("c15CollectorSetup: no net fees for app %d asset %d", e.appHarbor, a3)
	}
	lot := net.NetFeesCollected.QuoRaw(4)
	if err := a.CollectorKeeper.WasmSetCollectorLookupTable(ctx, &bindings.MsgSetCollectorLookupTable{AppID: e.appHarbor, CollectorAssetID: a3, SecondaryAssetID: a4,
		SurplusThreshold: net.NetFeesCollected.QuoRaw(2), DebtThreshold: sdk.NewInt(0), LockerSavingRate: c15Dec("0.1"), LotSize: lot,
		BidFactor: c15Dec("0.01"), DebtLotSize: sdk.NewInt(2000000)}); err != nil {
		t.Fatalf("collector lookup: %v", err)
	}
	if err := a.CollectorKeeper.WasmSetAuctionMappingForApp(ctx, &bindings.MsgSetAuctionMappingForApp{AppID: e.appHarbor, AssetIDs: a3, IsSurplusAuctions: true,
		IsDebtAuctions: false, IsDistributor: false, AssetOutOraclePrices: false, AssetOutPrices: 1000000}); err != nil {
		t.Fatalf("auction mapping: %v", err)
	}
}

// what the surplus / debt trigger unit of (vault app, debt asset) touches
type c15SurplusObs struct {
	coll, net sdk.Int
	locked    uint64
	auction   uint64
	active    bool
}

func c15ObserveSurplus(a *chain.App, ctx sdk.Context, e *c15Env) c15SurplusObs {
	o := c15SurplusObs{coll: a.BankKeeper.GetBalance(ctx, modAddr("collectorV1"), "uasset3").Amount, net: sdk.ZeroInt()}
	if n, found := a.CollectorKeeper.GetNetFeeCollectedData(ctx, e.appHarbor, e.assets[2]); found {
		o.net = n.NetFeesCollected
	}
	o.locked = a.NewliqKeeper.GetLockedVaultID(ctx)
	o.auction = a.NewaucKeeper.GetAuctionID(ctx)
	if m, found := a.CollectorKeeper.GetAuctionMappingForApp(ctx, e.appHarbor, e.assets[2]); found {
		o.active = m.IsAuctionActive
	}
	return o
}

// c15GrowSweptLists creates, through the message handlers, `extra` more vaults than the largest
// stored vault-sweep offset and one more borrow, so that 1 <= stored offset < length where a sweep
// has run before.  The new positions are healthy at the current prices.
func c15GrowSweptLists(t *testing.T, a *chain.App, ctx sdk.Context, e *c15Env, extra int) string {
	off := uint64(0)
	if oh, found := a.NewliqKeeper.GetLiquidationOffsetHolder(ctx, liqV2types.VaultLiquidationsOffsetPrefix, 0); found {
		off = oh.CurrentOffset
	}
	if oh, found := a.LiquidationKeeper.GetLiquidationOffsetHolder(ctx, e.appHarbor, liqV1types.VaultLiquidationsOffsetPrefix); found && oh.CurrentOffset > off {
		off = oh.CurrentOffset
	}
	made, class := 0, ""
	for i := 0; a.VaultKeeper.GetLengthOfVault(ctx) < off+uint64(extra) && i < 8; i++ {
		who := addrN(130 + i)
		fund(t, a, ctx, who, sdk.NewCoins(sdk.NewCoin("uasset2", sdk.NewInt(100000000))))
		class, _, _ = execMsg(a, ctx, &vaulttypes.MsgCreateRequest{From: who.String(), AppId: e.appHarbor, ExtendedPairVaultId: e.extPair,
			AmountIn: sdk.NewInt(4000000), AmountOut: sdk.NewInt(1000000)})
		if class == "ok" {
			made++
		}
	}
	bclass, _, _ := execMsg(a, ctx, lendtypes.NewMsgBorrow(e.user2.String(), 3, 1, false, sdk.NewCoin("ucasset1", sdk.NewInt(1000000000)), sdk.NewCoin("uasset2", sdk.NewInt(100000000))))
	return fmt.Sprintf("vaults+%d(%s),borrow:%s", made, class, bclass)
}

func TestC15(t *testing.T) {
	a, base := newApp(t)
	tr := newTracer(t, "c15.trace")
	defer tr.close()
	r := newRng(seed())
	only := envInt("VERIF_CASE", -1)
	thorough := strings.HasPrefix(strings.ToLower(c15Getenv("VERIF_TIER", "quick")), "t")
	stride := envInt("VERIF_STRIDE", 7)
	if thorough {
		stride = 1
	}
	states, env := c15BuildStates(t, a, base)
	ci := 0

	// ---- (i) environment cases: every hook on every prepared state under every fault ----
	stateNames := []string{"p1", "p2", "p2e", "p1v1", "p1v1e", "p3", "p2s"}
	for _, sn := range stateNames {
		for _, fault := range c15Faults {
			sub := newRng(r.next())
			if only >= 0 && only != ci {
				ci++
				continue
			}
			ctx, _ := states[sn].CacheContext()
			detail := c15ApplyFault(t, a, ctx, env, fault, sub)
			tr.p("case %d env %s %s %s", ci, sn, fault, detail)
			if strings.HasPrefix(fault, "counter-") {
				// the vault counter was set directly through the keeper: no wired code path produces
				// counter != number of open vaults, the state is UNREACHABLE.  The case only validates
				// the model of the slice expression (model predicts panic <=> implementation panicked)
				tr.p("fabricated counter")
			}
			for _, h := range c15Hooks {
				v1 := h.name == "liquidation.BeginBlocker" || h.name == "auction.BeginBlocker"
				if v1 && !strings.HasPrefix(sn, "p1v1") {
					continue // the two generations liquidate the same vaults: V1 hooks run on the V1 states only
				}
				hctx, write := ctx.CacheContext()
				c15SweepLines(tr, a, hctx, env, h.name)
				obs := h.name == "liquidationsV2.BeginBlocker" && strings.HasSuffix(sn, "s")
				var o0 c15SurplusObs
				if obs {
					o0 = c15ObserveSurplus(a, hctx, env)
					hctx = hctx.WithEventManager(sdk.NewEventManager())
				}
				d0 := storeDigest(a, hctx)
				panicked, msg, at := c15Safely(func() { h.run(a, hctx) })
				if obs && !panicked {
					// the unit's own projection: did the hook report the unit's failure (its error event) and
					// which of the unit's writes / coin movements are visible after the hook
					o1 := c15ObserveSurplus(a, hctx, env)
					failed := 0
					for _, ev := range hctx.EventManager().Events() {
						if ev.Type == liqV2types.EventTypeLiquidateErr {
							failed = 1
						}
					}
					act := 0
					if o1.active != o0.active {
						act = 1
					}
					tr.p("unitobs v2.surplusdebt %d %s %s %d %d %d", failed, o1.coll.Sub(o0.coll), o1.net.Sub(o0.net), int64(o1.locked)-int64(o0.locked),
						int64(o1.auction)-int64(o0.auction), act)
				}
				class := "ok"
				if panicked {
					class = "panic"
					msg = strings.Map(func(c rune) rune {
						if c == ' ' || c == '\n' || c == '\t' {
							return '_'
						}
						return c
					}, msg)
					if len(msg) > 90 {
						msg = msg[:90]
					}
				} else {
					write()
				}
				changed := "0"
				if !panicked && storeDigest(a, hctx) != d0 {
					changed = "1"
				}
				tr.p("hook %s %s %s %s %s", h.name, class, changed, at, msg)
			}
			ci++
		}
	}

	// ---- (i-b) histories of the unwrapped market hook (c15_market_test.go) ----
	c15MarketHistories(t, a, states["p1"], tr, r, &ci, only, thorough)

	// ---- (ii) crash-point enumeration ----
	targets := []struct{ hook, state string }{
		{"liquidationsV2.BeginBlocker", "p1"}, {"liquidationsV2.BeginBlocker", "p2s"}, {"auctionsV2.BeginBlocker", "p2"}, {"auctionsV2.BeginBlocker", "p2e"},
		{"liquidity.EndBlocker", "p1"}, {"liquidity.BeginBlocker", "p3"}, {"rewards.BeginBlocker", "p1"}, {"esm.BeginBlocker", "p1"},
		{"lend.BeginBlocker", "p1"}, {"liquidation.BeginBlocker", "p1"}, {"auction.BeginBlocker", "p1v1"}, {"auction.BeginBlocker", "p1v1e"},
	}
	for _, tg := range targets {
		sub := newRng(r.next())
		if only >= 0 && only != ci {
			ci++
			continue
		}
		h := c15HookByName(tg.hook)
		st := states[tg.state]
		// fault-free, recording
		p := &c15Probe{crashAt: -1, record: true}
		fctx := c15Probed(st, p)
		if panicked, msg := safely(func() { h.run(a, fctx) }); panicked {
			tr.p("case %d crash %s %s", ci, tg.hook, tg.state)
			tr.p("probe 0 0 panic %s", strings.ReplaceAll(msg, " ", "_"))
			ci++
			continue
		}
		p.disabled = true
		full := storeDigest(a, fctx)
		pre := storeDigest(a, st)
		m := p.n
		wraps := p.wraps
		owner := p.owner
		rootTag := p.rootTag
		tr.p("case %d crash %s %s", ci, tg.hook, tg.state)
		changed := 0
		if full != pre {
			changed = 1
		}
		tr.p("probe %d %d ok %d", m, len(wraps), changed)
		// descendants of a wrap that start after consumption k (they never start when the wrap dies at k)
		lostAfter := func(w, k int) int {
			c := 0
			for j := range wraps {
				x := j + 1
				for x != 0 && x != w {
					x = wraps[x-1].parent
				}
				if x == w && j+1 != w && (wraps[j].first < 0 || wraps[j].first > k) {
					// a descendant with no consumption cannot be placed: count it as lost only when it was opened after k
					c++
				}
			}
			return c
		}
		runCrash := func(k int) (returned bool, digest string, started int) {
			q := &c15Probe{crashAt: k}
			cctx := c15Probed(st, q)
			panicked, _ := safely(func() { h.run(a, cctx) })
			q.disabled = true
			return !panicked, storeDigest(a, cctx), len(q.wraps)
		}
		// reference "unit contributed nothing": the state after failing the unit at its first access
		noneRef := map[int]string{}
		// sample of crash points: per wrap instance first, last, every stride-th (offset seeded); per unwrapped unit marker likewise
		seen := map[int]bool{}
		var ks []int
		add := func(k int) {
			if k >= 0 && k < m && !seen[k] {
				seen[k] = true
				ks = append(ks, k)
			}
		}
		off := sub.intn(stride)
		lastOf := map[string]int{}
		for k := 0; k < m; k++ {
			key := ""
			if owner[k] > 0 {
				key = fmt.Sprintf("w%d", owner[k])
			} else if rootTag[k] != "" {
				key = "r" + rootTag[k]
			} else {
				continue
			}
			if _, ok := lastOf[key]; !ok {
				add(k)
			}
			lastOf[key] = k
			if (k+off)%stride == 0 {
				add(k)
			}
		}
		for _, k := range lastOf {
			add(k)
		}
		// ascending order
		for i := 1; i < len(ks); i++ {
			for j := i; j > 0 && ks[j] < ks[j-1]; j-- {
				ks[j], ks[j-1] = ks[j-1], ks[j]
			}
		}
		for _, k := range ks {
			w := owner[k]
			unit := rootTag[k]
			wrapped := 0
			if w > 0 {
				wrapped = 1
				tag := wraps[w-1].tag
				unit = c15UnitOfCaller[tag]
				if unit == "" {
					unit = "?" + tag
				}
			}
			returned, dg, started := runCrash(k)
			diff := 2
			others := 0
			if w > 0 {
				if _, ok := noneRef[w]; !ok {
					_, d0, _ := runCrash(wraps[w-1].first)
					noneRef[w] = d0
				}
				if dg == noneRef[w] {
					diff = 0
				} else if dg == full {
					diff = 1
				}
				if started == len(wraps)-lostAfter(w, k) {
					others = 1
				}
			} else {
				// an unwrapped unit: nothing is promised; the state is compared with before / fault-free
				if dg == pre {
					diff = 0
				} else if dg == full {
					diff = 1
				}
				if started == len(wraps) {
					others = 1
				}
			}
			tr.p("k %d %s %d %s %d %d w%d", k, unit, wrapped, b2s(returned), diff, others, w)
		}
		ci++
	}

	// ---- (iii) error injection: units that RETURN AN ERROR after they have written (c15_err_test.go) ----
	ci = c15RunErrorCases(t, a, tr, r, only, states, env, ci)
}

// what the slice expressions of the sweeps will see (inputs of Model/Sweep.v), one line per sweep of
// the hook in the order the hook runs them: capacity of the sliced list, the length the code passes
// as sliceLen, the stored offset, the stored batch size (uint64, before the code's int() conversion)
func c15SweepLines(tr *tracer, a *chain.App, hctx sdk.Context, env *c15Env, hook string) {
	switch hook {
	case "liquidationsV2.BeginBlocker":
		batch := a.NewliqKeeper.GetParams(hctx).LiquidationBatchSize
		vs := a.VaultKeeper.GetVaults(hctx)
		off := uint64(0)
		if oh, found := a.NewliqKeeper.GetLiquidationOffsetHolder(hctx, liqV2types.VaultLiquidationsOffsetPrefix, 0); found {
			off = oh.CurrentOffset
		}
		tr.p("sweep %s vaults %d %d %d %d", hook, cap(vs), a.VaultKeeper.GetLengthOfVault(hctx), off, batch)
		if bs, found := a.LendKeeper.GetBorrows(hctx); found {
			off = 0
			if oh, found := a.NewliqKeeper.GetLiquidationOffsetHolder(hctx, liqV2types.VaultLiquidationsOffsetPrefix, 1); found {
				off = oh.CurrentOffset
			}
			tr.p("sweep %s borrows %d %d %d %d", hook, cap(bs), len(bs), off, batch)
		}
	case "liquidation.BeginBlocker":
		batch := a.LiquidationKeeper.GetParams(hctx).LiquidationBatchSize
		vs := a.VaultKeeper.GetVaults(hctx)
		for _, app := range a.LiquidationKeeper.GetAppIdsForLiquidation(hctx) {
			off := uint64(0)
			if oh, found := a.LiquidationKeeper.GetLiquidationOffsetHolder(hctx, app, liqV1types.VaultLiquidationsOffsetPrefix); found {
				off = oh.CurrentOffset
			}
			tr.p("sweep %s vaults %d %d %d %d", hook, cap(vs), a.VaultKeeper.GetLengthOfVault(hctx), off, batch)
		}
		if bs, found := a.LendKeeper.GetBorrows(hctx); found {
			off := uint64(0)
			if oh, found := a.LiquidationKeeper.GetLiquidationOffsetHolder(hctx, lendtypes.AppID, liqV1types.VaultLiquidationsOffsetPrefix); found {
				off = oh.CurrentOffset
			}
			tr.p("sweep %s borrows %d %d %d %d", hook, cap(bs), len(bs), off, batch)
		}
	}
}

// c15Safely runs f; on a panic it also reports which unit's per-item function was on the stack
func c15Safely(f func()) (panicked bool, msg, at string) {
	at = "-"
	defer func() {
		if r := recover(); r != nil {
			panicked = true
			msg = fmt.Sprint(r)
			st := string(debug.Stack())
			last := -1
			for k, v := range c15UnwrappedMarkers {
				if i := strings.LastIndex(st, "comdex/x/"+k+"("); i > last {
					last, at = i, v
				}
			}
		}
	}()
	f()
	return false, "", "-"
}

func c15Getenv(k, def string) string {
	if v := os.Getenv(k); v != "" {
		return v
	}
	return def
}
