//go:build verif

package verifharness

import (
	"fmt"
	"math/big"
	"os"
	"testing"

	sdkmath "cosmossdk.io/math"
	sdk "github.com/cosmos/cosmos-sdk/types"

	"github.com/comdex-official/comdex/x/liquidity/amm"
	liqtypes "github.com/comdex-official/comdex/x/liquidity/types"
)

// C05 harness: drives the real matching engine (package x/liquidity/amm) through the entry points
// the keeper uses (keeper/swap.go:672 Match): OrderBook.Match(lastPrice) when the pair has a last
// price, FindMatchPrice + OrderBook.MatchAtSinglePrice when it has none; plus the exported
// DistributeOrderAmountToOrders / SortOrders at their own level.  Orders are the keeper's own
// order types (types.UserOrder / types.PoolOrder: batch ids, priority rules).
//
// trace, per case:
//   case <id> <kind> <n>
//   o <B|S> <price> <amt> <offer> <batch> <key>          n lines (fresh orders: open=amt, paid=recv=0)
//   op match <lastPrice> | op single <price> | op find <tickPrec> <found> <price> | op dist <amt> <price> <perm...>
//   res <ok|panic> <matched> <matchPrice> <quoteCoinDiff>
//   r <open> <paid> <recv> <isMatched>                    n lines (in the order of the o lines;
//                                                          for dist in the sorted order <perm>)

type c05Spec struct {
	buy    bool
	price  sdk.Dec
	amt    sdkmath.Int
	offer  sdkmath.Int
	batch  uint64
	pool   bool
	id     uint64 // order id or pool id
	origin string
}

var c05Two64 = new(big.Int).Lsh(big.NewInt(1), 64)

func (s c05Spec) key() *big.Int {
	k := new(big.Int).SetUint64(s.id)
	if s.pool {
		k.Add(k, c05Two64)
	}
	return k
}

func (s c05Spec) build() amm.Order {
	dir := amm.Sell
	if s.buy {
		dir = amm.Buy
	}
	if s.pool {
		return &liqtypes.PoolOrder{BaseOrder: amm.NewBaseOrder(dir, s.price, s.amt, s.offer), PoolID: s.id,
			OfferCoinDenom: "x", DemandCoinDenom: "y"}
	}
	return &liqtypes.UserOrder{BaseOrder: amm.NewBaseOrder(dir, s.price, s.amt, s.offer), OrderID: s.id, BatchID: s.batch,
		OfferCoinDenom: "x", DemandCoinDenom: "y"}
}

func c05SpecOfPoolOrder(o amm.Order) c05Spec {
	po := o.(*liqtypes.PoolOrder)
	return c05Spec{buy: po.Direction == amm.Buy, price: po.Price, amt: po.Amount, offer: po.OfferCoinAmount, batch: 0, pool: true, id: po.PoolID}
}

func c05Pow10(n int) sdkmath.Int { return sdkmath.NewIntWithDecimal(1, n) }

func c05RandAmt(r *rng, scale int) sdkmath.Int {
	a := c05RandAmt0(r, scale)
	if !a.IsPositive() {
		return sdkmath.OneInt()
	}
	return a
}

func c05RandAmt0(r *rng, scale int) sdkmath.Int {
	switch r.intn(10) {
	case 0, 1:
		return sdkmath.NewInt(int64(1 + r.intn(10)))
	case 2:
		return sdkmath.NewInt(r.pickI(99, 100, 101, 199, 200, 1000))
	case 3, 4:
		return sdkmath.NewInt(int64(1 + r.intn(300)))
	case 5:
		return c05Pow10(scale).AddRaw(int64(r.intn(3)) - 1)
	case 6:
		return sdkmath.NewIntFromUint64(r.next() % 1000000).Mul(c05Pow10(r.intn(scale + 1))).AddRaw(1)
	case 7:
		return c05Pow10(30).SubRaw(int64(r.intn(2)))
	default:
		return sdkmath.NewIntFromUint64(1 + r.next()%uint64(1+r.intn(1000000)))
	}
}

var c05BasePrices = []string{"0.01", "0.012345", "0.000001", "0.5", "1", "1.5", "0.9995", "12345", "1000000", "0.00033", "3.3333"}

// random book of nUser user orders on ticks around base
func c05RandBook(r *rng, base sdk.Dec, prec int, nUser int) []c05Spec {
	baseIdx := amm.TickToIndex(amm.PriceToDownTick(base, prec), prec)
	spread := 1 + r.intn(6)
	scale := r.intn(19)
	nb := 1 + r.intn(3)
	var specs []c05Spec
	for i := 0; i < nUser; i++ {
		var s c05Spec
		s.buy = r.chance(50)
		d := r.intn(2*spread+1) - spread
		idx := baseIdx + d
		if idx < 0 {
			idx = 0
		}
		s.price = amm.TickFromIndex(idx, prec)
		s.amt = c05RandAmt(r, scale)
		exact := amm.OfferCoinAmount(amm.Sell, s.price, s.amt)
		if s.buy {
			exact = amm.OfferCoinAmount(amm.Buy, s.price, s.amt)
		}
		switch r.intn(8) {
		case 0:
			s.offer = exact.AddRaw(1)
		case 1:
			s.offer = exact.MulRaw(2)
		case 2:
			if s.buy && exact.GT(sdkmath.OneInt()) { // a partially spent buy order: less offer coin than price*amt
				s.offer = exact.SubRaw(1)
			} else {
				s.offer = exact
			}
		case 3:
			if s.buy {
				s.offer = exact.QuoRaw(2)
			} else {
				s.offer = exact
			}
		default:
			s.offer = exact
		}
		s.batch = uint64(1 + r.intn(nb))
		if r.chance(10) {
			s.batch = 0
		}
		s.id = uint64(1 + r.intn(3*nUser+1)) // ids may collide: equal priority, stable order decides
		specs = append(specs, s)
	}
	return specs
}

type c05Pool struct {
	orderer         *liqtypes.PoolOrderer
	lowest, highest sdk.Dec
}

func c05RandPools(r *rng, base sdk.Dec, prec int) []c05Pool {
	var out []c05Pool
	np := 1 + r.intn(2)
	for pi := 0; pi < np; pi++ {
		ry := c05RandAmt(r, 12).AddRaw(1000)
		// pool price within +-5% of base
		f := sdk.NewDecWithPrec(int64(950+r.intn(101)), 3)
		rx := base.Mul(f).MulInt(ry).TruncateInt()
		if !rx.IsPositive() {
			rx = sdkmath.NewInt(int64(1 + r.intn(1000)))
		}
		var pool amm.Pool
		if r.chance(50) {
			bp, err := amm.CreateBasicPool(rx, ry)
			if err != nil {
				continue
			}
			pool = bp
		} else {
			pp := rx.ToLegacyDec().Quo(ry.ToLegacyDec())
			if !pp.IsPositive() {
				continue
			}
			minP := pp.Mul(sdk.NewDecWithPrec(int64(500+r.intn(450)), 3))
			maxP := pp.Mul(sdk.NewDecWithPrec(int64(1050+r.intn(1000)), 3))
			var rp *amm.RangedPool
			var err error
			if p, _ := safely(func() { rp, err = amm.CreateRangedPool(rx, ry, minP, maxP, pp) }); p || err != nil || rp == nil {
				continue
			}
			pool = rp
		}
		orderer := liqtypes.NewPoolOrderer(pool, uint64(pi+1), nil, "y", "x")
		lowest, highest := liqtypes.PriceLimits(base, sdk.NewDecWithPrec(int64(1+r.intn(10)), 2), prec)
		out = append(out, c05Pool{orderer, lowest, highest})
	}
	return out
}

// the pool orders the keeper adds before OrderBook.Match (keeper/swap.go:696-700)
func c05PoolOrders(pools []c05Pool, prec int) []c05Spec {
	var out []c05Spec
	for _, pl := range pools {
		var pos []amm.Order
		if p, _ := safely(func() { pos = amm.PoolOrders(pl.orderer, pl.orderer, pl.lowest, pl.highest, prec) }); p {
			continue
		}
		if len(pos) > 8 {
			// keep the orders nearest the pool price on each side (the generator places them first)
			var kept []amm.Order
			nbuy, nsell := 0, 0
			for _, o := range pos {
				if o.GetDirection() == amm.Buy && nbuy < 4 {
					kept = append(kept, o)
					nbuy++
				}
				if o.GetDirection() == amm.Sell && nsell < 4 {
					kept = append(kept, o)
					nsell++
				}
			}
			pos = kept
		}
		for _, o := range pos {
			out = append(out, c05SpecOfPoolOrder(o))
		}
	}
	return out
}

type c05Run struct {
	kind    string // match single find dist
	specs   []c05Spec
	price   sdk.Dec // last price / single price / dist price
	prec    int
	distAmt sdkmath.Int
	pools   []c05Pool // find: pool views join FindMatchPrice, pool orders are added at the match price
}

func c05Dump(tr *tracer, ci int, run c05Run) {
	orders := make([]amm.Order, len(run.specs))
	for i, s := range run.specs {
		orders[i] = s.build()
	}
	// no last price (keeper/swap.go:674-694): FindMatchPrice over the book view and the pool views, then
	// each pool places one buy and one sell order at the match price
	var findOb *amm.OrderBook
	var findPrice sdk.Dec
	findFound, findPanicked := false, false
	if run.kind == "find" {
		findPanicked, _ = safely(func() {
			findOb = amm.NewOrderBook(orders...)
			ov := amm.MultipleOrderViews{findOb.MakeView()}
			for _, pl := range run.pools {
				ov = append(ov, pl.orderer)
			}
			findPrice, findFound = amm.FindMatchPrice(ov, run.prec)
			if findFound {
				for _, pl := range run.pools {
					if buyAmt := pl.orderer.BuyAmountOver(findPrice, true); buyAmt.IsPositive() {
						o := pl.orderer.Order(amm.Buy, findPrice, buyAmt)
						findOb.AddOrder(o)
						orders = append(orders, o)
						run.specs = append(run.specs, c05SpecOfPoolOrder(o))
					}
					if sellAmt := pl.orderer.SellAmountUnder(findPrice, true); sellAmt.IsPositive() {
						o := pl.orderer.Order(amm.Sell, findPrice, sellAmt)
						findOb.AddOrder(o)
						orders = append(orders, o)
						run.specs = append(run.specs, c05SpecOfPoolOrder(o))
					}
				}
			}
		})
		if findPanicked { // a pool view panicked (not the matching engine): fall back to the plain book
			run.pools = nil
			orders = orders[:0]
			for _, s := range run.specs[:len(run.specs)] {
				orders = append(orders, s.build())
			}
			findFound = false
		}
	}
	tr.p("case %d %s %d", ci, run.kind, len(orders))
	for _, s := range run.specs {
		d := "S"
		if s.buy {
			d = "B"
		}
		tr.p("o %s %s %s %s %d %s", d, s.price.BigInt(), s.amt, s.offer, s.batch, s.key())
	}
	var matchPrice sdk.Dec
	var qcd sdkmath.Int
	matched := false
	out := orders
	var panicked bool
	switch run.kind {
	case "match":
		tr.p("op match %s", run.price.BigInt())
		panicked, _ = safely(func() {
			ob := amm.NewOrderBook(orders...)
			matchPrice, qcd, matched = ob.Match(run.price)
		})
	case "single":
		tr.p("op single %s", run.price.BigInt())
		panicked, _ = safely(func() {
			ob := amm.NewOrderBook(orders...)
			qcd, matched = ob.MatchAtSinglePrice(run.price)
			matchPrice = run.price
		})
	case "find":
		if !findFound {
			tr.p("op find %d 0 0", run.prec)
		} else {
			tr.p("op find %d 1 %s", run.prec, findPrice.BigInt())
			panicked, _ = safely(func() {
				qcd, matched = findOb.MatchAtSinglePrice(findPrice)
				matchPrice = findPrice
			})
		}
	case "dist":
		sorted := make([]amm.Order, len(orders))
		copy(sorted, orders)
		amm.SortOrders(sorted)
		perm := ""
		for _, o := range sorted {
			for i, o2 := range orders {
				if o == o2 {
					perm += fmt.Sprintf(" %d", i)
				}
			}
		}
		tr.p("op dist %s %s%s", run.distAmt, run.price.BigInt(), perm)
		panicked, _ = safely(func() {
			qcd = amm.DistributeOrderAmountToOrders(sorted, run.distAmt, run.price)
			matched = true
			matchPrice = run.price
		})
		out = sorted
	}
	res := "ok"
	if panicked {
		res = "panic"
	}
	mps, qs := "0", "0"
	if matched && !panicked {
		mps = matchPrice.BigInt().String()
		qs = qcd.String()
	}
	tr.p("res %s %s %s %s", res, b2s(matched), mps, qs)
	for _, o := range out {
		tr.p("r %s %s %s %s", o.GetOpenAmount(), o.GetPaidOfferCoinAmount(), o.GetReceivedDemandCoinAmount(), b2s(o.IsMatched()))
	}
}

func c05User(buy bool, price string, amt, offer int64, batch, id uint64) c05Spec {
	return c05Spec{buy: buy, price: sdk.MustNewDecFromStr(price), amt: sdkmath.NewInt(amt), offer: sdkmath.NewInt(offer), batch: batch, id: id}
}

// fixed regression inputs that always run first (case ids 0..)
func c05Corpus() []c05Run {
	p001 := sdk.MustNewDecFromStr("0.01")
	w := []c05Spec{c05User(false, "0.01", 100, 100, 1, 1), c05User(false, "0.01", 100, 100, 1, 2), c05User(true, "0.01", 199, 2, 1, 3)}
	return []c05Run{
		{kind: "match", specs: w, price: p001, prec: 3},  // C05-F1 witness through Match
		{kind: "single", specs: w, price: p001, prec: 3}, // ... through MatchAtSinglePrice
		{kind: "dist", specs: w[:2], price: p001, distAmt: sdkmath.NewInt(199)},
		{kind: "find", specs: w, price: p001, prec: 3},
		{kind: "match", specs: nil, price: p001, prec: 3},
		{kind: "match", specs: []c05Spec{c05User(true, "1.1", 10, 11, 1, 1), c05User(false, "0.9", 7, 7, 1, 2), c05User(false, "1", 7, 7, 2, 3)}, price: sdk.OneDec(), prec: 3},
	}
}

// books aimed at the pro-rata retry of DistributeOrderAmountToOrders: several orders of one side on
// one tick and in one batch whose shares are worth about one quote unit, the other side slightly
// smaller than their total
func c05RetryRun(r *rng) c05Run {
	prec := 3
	price := sdk.MustNewDecFromStr([]string{"0.01", "0.02", "0.05", "0.1", "0.0021", "0.3", "0.5"}[r.intn(7)])
	unit := sdk.OneDec().Quo(price).Ceil().TruncateInt() // base amount worth one quote unit
	manySell := r.chance(70)
	n := 2 + r.intn(4)
	var specs []c05Spec
	total := sdkmath.ZeroInt()
	id := uint64(1)
	for i := 0; i < n; i++ {
		amt := unit.MulRaw(int64(1 + r.intn(3))).AddRaw(int64(r.intn(5)) - 2)
		if r.chance(20) {
			amt = sdkmath.NewInt(int64(1 + r.intn(5)))
		}
		if !amt.IsPositive() {
			amt = sdkmath.OneInt()
		}
		total = total.Add(amt)
		dir := amm.Sell
		if !manySell {
			dir = amm.Buy
		}
		specs = append(specs, c05Spec{buy: !manySell, price: price, amt: amt, offer: amm.OfferCoinAmount(dir, price, amt), batch: 1, id: id})
		id++
	}
	m := 1 + r.intn(2)
	rest := total.SubRaw(int64(1 + r.intn(4)))
	if r.chance(20) {
		rest = total.MulRaw(int64(1 + r.intn(9))).QuoRaw(10)
	}
	for i := 0; i < m && rest.IsPositive(); i++ {
		amt := rest
		if i+1 < m {
			amt = rest.QuoRaw(2)
			if !amt.IsPositive() {
				amt = rest
			}
		}
		rest = rest.Sub(amt)
		dir := amm.Buy
		if !manySell {
			dir = amm.Sell
		}
		op := price
		if r.chance(30) { // a more aggressive limit on the other side
			if manySell {
				op = amm.UpTick(price, prec)
			} else {
				op = amm.DownTick(price, prec)
			}
		}
		specs = append(specs, c05Spec{buy: manySell, price: op, amt: amt, offer: amm.OfferCoinAmount(dir, op, amt), batch: uint64(1 + r.intn(2)), id: id})
		id++
	}
	kind := "match"
	if r.chance(30) {
		kind = "single"
	}
	return c05Run{kind: kind, specs: specs, price: price, prec: prec}
}

func c05RandRun(r *rng) c05Run {
	if r.chance(12) {
		return c05RetryRun(r)
	}
	if r.chance(14) { // marginal ticks at prices with a non-integer inverse (c05_marginal_test.go)
		return c05MarginalRun(r)
	}
	prec := int(r.pickI(1, 2, 3, 3, 4))
	base := sdk.MustNewDecFromStr(c05BasePrices[r.intn(len(c05BasePrices))])
	if r.chance(35) { // the region where quote amounts round to zero
		base = sdk.MustNewDecFromStr([]string{"0.01", "0.012345", "0.0021", "0.05", "0.1"}[r.intn(5)])
	}
	base = amm.PriceToDownTick(base, prec)
	nUser := r.intn(13)
	specs := c05RandBook(r, base, prec, nUser)
	withPools := r.chance(25)
	var rawPools []c05Pool
	var pools []c05Spec
	if withPools {
		rawPools = c05RandPools(r, base, prec)
		pools = c05PoolOrders(rawPools, prec)
	}
	k := r.intn(100)
	lastIdx := amm.TickToIndex(base, prec) + r.intn(5) - 2
	if lastIdx < 0 {
		lastIdx = 0
	}
	last := amm.TickFromIndex(lastIdx, prec)
	distPick := r.intn(4)
	distFrac := r.intn(1000)
	switch {
	case k < 55:
		return c05Run{kind: "match", specs: append(specs, pools...), price: last, prec: prec}
	case k < 70:
		return c05Run{kind: "find", specs: specs, price: last, prec: prec, pools: rawPools}
	case k < 80:
		return c05Run{kind: "single", specs: append(specs, pools...), price: last, prec: prec}
	default:
		// one side, one tick: what DistributeOrderAmountToTick hands to DistributeOrderAmountToOrders
		buy := distPick%2 == 0
		var side []c05Spec
		total := sdkmath.ZeroInt()
		for _, s := range specs {
			s.buy = buy
			s.price = last
			if !buy {
				s.offer = s.amt
			}
			side = append(side, s)
			total = total.Add(s.amt)
		}
		amt := total.MulRaw(int64(distFrac)).QuoRaw(1000)
		if distPick >= 2 && total.IsPositive() {
			amt = total.SubRaw(1)
		}
		return c05Run{kind: "dist", specs: side, price: last, distAmt: amt}
	}
}

func TestC05(t *testing.T) {
	tr := newTracer(t, "c05.trace")
	defer tr.close()
	r := newRng(seed())
	ncases := envInt("VERIF_CASES", 2000)
	only := envInt("VERIF_CASE", -1)
	ci := 0
	for _, run := range append(c05Corpus(), c05MarginalCorpus()...) {
		if only < 0 || only == ci {
			c05Dump(tr, ci, run)
		}
		ci++
	}
	for i := 0; i < ncases; i++ {
		run := c05RandRun(r)
		if only < 0 || only == ci {
			c05Dump(tr, ci, run)
		}
		ci++
	}
}

// TestC05Exhaustive: every book with at most c05ExhMax (default 2; VERIF_C05_EXH=3 for 3) orders
// per side, amounts 1..6, prices from 4 neighbouring ticks, against every one of the 4 ticks as
// last price.  Sides are enumerated as multisets (order ids ascending = insertion order).
func TestC05Exhaustive(t *testing.T) {
	tr := newTracer(t, "c05x.trace")
	defer tr.close()
	if os.Getenv("VERIF_TIER") != "thorough" && os.Getenv("VERIF_C05_EXH") == "" {
		return
	}
	maxPer := envInt("VERIF_C05_EXH", 2)
	stride := envInt("VERIF_C05_STRIDE", 1)
	only := envInt("VERIF_CASE", -1)
	prec := 1
	ticks := []sdk.Dec{sdk.MustNewDecFromStr("0.48"), sdk.MustNewDecFromStr("0.49"), sdk.MustNewDecFromStr("0.50"), sdk.MustNewDecFromStr("0.51")}
	// VERIF_C05_EXH_TICKS=low: four ticks whose inverses lie strictly between 3 and 4 (amounts 1..6 straddle the
	// amount worth one quote coin); VERIF_C05_EXH_KIND=single: OrderBook.MatchAtSinglePrice at each tick (the
	// no-last-price entry point) instead of Match with the tick as last price; both: one case of each kind
	if os.Getenv("VERIF_C05_EXH_TICKS") == "low" {
		ticks = []sdk.Dec{sdk.MustNewDecFromStr("0.30"), sdk.MustNewDecFromStr("0.31"), sdk.MustNewDecFromStr("0.32"), sdk.MustNewDecFromStr("0.33")}
	}
	kinds := []string{"match"}
	switch os.Getenv("VERIF_C05_EXH_KIND") {
	case "single":
		kinds = []string{"single"}
	case "both":
		kinds = []string{"match", "single"}
	}
	// VERIF_C05_EXH_AMAX (default 6): amounts 1..AMAX; VERIF_C05_EXH_NT (default 4): the first NT of the ticks
	amax := envInt("VERIF_C05_EXH_AMAX", 6)
	if nt := envInt("VERIF_C05_EXH_NT", 4); nt >= 1 && nt < len(ticks) {
		ticks = ticks[:nt]
	}
	type pa struct{ p, a int }
	var opts []pa
	for p := 0; p < len(ticks); p++ {
		for a := 1; a <= amax; a++ {
			opts = append(opts, pa{p, a})
		}
	}
	var sides [][]pa
	var rec func(start int, cur []pa)
	rec = func(start int, cur []pa) {
		sides = append(sides, append([]pa(nil), cur...))
		if len(cur) == maxPer {
			return
		}
		for i := start; i < len(opts); i++ {
			rec(i, append(cur, opts[i]))
		}
	}
	rec(0, nil)
	ci := 0
	n := 0
	for _, bs := range sides {
		for _, ss := range sides {
			if len(bs) == 0 || len(ss) == 0 {
				continue
			}
			n++
			if stride > 1 && n%stride != 0 {
				continue
			}
			var specs []c05Spec
			id := uint64(1)
			for _, x := range bs {
				amt := sdkmath.NewInt(int64(x.a))
				specs = append(specs, c05Spec{buy: true, price: ticks[x.p], amt: amt, offer: amm.OfferCoinAmount(amm.Buy, ticks[x.p], amt), batch: 1, id: id})
				id++
			}
			for _, x := range ss {
				amt := sdkmath.NewInt(int64(x.a))
				specs = append(specs, c05Spec{buy: false, price: ticks[x.p], amt: amt, offer: amt, batch: 1, id: id})
				id++
			}
			for lp := 0; lp < len(ticks); lp++ {
				for _, kind := range kinds {
					if only < 0 || only == ci {
						c05Dump(tr, ci, c05Run{kind: kind, specs: specs, price: ticks[lp], prec: prec})
					}
					ci++
				}
			}
		}
	}
}
