//go:build verif

package verifharness

import (
	"fmt"
	"strings"
	"testing"

	sdk "github.com/cosmos/cosmos-sdk/types"

	chain "github.com/comdex-official/comdex/app"
	"github.com/comdex-official/comdex/x/auction"
	auctionv1types "github.com/comdex-official/comdex/x/auction/types"
	liqv1types "github.com/comdex-official/comdex/x/liquidation/types"
	vaulttypes "github.com/comdex-official/comdex/x/vault/types"
)

// ---------------------------------------------------------------------------------------------
// C10, generation 1 (x/auction): vault positions seized by the real x/liquidation sweep, Dutch auctions
// bid through MsgPlaceDutchBid, prices moved by auction.BeginBlocker.

type c10v1Params struct {
	buffer, cusp, penalty, closingFee sdk.Dec
	dur, dust                         uint64
	dc, dd                            int64
	oraclePrice                       bool // ExtendedPairVault.AssetOutOraclePrice
}

type c10v1PlanOp struct {
	kind                int // 0 bid, 1 tick, 2 start second
	who, class          int
	f1, f2              int
	dtClass, priceClass int
}

type c10v1Case struct {
	p                c10v1Params
	twaC0, twaD      uint64
	collUnits        [2]int64
	crCreate, dropTo [2]int64
	feeClass         int // collector net fees: 0 none, 1 tiny, 2/3 big
	plan             []c10v1PlanOp
}

func c10v1Draw(r *rng) c10v1Case {
	var cs c10v1Case
	p := &cs.p
	p.buffer = c10Dec([]string{"1.2", "1.0", "1.5", "1.15"}[r.intn(4)])
	p.cusp = c10Dec([]string{"0.6", "0.7", "0.5", "0.9", "0.833333333333333333"}[r.intn(5)])
	p.dur = r.pickU(10, 60, 77, 300, 1000)
	p.penalty = c10Dec([]string{"0.12", "0", "0.05", "0.15"}[r.intn(4)])
	p.closingFee = c10Dec([]string{"0", "0.01", "0", "0.005"}[r.intn(4)])
	p.dust = r.pickU(0, 100000, 1000000, 100000)
	p.dc, p.dd = 1000000, 1000000
	if r.chance(20) {
		p.dc = r.pickI(1000000, 100000000, 1000000000000000000)
		p.dd = r.pickI(1000000, 1000000000000000000, 1000000)
	}
	p.oraclePrice = r.chance(70)
	cs.twaC0 = r.pickU(2000000, 1500000, 12345678, 1000000, 250000)
	cs.twaD = r.pickU(1000000, 1000000, 990000, 1013000)
	cs.collUnits = [2]int64{int64(1 + r.intn(5000)), int64(1 + r.intn(5000))}
	cs.crCreate = [2]int64{int64(160 + r.intn(90)), int64(160 + r.intn(90))}
	cs.dropTo = [2]int64{int64(90 + r.intn(58)), int64(90 + r.intn(58))}
	cs.feeClass = r.intn(4)
	nops := 4 + r.intn(12)
	cs.plan = make([]c10v1PlanOp, nops)
	for i := range cs.plan {
		x := r.intn(100)
		switch {
		case x < 58:
			cs.plan[i] = c10v1PlanOp{kind: 0, who: r.intn(3), class: r.intn(14), f1: 1 + r.intn(99), f2: 1 + r.intn(1000)}
		case x < 90:
			cs.plan[i] = c10v1PlanOp{kind: 1, dtClass: r.intn(9), priceClass: r.intn(20), f1: 70 + r.intn(60)}
		default:
			cs.plan[i] = c10v1PlanOp{kind: 2}
		}
	}
	return cs
}

func c10v1FundModule(t *testing.T, a *chain.App, ctx sdk.Context, module string, coin sdk.Coin) {
	if !coin.Amount.IsPositive() {
		return
	}
	if err := a.BankKeeper.MintCoins(ctx, "vaultV1", sdk.NewCoins(coin)); err != nil {
		t.Fatalf("mint: %v", err)
	}
	if err := a.BankKeeper.SendCoinsFromModuleToModule(ctx, "vaultV1", module, sdk.NewCoins(coin)); err != nil {
		t.Fatalf("send to module: %v", err)
	}
}

func TestC10V1(t *testing.T) {
	a, base := newApp(t)
	tr := newTracer(t, "c10v1.trace")
	defer tr.close()
	r := newRng(seed())
	ncases := envInt("VERIF_CASES", 150)
	only := envInt("VERIF_CASE", -1)
	debug := envInt("VERIF_DEBUG", 0) == 1

	bidders := []sdk.AccAddress{addrN(10), addrN(11), addrN(12)}
	owners := []sdk.AccAddress{addrN(20), addrN(21)}
	const denomC, denomD = "ucoll", "udebt"

	for ci := 0; ci < ncases; ci++ {
		cs := c10v1Draw(r)
		if only >= 0 && ci != only {
			continue
		}
		p := cs.p
		ctx, _ := base.CacheContext()
		app := addAppRecord(t, a, ctx, "harbor")
		assetC := addAsset(t, a, ctx, "COLL", denomC, p.dc, true, false)
		assetD := addAsset(t, a, ctx, "DEBT", denomD, p.dd, true, true)
		pair := addPair(t, a, ctx, assetC, assetD)
		extPair := addExtPair(t, a, ctx, extPairCfg{Name: "COLL-A", App: app, Pair: pair, StabilityFee: sdk.ZeroDec(), ClosingFee: p.closingFee,
			LiqPenalty: p.penalty, DrawDownFee: sdk.ZeroDec(), MinCr: sdk.NewDecWithPrec(15, 1),
			DebtCeiling: sdk.NewIntFromUint64(1 << 62), DebtFloor: sdk.NewInt(1), Active: true, OraclePrice: p.oraclePrice, AssetOutPrice: 1000000,
			MinUsdValLeft: p.dust})
		a.LiquidationKeeper.SetParams(ctx, liqv1types.NewParams(100))
		if err := a.LiquidationKeeper.WasmWhitelistAppIDLiquidation(ctx, app); err != nil {
			t.Fatalf("whitelist: %v", err)
		}
		a.AuctionKeeper.SetAuctionParams(ctx, auctionv1types.AuctionParams{AppId: app, AuctionDurationSeconds: p.dur, Buffer: p.buffer, Cusp: p.cusp,
			Step: sdk.NewIntFromUint64(1), PriceFunctionType: 1, SurplusId: 1, DebtId: 2, DutchId: 3, BidDurationSeconds: 300})
		setPrice(a, ctx, assetC, cs.twaC0, true)
		setPrice(a, ctx, assetD, cs.twaD, true)
		big := sdk.NewIntFromUint64(1 << 62)
		for i, b := range bidders {
			amt := big
			if i == 2 {
				amt = sdk.NewInt(p.dd).QuoRaw(3)
			}
			fund(t, a, ctx, b, sdk.NewCoins(sdk.NewCoin(denomD, amt)))
		}
		if cs.feeClass > 0 {
			amt := sdk.NewInt(1000)
			if cs.feeClass >= 2 {
				amt = sdk.NewIntFromUint64(1 << 50)
			}
			if err := a.CollectorKeeper.SetNetFeeCollectedData(ctx, app, assetD, amt); err != nil {
				t.Fatalf("net fees: %v", err)
			}
			c10v1FundModule(t, a, ctx, "collectorV1", sdk.NewCoin(denomD, amt))
		}
		supply0 := supply(a, ctx, denomD)
		minted := sdk.ZeroInt() // debt minted by vault creations after supply0

		lend := 0
		tr.p("case %d %s %s %d %d %d %d %d 0", ci, p.buffer.BigInt(), p.cusp.BigInt(), p.dur, p.dust, p.dc, p.dd, lend)
		if debug {
			tr.p("# %+v", cs)
		}

		now := int64(0)
		twaC, twaDcur := cs.twaC0, cs.twaD
		actC, actD := true, true
		scaleC := sdk.NewInt(p.dc).QuoRaw(1000)

		// the inflow price the code reads
		pin := func() (bool, uint64) {
			if p.oraclePrice {
				return actD, twaDcur
			}
			return true, 1000000
		}

		observe := func() {
			c := c10At(ctx, now)
			ownC := sdk.ZeroInt()
			for _, o := range owners {
				ownC = ownC.Add(bal(a, c, o, denomC))
			}
			nf, nfound := a.CollectorKeeper.GetNetFeeCollectedData(c, app, assetD)
			nfAmt := sdk.ZeroInt()
			if nfound {
				nfAmt = nf.NetFeesCollected
			}
			var sb strings.Builder
			for _, b := range bidders {
				fmt.Fprintf(&sb, " %s %s", bal(a, c, b, denomC), bal(a, c, b, denomD))
			}
			burned := supply0.Add(minted).Sub(supply(a, c, denomD))
			tr.p("L %s %s %s %s %s 0 0%s %s %s",
				bal(a, c, modAddr(auctionv1types.ModuleName), denomC), bal(a, c, modAddr(auctionv1types.ModuleName), denomD), ownC,
				bal(a, c, modAddr("collectorV1"), denomD), burned, sb.String(), b2s(nfound), nfAmt)
			for _, au := range a.AuctionKeeper.GetDutchAuctions(c, app) {
				tr.p("A %d %s %s %s %s %s %s %s %d %d", au.AuctionId, au.OutflowTokenCurrentAmount.Amount, au.InflowTokenTargetAmount.Amount,
					au.InflowTokenCurrentAmount.Amount, au.OutflowTokenCurrentPrice.BigInt(), au.InflowTokenCurrentPrice.BigInt(),
					au.OutflowTokenInitialPrice.BigInt(), au.OutflowTokenEndPrice.BigInt(), c10Unix(au.StartTime), c10Unix(au.EndTime))
			}
			tr.p("E")
		}

		started := [2]bool{}
		start := func(i int) {
			if started[i] {
				return
			}
			started[i] = true
			c := c10At(ctx, now)
			// create the vault at the current collateral price, then let the price fall
			coll := scaleC.MulRaw(cs.collUnits[i])
			collVal := sdk.NewDecFromInt(coll).MulInt64(int64(twaC)).QuoInt64(p.dc)
			debtVal := collVal.MulInt64(100).QuoInt64(cs.crCreate[i])
			dPrice := int64(1000000)
			if p.oraclePrice {
				dPrice = int64(twaDcur)
			}
			debt := debtVal.MulInt64(p.dd).QuoInt64(dPrice).TruncateInt()
			class := "err"
			if debt.IsPositive() && actC && actD {
				fund(t, a, c, owners[i], sdk.NewCoins(sdk.NewCoin(denomC, coll)))
				s0 := supply(a, c, denomD)
				class, _, _ = execMsg(a, c, vaulttypes.NewMsgCreateRequest(owners[i], app, extPair, coll, debt))
				minted = minted.Add(supply(a, c, denomD).Sub(s0))
			}
			before := a.AuctionKeeper.GetAuctionID(c)
			if class == "ok" {
				twaC = uint64(sdk.NewDec(int64(twaC)).MulInt64(cs.dropTo[i]).QuoInt64(cs.crCreate[i]).TruncateInt64())
				if twaC == 0 {
					twaC = 1
				}
				setPrice(a, c, assetC, twaC, actC)
				cc, write := c.CacheContext()
				var err error
				pn, _ := safely(func() { err = a.LiquidationKeeper.LiquidateVaults(cc) })
				if pn {
					class = "panic"
				} else if err != nil {
					class = "err"
				} else {
					write()
				}
			}
			after := a.AuctionKeeper.GetAuctionID(c)
			pa, pv := pin()
			if class == "ok" && after == before+1 {
				au, _ := a.AuctionKeeper.GetDutchAuction(c, app, 3, after)
				lk, _ := a.LiquidationKeeper.GetLockedVault(c, app, au.LockedVaultId)
				tr.p("op start %d %s %s %s %s %d %s %d %s %d ok", after, lk.AmountIn, lk.AmountOut, au.LiquidationPenalty.BigInt(), lk.InterestAccumulated,
					now, b2s(pa), pv, b2s(actC), twaC)
			} else {
				tr.p("op nostart %s %d %s", class, now, b2s(after != before))
			}
			observe()
		}

		start(0)
		for _, o := range cs.plan {
			c := c10At(ctx, now)
			switch o.kind {
			case 2:
				start(1)
			case 1:
				var dt int64
				switch o.dtClass {
				case 0:
					dt = 0
				case 1:
					dt = 1
				case 2:
					dt = 5
				case 3:
					dt = int64(p.dur) / 4
				case 4:
					dt = int64(p.dur) / 2
				case 5, 6:
					aus := a.AuctionKeeper.GetDutchAuctions(c, app)
					if len(aus) > 0 {
						dt = c10Unix(aus[0].EndTime) - now
						if o.dtClass == 6 {
							dt++
						}
						if dt < 0 {
							dt = 0
						}
					}
				case 7:
					dt = 2*int64(p.dur) + 1
				default:
					dt = int64(1 + o.f1%7)
				}
				now += dt
				switch {
				case o.priceClass == 0:
					actC = !actC
				case o.priceClass == 1:
					actD = !actD
				case o.priceClass <= 4:
					twaC = twaC * uint64(o.f1) / 100
					if twaC == 0 {
						twaC = 1
					}
				case o.priceClass == 5:
					twaDcur = twaDcur * uint64(o.f1) / 100
					if twaDcur == 0 {
						twaDcur = 1
					}
				case o.priceClass <= 7:
					actC, actD = true, true
				}
				c = c10At(ctx, now)
				setPrice(a, c, assetC, twaC, actC)
				setPrice(a, c, assetD, twaDcur, actD)
				pn, _ := safely(func() { auction.BeginBlocker(c, a.AuctionKeeper, a.AssetKeeper, a.CollectorKeeper, a.EsmKeeper) })
				class := "ok"
				if pn {
					class = "panic"
				}
				pa, pv := pin()
				tr.p("op tick %d %s %d %s %d %s", now, b2s(pa), pv, b2s(actC), twaC, class)
				observe()
			case 0:
				aus := a.AuctionKeeper.GetDutchAuctions(c, app)
				var aid uint64 = 77
				remaining := sdk.NewInt(1000000)
				reach := sdk.NewInt(1000)
				if len(aus) > 0 {
					target := aus[o.f2%len(aus)]
					aid = target.AuctionId
					remaining = target.OutflowTokenCurrentAmount.Amount
					// the collateral amount worth the debt still to collect, at the posted prices
					tab := target.InflowTokenTargetAmount.Amount.Sub(target.InflowTokenCurrentAmount.Amount)
					if target.OutflowTokenCurrentPrice.IsPositive() {
						reach = sdk.NewDecFromInt(tab).Mul(target.InflowTokenCurrentPrice).QuoInt64(p.dd).Quo(target.OutflowTokenCurrentPrice).MulInt64(p.dc).TruncateInt()
					}
				}
				var amt sdk.Int
				denom := denomC
				switch o.class {
				case 0:
					amt = sdk.NewInt(1)
				case 1:
					amt = sdk.NewInt(int64(o.f2))
				case 2, 3:
					amt = remaining.MulRaw(int64(o.f1)).QuoRaw(100)
				case 4:
					amt = reach.MulRaw(int64(o.f1)).QuoRaw(100)
				case 5:
					amt = remaining
				case 6:
					amt = remaining.SubRaw(1)
				case 7:
					amt = remaining.AddRaw(1)
				case 8:
					amt = reach
				case 9:
					amt = reach.AddRaw(int64(o.f1%3) - 1)
				case 10:
					amt = reach.MulRaw(2)
				case 11: // leaves dust
					amt = remaining.Sub(sdk.NewInt(p.dc).MulRaw(int64(o.f1)).QuoRaw(1000))
				case 12:
					amt = remaining.MulRaw(int64(o.f1)).QuoRaw(100)
					if o.f1%5 == 0 {
						denom = denomD
					} else if o.f1%5 == 1 {
						amt = sdk.ZeroInt()
					}
				default:
					amt = reach.Sub(sdk.NewInt(p.dc).MulRaw(int64(o.f1)).QuoRaw(1000))
				}
				if amt.IsNegative() {
					amt = sdk.NewInt(1)
				}
				if amt.GT(remaining) && o.class != 7 && o.class != 12 {
					amt = remaining
				}
				msg := &auctionv1types.MsgPlaceDutchBidRequest{AuctionId: aid, Bidder: bidders[o.who].String(), Amount: sdk.Coin{Denom: denom, Amount: amt},
					AppId: app, AuctionMappingId: 3}
				class, berr, _ := execMsg(a, c, msg)
				if debug && berr != nil {
					tr.p("# %s", strings.ReplaceAll(berr.Error(), "\n", " "))
				}
				tr.p("op bid %d %d %s %s %s", aid, o.who, amt, b2s(denom != denomC), class)
				observe()
			}
		}
	}
}
