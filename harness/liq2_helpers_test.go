//go:build verif

package verifharness

import (
	"fmt"
	"time"

	sdk "github.com/cosmos/cosmos-sdk/types"

	"github.com/comdex-official/comdex/x/liquidity/amm"
	liqtypes "github.com/comdex-official/comdex/x/liquidity/types"
)

// ---------------------------------------------------------------------------------------------
// shadow matching: what ExecuteMatching (keeper/swap.go:606-666) is about to compute for every pair of an
// app, observed through the REAL types.NewUserOrder and the REAL keeper.Match on a cache context that is
// thrown away.  The EndBlocker runs inside ApplyFuncIfNoError, which swallows errors and panics - a batch
// whose ApplyMatchResult panics leaves no trace in the stored records; the shadow makes the engine's input
// (the amm order built from each stored order) and its output (every order's fill) observable anyway.
//
//   mi <app> <pair> <order id> <B|S> <price> <amount> <offer coin bound> <batch>      NewUserOrder's output
//   m  <app> <pair> <has last price> <last price> <ok|panic> <matched> <match price> <quoteCoinDiff> <n>
//   mo <u|p> <order id | pool id> <B|S> <price> <amount> <offer> <batch> <open'> <paid'> <received'>   n lines,
//      the book after matching in ob.Orders() order (buy ticks high->low, sell ticks low->high; inside a tick
//      in insertion order) - every order entered the engine fresh (open = amount, nothing paid / received)
func liqDirTok(d amm.OrderDirection) string {
	if d == amm.Buy {
		return "B"
	}
	return "S"
}

func (w *liqWorld) shadowMatch(app uint64) {
	params, err := w.k.GetGenericParams(w.ctx, app)
	if err != nil || params.BatchSize == 0 || w.ctx.BlockHeight()%int64(params.BatchSize) != 0 {
		return
	}
	for _, pair := range w.k.GetAllPairs(w.ctx, app) {
		pair := pair
		cctx, _ := w.ctx.CacheContext()
		ob := amm.NewOrderBook()
		panicked, _ := safely(func() {
			_ = w.k.IterateOrdersByPair(cctx, app, pair.Id, func(order liqtypes.Order) (bool, error) {
				switch order.Status {
				case liqtypes.OrderStatusNotExecuted, liqtypes.OrderStatusNotMatched, liqtypes.OrderStatusPartiallyMatched:
					if order.Status != liqtypes.OrderStatusNotExecuted && order.ExpiredAt(cctx.BlockTime()) {
						return false, nil
					}
					uo := liqtypes.NewUserOrder(order)
					w.tr.p("mi %d %d %d %s %s %s %s %d", app, pair.Id, order.Id, liqDirTok(uo.Direction), uo.Price.BigInt(), uo.Amount,
						uo.OfferCoinAmount, uo.BatchID)
					ob.AddOrder(uo)
				}
				return false, nil
			})
		})
		if panicked {
			w.tr.p("m %d %d 0 0 panic 0 0 0 0", app, pair.Id)
			continue
		}
		var pools []*liqtypes.PoolOrderer
		_ = w.k.IteratePoolsByPair(cctx, app, pair.Id, func(pool liqtypes.Pool) (bool, error) {
			if pool.Disabled {
				return false, nil
			}
			rx, ry := w.k.GetPoolBalances(cctx, pool)
			ps := w.k.GetPoolCoinSupply(cctx, pool)
			ammPool := liqtypes.NewPoolOrderer(pool.AMMPool(rx.Amount, ry.Amount, ps), pool.Id, pool.GetReserveAddress(), pair.BaseCoinDenom, pair.QuoteCoinDenom)
			if ammPool.IsDepleted() {
				return false, nil
			}
			pools = append(pools, ammPool)
			return false, nil
		})
		var price sdk.Dec
		var qcd sdk.Int
		matched := false
		panicked, _ = safely(func() { price, qcd, matched = w.k.Match(cctx, params, ob, pools, pair.LastPrice) })
		has, lp := 0, "0"
		if pair.LastPrice != nil {
			has, lp = 1, pair.LastPrice.BigInt().String()
		}
		res, ps, qs := "ok", "0", "0"
		if panicked {
			res, matched = "panic", false
		}
		if matched {
			ps, qs = price.BigInt().String(), qcd.String()
		}
		orders := ob.Orders()
		w.tr.p("m %d %d %d %s %s %s %s %s %d", app, pair.Id, has, lp, res, b2s(matched), ps, qs, len(orders))
		for _, o := range orders {
			kind, id := "u", uint64(0)
			switch t := o.(type) {
			case *liqtypes.UserOrder:
				id = t.OrderID
			case *liqtypes.PoolOrder:
				kind, id = "p", t.PoolID
			}
			w.tr.p("mo %s %d %s %s %s %s %d %s %s %s", kind, id, liqDirTok(o.GetDirection()), o.GetPrice().BigInt(), o.GetAmount(), o.GetOfferCoinAmount(),
				o.GetBatchID(), o.GetOpenAmount(), o.GetPaidOfferCoinAmount(), o.GetReceivedDemandCoinAmount())
		}
	}
}

// ---------------------------------------------------------------------------------------------
// placing one limit order from an account of its own, funded with exactly what it needs

func (w *liqWorld) placeOwn(app uint64, p liqtypes.Pair, buy bool, price sdk.Dec, amt sdk.Int, life int64) (uint64, bool) {
	owner := w.nextAcc
	w.nextAcc++
	params, _ := w.k.GetGenericParams(w.ctx, app)
	od, dd := p.QuoteCoinDenom, p.BaseCoinDenom
	dir := int32(1)
	tick := amm.PriceToDownTick(price, int(params.TickPrecision))
	need := amm.OfferCoinAmount(amm.Buy, tick, amt)
	if !buy {
		od, dd, dir = p.BaseCoinDenom, p.QuoteCoinDenom, 2
		need = amt
	}
	oamt := need.Add(need.ToLegacyDec().Mul(params.SwapFeeRate).Ceil().TruncateInt())
	w.watchUser(owner, p.QuoteCoinDenom, p.BaseCoinDenom)
	w.fund(owner, od, oamt)
	w.obs()
	before, _ := w.k.GetPair(w.ctx, app, p.Id)
	w.opOrder(false, app, owner, p.Id, dir, od, oamt, dd, price, amt, life)
	after, _ := w.k.GetPair(w.ctx, app, p.Id)
	if after.LastOrderId == before.LastOrderId+1 {
		return after.LastOrderId, true
	}
	return 0, false
}

// price limits of a pair (a pair without last price accepts every tick)
func (w *liqWorld) limitsOf(app uint64, p liqtypes.Pair) (lo, hi sdk.Dec, ok bool) {
	if p.LastPrice == nil {
		return sdk.Dec{}, sdk.Dec{}, false
	}
	params, _ := w.k.GetGenericParams(w.ctx, app)
	lo, hi = liqtypes.PriceLimits(*p.LastPrice, params.MaxPriceLimitRatio, int(params.TickPrecision))
	return lo, hi, true
}

// ---------------------------------------------------------------------------------------------
// a ladder of small counter orders on different ticks across the price of a resting order: the resting order
// is matched several times in one batch (two-sided matching fills it tick by tick, each fill rounded on its
// own) and, when the ladder is smaller than the order, stays partially matched for later batches

func (w *liqWorld) genLadder(g *rng) {
	app, p, ok := w.pickPair(g)
	if !ok {
		return
	}
	var cands []liqtypes.Order
	for _, o := range w.k.GetOrdersByPair(w.ctx, app, p.Id) {
		if (o.Status == liqtypes.OrderStatusNotMatched || o.Status == liqtypes.OrderStatusPartiallyMatched || o.Status == liqtypes.OrderStatusNotExecuted) &&
			o.OpenAmount.GTE(sdk.NewInt(400)) {
			cands = append(cands, o)
		}
	}
	if len(cands) == 0 {
		return
	}
	t := cands[g.intn(len(cands))]
	w.ladder(g, app, p, t, 2+g.intn(4), int64(40+g.intn(110)))
}

// k counter orders whose amounts add up to pct% of the target's open amount, on k different ticks from the
// target's price on (downwards for sells against a buy, upwards for buys against a sell)
func (w *liqWorld) ladder(g *rng, app uint64, p liqtypes.Pair, t liqtypes.Order, k int, pct int64) {
	params, _ := w.k.GetGenericParams(w.ctx, app)
	prec := int(params.TickPrecision)
	buyTarget := t.Direction == liqtypes.OrderDirectionBuy
	total := t.OpenAmount.MulRaw(pct).QuoRaw(100)
	lo, hi, lim := w.limitsOf(app, p)
	price := t.Price
	for i := 0; i < k; i++ {
		share := total.QuoRaw(int64(k))
		if i == k-1 {
			share = total.Sub(total.QuoRaw(int64(k)).MulRaw(int64(k - 1)))
		}
		share = share.AddRaw(int64(g.intn(7))) // odd amounts: price * amount fractional
		if lim && (price.LT(lo) || price.GT(hi)) {
			break
		}
		if !liqtypes.IsTooSmallOrderAmount(share, price) {
			w.placeOwn(app, p, !buyTarget, price, share, []int64{15, 40, 600}[g.intn(3)])
		}
		for s := 0; s <= g.intn(3); s++ {
			if buyTarget {
				price = amm.DownTick(price, prec)
			} else {
				price = amm.UpTick(price, prec)
			}
		}
	}
}

// ---------------------------------------------------------------------------------------------
// the order-life scenario (one per case, on a pair reserved for it):
//   stage 0  a long-lived order T (buy or sell; a limit order or the top tick of a market-making order) and a
//            counter order for part of it at T's own price: T is partially matched in its first batch
//   stage 1  two orders that trade with each other beyond T's price: the last price moves past T
//   stage 2+ ladders of small counter orders on ticks from T's price on: T is matched several times in one
//            batch at its own price (each fill rounded on its own), across one or more batches, until it is
//            completed, expired or cancelled
type lifeScn struct {
	app   uint64
	pair  uint64
	buy   bool
	mm    bool
	id    uint64
	stage int
	parts int // ladders still to come
}

func (w *liqWorld) newLifeScn(g *rng) *lifeScn {
	// prefer a pair without pools (pool orders would trade with T as well)
	type cand struct {
		app  uint64
		pair uint64
	}
	var free, any []cand
	for _, app := range w.apps {
		for _, p := range w.pairs[app] {
			any = append(any, cand{app, p.Id})
			if len(w.k.GetPoolsByPair(w.ctx, app, p.Id)) == 0 {
				free = append(free, cand{app, p.Id})
			}
		}
	}
	if len(any) == 0 {
		return nil
	}
	c := any[g.intn(len(any))]
	if len(free) > 0 && g.chance(80) {
		c = free[g.intn(len(free))]
	}
	return &lifeScn{app: c.app, pair: c.pair, buy: g.chance(65), mm: g.chance(20), parts: 1 + g.intn(3)}
}

func (w *liqWorld) lifeStep(g *rng) {
	sc := w.life
	p, ok := w.k.GetPair(w.ctx, sc.app, sc.pair)
	if !ok {
		w.life = nil
		return
	}
	params, _ := w.k.GetGenericParams(w.ctx, sc.app)
	prec := int(params.TickPrecision)
	ref := w.refP[fmt.Sprintf("%d:%d", sc.app, sc.pair)]
	if p.LastPrice != nil {
		ref = *p.LastPrice
	}
	switch sc.stage {
	case 0:
		// T a little inside the last price, amount and price chosen so that price * amount is fractional
		f := int64(1000 - 5*int64(g.intn(6)))
		if !sc.buy {
			f = int64(1000 + 5*int64(g.intn(6)))
		}
		price := amm.PriceToDownTick(ref.MulInt64(f).QuoInt64(1000), prec)
		if !sc.buy {
			price = amm.PriceToUpTick(ref.MulInt64(f).QuoInt64(1000), prec)
		}
		amt := sdk.NewInt(int64(1001 + 2*g.intn(4000)))
		if g.chance(30) {
			amt = sdk.NewInt(int64(100001 + 2*g.intn(400000)))
		}
		for liqtypes.IsTooSmallOrderAmount(amt.QuoRaw(8), price) {
			amt = amt.MulRaw(10).AddRaw(1)
		}
		if sc.mm {
			// a market-making order whose single tick is T (max = min price on T's side, nothing on the other)
			owner := 50 + g.intn(3)
			before, _ := w.k.GetPair(w.ctx, sc.app, sc.pair)
			if sc.buy {
				w.opMM(sc.app, owner, sc.pair, sdk.ZeroDec(), sdk.ZeroDec(), sdk.ZeroInt(), price, price, amt, 3600)
			} else {
				w.opMM(sc.app, owner, sc.pair, price, price, amt, sdk.ZeroDec(), sdk.ZeroDec(), sdk.ZeroInt(), 3600)
			}
			after, _ := w.k.GetPair(w.ctx, sc.app, sc.pair)
			if after.LastOrderId != before.LastOrderId+1 {
				w.life = nil
				return
			}
			sc.id = after.LastOrderId
		} else {
			id, ok := w.placeOwn(sc.app, p, sc.buy, price, amt, 3600)
			if !ok {
				w.life = nil
				return
			}
			sc.id = id
		}
		// the counter order for 30-70% of T at T's own price
		part := amt.MulRaw(int64(30 + g.intn(41))).QuoRaw(100).AddRaw(int64(g.intn(5)))
		w.placeOwn(sc.app, p, !sc.buy, price, part, 10)
		sc.stage = 1
	case 1:
		t, ok := w.k.GetOrder(w.ctx, sc.app, sc.pair, sc.id)
		if !ok || !(t.Status == liqtypes.OrderStatusPartiallyMatched || t.Status == liqtypes.OrderStatusNotMatched) {
			w.life = nil
			return
		}
		// move the last price 1-4% past T: a buy and a sell that trade with each other there
		f := int64(1010 + 5*int64(g.intn(7)))
		if !sc.buy {
			f = int64(990 - 5*int64(g.intn(7)))
		}
		away := amm.PriceToDownTick(t.Price.MulInt64(f).QuoInt64(1000), prec)
		if lo, hi, lim := w.limitsOf(sc.app, p); lim && (away.LT(lo) || away.GT(hi)) {
			sc.stage = 2
			return
		}
		a := sdk.NewInt(int64(1000 + g.intn(100000)))
		for liqtypes.IsTooSmallOrderAmount(a, away) {
			a = a.MulRaw(10)
		}
		w.placeOwn(sc.app, p, true, away, a, 5)
		w.placeOwn(sc.app, p, false, away, a, 5)
		sc.stage = 2
	default:
		t, ok := w.k.GetOrder(w.ctx, sc.app, sc.pair, sc.id)
		if !ok || !(t.Status == liqtypes.OrderStatusPartiallyMatched || t.Status == liqtypes.OrderStatusNotMatched) || sc.parts == 0 {
			w.life = nil
			return
		}
		sc.parts--
		pct := int64(100 + g.intn(30)) // the last ladder offers more than T has left
		if sc.parts > 0 {
			pct = int64(30 + g.intn(40))
		}
		w.ladder(g, sc.app, p, t, 2+g.intn(4), pct)
		sc.stage++
	}
	_ = time.Second
}
