//go:build verif

package verifharness

// C18 (stability fee over time): histories of {later block, MsgCreate, MsgVaultInterestCalc, MsgDeposit,
// MsgDraw, AssetKeeper.WasmUpdatePairsVault} on one extended pair of a whitelisted (or not) app, driven
// through the real message router / keepers.  Per step the trace carries the operation, the result class,
// the pair's (fee, stamps) and every vault's (AmountOut, InterestAccumulated, tracker, stamps) after it,
// and - before it - the values of the REAL Rewardskeeper.CalculationOfRewards on every (time base,
// principal) the step could select ("q" lines: the model's calc is that table).

import (
	"sort"
	"testing"
	"time"

	sdk "github.com/cosmos/cosmos-sdk/types"

	"github.com/comdex-official/comdex/app/wasm/bindings"
	vaulttypes "github.com/comdex-official/comdex/x/vault/types"
)

type c18pVault struct {
	id   uint64
	user sdk.AccAddress
}

func TestC18Pair(t *testing.T) {
	a, base := newApp(t)
	tr := newTracer(t, "c18pair.trace")
	defer tr.close()
	r := newRng(newRng(seed()).next() ^ 0xC18FA1E)
	ncases := envInt("VERIF_CASES", 120)
	only := envInt("VERIF_CASE", -1)
	z := sdk.ZeroDec()
	const now0 = int64(1700000000)
	at := func(ctx sdk.Context, now, h int64) sdk.Context {
		return ctx.WithBlockTime(time.Unix(now, 0).UTC()).WithBlockHeight(h)
	}

	// ---------- fixture ----------
	base = at(base, now0, 10)
	appW := addAppRecord(t, a, base, "cpairw")
	appN := addAppRecord(t, a, base, "cpairn")
	in := addAsset(t, a, base, "CPAIRC", "ucpc", 1000000, true, false)
	out := addAsset(t, a, base, "CPAIRD", "ucpd", 1000000, true, true)
	setPrice(a, base, in, 1000000, true)
	setPrice(a, base, out, 1000000, true)
	pair := addPair(t, a, base, in, out)
	if err := a.Rewardskeeper.WhitelistAppIDVault(base, appW); err != nil {
		t.Fatal(err)
	}
	users := make([]sdk.AccAddress, 6)
	for i := range users {
		users[i] = addrN(40 + i)
		fund(t, a, base, users[i], sdk.NewCoins(sdk.NewCoin("ucpc", sdk.NewInt(4000000000000000000))))
	}
	fees := []string{"0.02", "0.05", "0.000000000000000001", "0.25", "0.9", "0.1"}
	dts := []int64{0, 0, 1, 6, 3600, 86400, 86400, 2592000, 31557600, 63115200}

	for ci := 0; ci < ncases; ci++ {
		// ---- draw the whole case first ----
		wl := !r.chance(8)
		kind := r.intn(10) // 0-3 scripted off/on, 4 directed finding, 5-9 random
		if ci == 0 {
			wl, kind = true, 4
		}
		fee0 := sdk.MustNewDecFromStr(fees[r.intn(len(fees))])
		if kind >= 5 && r.chance(25) {
			fee0 = z
		}
		if ci == 0 {
			fee0 = sdk.MustNewDecFromStr("0.02")
		}
		type op struct {
			k     string
			a, b  int64
			feeIx int
			mode  int
		}
		var ops []op
		adv := func() op { return op{k: "adv", a: dts[r.intn(len(dts))] + int64(r.intn(3))*int64(r.intn(1000)), b: 1 + int64(r.intn(5))} }
		debt := func() int64 { return []int64{1000000, 200000000, 5000000000000, 31}[r.intn(4)] + int64(r.intn(1000)) }
		rndop := func() op {
			switch x := r.intn(100); {
			case x < 25:
				return adv()
			case x < 37:
				return op{k: "create", a: debt()}
			case x < 57:
				return op{k: "calc", a: int64(r.intn(4))}
			case x < 69:
				return op{k: "touch", a: int64(r.intn(4)), b: 0}
			case x < 77:
				return op{k: "touch", a: int64(r.intn(4)), b: 1 + int64(r.intn(100000))}
			default:
				return op{k: "setfee", feeIx: r.intn(len(fees)), mode: r.intn(100)}
			}
		}
		switch {
		case kind <= 3: // fee switched off and on again, vaults touched / not touched in between
			ops = append(ops, op{k: "create", a: debt()}, op{k: "create", a: debt()}, adv(), rndop(), adv(),
				op{k: "setfee", mode: 1000}, adv(), rndop(), op{k: "calc", a: int64(r.intn(2))}, adv(),
				op{k: "setfee", feeIx: r.intn(len(fees)), mode: 1001})
			if r.chance(50) {
				ops = append(ops, adv())
			}
			ops = append(ops, op{k: "calc", a: 0}, op{k: "calc", a: 1}, adv(), op{k: "calc", a: 0}, op{k: "touch", a: 1}, rndop(), rndop())
		case kind == 4: // C18-F2: a vault created (1) / touched (0) while the fee is zero
			ops = append(ops, op{k: "create", a: 200000000}, op{k: "adv", a: 86400, b: 10}, op{k: "setfee", mode: 1000},
				op{k: "adv", a: 86400 * 100, b: 1000}, op{k: "create", a: 200000000}, op{k: "touch", a: 0}, op{k: "create", a: 200000000 + int64(r.intn(1000))},
				op{k: "adv", a: 86400 * 265, b: 1000}, op{k: "setfee", feeIx: 0, mode: 1001}, op{k: "calc", a: 1}, op{k: "calc", a: 0},
				op{k: "adv", a: 86400, b: 10}, op{k: "calc", a: 2}, op{k: "calc", a: 0})
		default:
			n := 8 + r.intn(10)
			for i := 0; i < n; i++ {
				ops = append(ops, rndop())
			}
		}
		if only >= 0 && ci != only {
			continue
		}

		// ---- run it ----
		ctx, _ := base.CacheContext()
		now, h := now0+1000, int64(20)
		ctx = at(ctx, now, h)
		app := appW
		if !wl {
			app = appN
		}
		ext := addExtPair(t, a, ctx, extPairCfg{Name: "CPAIR-X", App: app, Pair: pair, StabilityFee: fee0, ClosingFee: z,
			LiqPenalty: sdk.MustNewDecFromStr("0.1"), DrawDownFee: z, MinCr: sdk.MustNewDecFromStr("1.5"),
			DebtCeiling: sdk.NewInt(1000000000000000000), DebtFloor: sdk.NewInt(1), Stable: false, Active: true, OraclePrice: false,
			AssetOutPrice: 1000000, MinUsdValLeft: 1})
		tr.p("case %d %s %s %d %d", ci, b2s(wl), fee0.BigInt(), now, h)
		var vaults []c18pVault
		times := map[int64]bool{now: true}
		obs := func() {
			pv, _ := a.AssetKeeper.GetPairsVault(ctx, ext)
			tr.p("pair %s %d %d", pv.StabilityFee.BigInt(), pv.BlockTime.Unix(), pv.BlockHeight)
			for i, v := range vaults {
				vd, found := a.VaultKeeper.GetVault(ctx, v.id)
				if !found {
					tr.p("v %d gone", i)
					continue
				}
				trk, tf := a.Rewardskeeper.GetVaultInterestTracker(ctx, v.id, app)
				tv := "0"
				if tf {
					tv = trk.InterestAccumulated.BigInt().String()
				}
				tr.p("v %d %s %s %s %s %d %d", i, vd.AmountOut, vd.InterestAccumulated, b2s(tf), tv, vd.BlockHeight, vd.BlockTime.Unix())
			}
			tr.p("e")
		}
		// the real CalculationOfRewards on everything the next step could select or be bounded by
		oracle := func() {
			pv, _ := a.AssetKeeper.GetPairsVault(ctx, ext)
			ts := make([]int64, 0, len(times))
			for x := range times {
				ts = append(ts, x)
			}
			sort.Slice(ts, func(i, j int) bool { return ts[i] < ts[j] })
			seen := map[string]bool{}
			for _, v := range vaults {
				vd, found := a.VaultKeeper.GetVault(ctx, v.id)
				if !found {
					continue
				}
				for _, p := range []sdk.Int{vd.AmountOut, vd.AmountOut.Add(vd.InterestAccumulated)} {
					for _, bt := range ts {
						key := p.String() + "/" + sdk.NewInt(bt).String()
						if seen[key] {
							continue
						}
						seen[key] = true
						var x sdk.Dec
						var err error
						pan, _ := safely(func() { x, err = a.Rewardskeeper.CalculationOfRewards(ctx, p, pv.StabilityFee, bt) })
						switch {
						case pan:
							tr.p("q %d %d %s %s panic 0", now, bt, p, pv.StabilityFee.BigInt())
						case err != nil:
							tr.p("q %d %d %s %s err 0", now, bt, p, pv.StabilityFee.BigInt())
						default:
							tr.p("q %d %d %s %s ok %s", now, bt, p, pv.StabilityFee.BigInt(), x.BigInt())
						}
					}
				}
			}
		}
		for _, o := range ops {
			oracle()
			switch o.k {
			case "adv":
				now, h = now+o.a, h+o.b
				ctx = at(ctx, now, h)
				times[now] = true
				tr.p("o adv %d %d ok", o.a, o.b)
			case "create":
				if len(vaults) >= len(users) {
					tr.p("o nop ok")
					break
				}
				u := users[len(vaults)]
				cls, _, _ := execMsg(a, ctx, vaulttypes.NewMsgCreateRequest(u, app, ext, sdk.NewInt(o.a).MulRaw(10), sdk.NewInt(o.a)))
				if cls == "ok" {
					m, _ := a.VaultKeeper.GetAppExtendedPairVaultMappingData(ctx, app, ext)
					vaults = append(vaults, c18pVault{id: m.VaultIds[len(m.VaultIds)-1], user: u})
				}
				tr.p("o create %d %s", o.a, cls)
			case "calc", "touch":
				i := int(o.a)
				if i >= len(vaults) {
					tr.p("o nop ok")
					break
				}
				v := vaults[i]
				var cls string
				switch {
				case o.k == "calc":
					cls, _, _ = execMsg(a, ctx, vaulttypes.NewMsgVaultInterestCalcRequest(users[5], app, v.id))
				case o.b == 0:
					cls, _, _ = execMsg(a, ctx, vaulttypes.NewMsgDepositRequest(v.user, app, ext, v.id, sdk.NewInt(1)))
				default:
					cls, _, _ = execMsg(a, ctx, vaulttypes.NewMsgDrawRequest(v.user, app, ext, v.id, sdk.NewInt(o.b)))
				}
				if o.k == "calc" {
					tr.p("o calc %d %s", i, cls)
				} else {
					tr.p("o touch %d %d %s", i, o.b, cls)
				}
			case "setfee":
				pv, _ := a.AssetKeeper.GetPairsVault(ctx, ext)
				cur := pv.StabilityFee
				nf := sdk.MustNewDecFromStr(fees[o.feeIx])
				kindU := ""
				switch {
				case o.mode == 1000:
					nf = z
				case o.mode == 1001:
				case cur.IsZero() && o.mode < 80: // zero -> non-zero
				case cur.IsZero():
					nf = z // zero -> zero
				case o.mode < 40:
					nf = z // non-zero -> zero
				case o.mode < 80:
					if nf.Equal(cur) {
						nf = cur.Add(sdk.MustNewDecFromStr("0.01"))
					}
				default:
					nf = cur // same fee again
				}
				switch {
				case cur.IsZero() && nf.IsZero():
					kindU = "z-z"
				case cur.IsZero():
					kindU = "z-nz"
				case nf.IsZero():
					kindU = "nz-z"
				case nf.Equal(cur):
					kindU = "same"
				default:
					kindU = "nz-nz"
				}
				var err error
				pan, _ := safely(func() {
					cc, write := ctx.CacheContext()
					err = a.AssetKeeper.WasmUpdatePairsVault(cc, &bindings.MsgUpdatePairsVault{AppID: app, ExtPairID: ext, StabilityFee: nf,
						ClosingFee: pv.ClosingFee, LiquidationPenalty: pv.LiquidationPenalty, DrawDownFee: pv.DrawDownFee, IsVaultActive: pv.IsVaultActive,
						MinCr: pv.MinCr, DebtCeiling: pv.DebtCeiling, DebtFloor: pv.DebtFloor, MinUsdValueLeft: pv.MinUsdValueLeft})
					if err == nil {
						write()
					}
				})
				cls := "ok"
				if pan {
					cls = "panic"
				} else if err != nil {
					cls = "err"
				}
				tr.p("o setfee %s %s %s", nf.BigInt(), kindU, cls)
			}
			obs()
		}
	}
}
