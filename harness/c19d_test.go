//go:build verif

package verifharness

// C19, swap-fee distribution denom changes: drives the REAL rewards keeper's InitateGaugesForDuration
// (the 24h duration of the swap-fee gauges) epoch by epoch on the C19 fixture while the liquidity
// parameter SwapFeeDistrDenom of the app is changed between epochs through the liquidity keeper's
// params update (GetGenericParams / SetGenericParams, what the governance proposal handler ends in);
// other gauges funded in the new denom share the custody account.  Every gauge record is dumped with
// the denoms of BOTH its coins (DepositAmount, DistributedAmount); the coin
// TransferFundsForSwapFeeDistribution hands over is recorded with its denom.

import (
	"time"

	sdk "github.com/cosmos/cosmos-sdk/types"

	"github.com/comdex-official/comdex/x/liquidity"
	rewardskeeper "github.com/comdex-official/comdex/x/rewards/keeper"
	rewardstypes "github.com/comdex-official/comdex/x/rewards/types"
	"testing"
)

func (w *c19World) stD() {
	k := w.a.Rewardskeeper
	for i, g := range k.GetAllGauges(w.ctx) {
		w.tr.p("g %d %s %s %d %d %s %s %d %d %d %d", i, g.DepositAmount.Amount, g.DistributedAmount.Amount, g.TriggeredCount, g.TotalTriggers,
			b2s(g.IsActive), b2s(g.ForSwapFee), c19DenomCode(g.DepositAmount.Denom), int64(g.TriggerDuration/time.Second), g.StartTime.Unix(),
			c19DenomCode(g.DistributedAmount.Denom))
	}
	for d := 1; d <= 5; d++ {
		w.tr.p("b %d %s", d, bal(w.a, w.ctx, modAddr(rewardstypes.ModuleName), c19Denoms[d]))
	}
	w.tr.p("end")
}

func (w *c19World) distrDenom() string {
	p, err := w.a.LiquidityKeeper.GetGenericParams(w.ctx, w.fx.appL)
	if err != nil {
		w.t.Fatalf("c19d: params: %v", err)
	}
	return p.SwapFeeDistrDenom
}

// the params update: SwapFeeDistrDenom of the liquidity app
func (w *c19World) opDistrDenom(denom string) {
	p, err := w.a.LiquidityKeeper.GetGenericParams(w.ctx, w.fx.appL)
	if err != nil {
		w.t.Fatalf("c19d: params: %v", err)
	}
	p.SwapFeeDistrDenom = denom
	w.a.LiquidityKeeper.SetGenericParams(w.ctx, p)
	w.tr.p("env distrdenom %d", c19DenomCode(denom))
}

func (w *c19World) opFeesIn(pairIdx int, denom string, amt sdk.Int) {
	p, _ := w.a.LiquidityKeeper.GetPair(w.ctx, w.fx.appL, w.fx.pairs[pairIdx])
	if amt.IsPositive() {
		_ = w.a.BankKeeper.SendCoins(w.ctx, addrN(90), p.GetSwapFeeCollectorAddress(), sdk.NewCoins(sdk.NewCoin(denom, amt)))
	}
	w.tr.p("env fees %d %d %s", pairIdx, c19DenomCode(denom), amt)
}

func (w *c19World) opCreateGaugeD(s c19GaugeSpec) {
	creator := addrN(s.creator)
	have := bal(w.a, w.ctx, creator, s.denom)
	if have.LT(s.dep) {
		fund(w.t, w.a, w.ctx, creator, sdk.NewCoins(sdk.NewCoin(s.denom, s.dep.Sub(have))))
	}
	funds := bal(w.a, w.ctx, creator, s.denom)
	start := w.now.Add(time.Duration(s.startOff) * time.Second)
	msg := rewardstypes.NewMsgCreateGauge(s.app, creator, start, rewardstypes.LiquidityGaugeTypeID, time.Duration(s.durS)*time.Second,
		sdk.Coin{Denom: s.denom, Amount: s.dep}, s.total)
	msg.Kind = &rewardstypes.MsgCreateGauge_LiquidityMetaData{LiquidityMetaData: &rewardstypes.LiquidtyGaugeMetaData{
		PoolId: s.pool, IsMasterPool: false, ChildPoolIds: []uint64{}}}
	class, _, _ := execMsg(w.a, w.ctx, msg)
	w.tr.p("op create %d %s %d %d %d %d %s 1 %s", c19DenomCode(s.denom), s.dep, s.total, start.Unix(), w.now.Unix(), s.durS, funds, class)
	w.stD()
}

func (w *c19World) opDonateD(denom string, amt sdk.Int) {
	if err := w.a.BankKeeper.SendCoinsFromAccountToModule(w.ctx, addrN(90), rewardstypes.ModuleName, sdk.NewCoins(sdk.NewCoin(denom, amt))); err != nil {
		w.t.Fatalf("donate: %v", err)
	}
	w.tr.p("op donate %d %s", c19DenomCode(denom), amt)
	w.stD()
}

// one epoch: InitateGaugesForDuration(24h) on a cache context (kept only when it returns nil, as ApplyFuncIfNoError does)
func (w *c19World) opTriggerD(dt int64) {
	k := w.a.Rewardskeeper
	w.now = w.now.Add(time.Duration(dt) * time.Second)
	w.height++
	w.ctx = w.ctx.WithBlockHeight(w.height).WithBlockTime(w.now)
	liquidity.EndBlocker(w.ctx, w.a.LiquidityKeeper, w.a.AssetKeeper) // queued farmers become active
	w.tr.p("op trigger %d 86400", w.now.Unix())
	dry, _ := w.ctx.CacheContext()
	for i, g := range k.GetAllGauges(w.ctx) {
		if g.TriggerDuration != 86400*time.Second {
			continue
		}
		w.tr.p("farm %d %s", i, w.farmEnv(w.ctx, g))
		if !g.ForSwapFee {
			if g.IsActive && g.TriggeredCount < g.TotalTriggers && g.DepositAmount.Amount.IsUint64() {
				var sp []uint64
				safely(func() { sp = rewardskeeper.SplitTotalAmountPerEpoch(g.DepositAmount.Amount.Uint64(), g.TotalTriggers) })
				if int(g.TriggeredCount) < len(sp) {
					coins := sdk.NewIntFromUint64(sp[g.TriggeredCount])
					line, _, _ := w.calcLine(w.ctx, g, coins)
					w.tr.p("calc %d %s %s", i, coins, line)
				}
			}
			continue
		}
		distOK := true
		if g.DepositAmount.IsPositive() {
			line, sum, ok := w.calcLine(w.ctx, g, g.DepositAmount.Amount)
			w.tr.p("calc %d %s %s", i, g.DepositAmount.Amount, line)
			distOK = ok && !sum.GT(g.DepositAmount.Amount)
		}
		if distOK {
			var rc sdk.Coin
			var err error
			if p, _ := safely(func() {
				rc, err = w.a.LiquidityKeeper.TransferFundsForSwapFeeDistribution(dry, g.AppId, g.GetLiquidityMetaData().PoolId)
			}); p {
				w.tr.p("recv %d panic", i)
			} else if err != nil {
				w.tr.p("recv %d err", i)
			} else {
				w.tr.p("recv %d ok %d %s", i, c19DenomCode(rc.Denom), rc.Amount)
			}
		}
	}
	before := map[[2]int]sdk.Int{}
	for _, n := range c19Watched {
		for d := 1; d <= 5; d++ {
			before[[2]int{n, d}] = bal(w.a, w.ctx, addrN(n), c19Denoms[d])
		}
	}
	cctx, write := w.ctx.CacheContext()
	var err error
	panicked, _ := safely(func() { err = k.InitateGaugesForDuration(cctx, 86400*time.Second) })
	cls := "ok"
	if panicked {
		cls = "panic"
	} else if err != nil {
		cls = "err"
	} else {
		write()
	}
	w.tr.p("res %s", cls)
	for _, n := range c19Watched {
		for d := 1; d <= 5; d++ {
			delta := bal(w.a, w.ctx, addrN(n), c19Denoms[d]).Sub(before[[2]int{n, d}])
			if !delta.IsZero() {
				w.tr.p("pay %d %d %s", d, n, delta)
			}
		}
	}
	w.stD()
}

func c19dAmt(g *rng) sdk.Int {
	switch g.intn(6) {
	case 0:
		return sdk.ZeroInt()
	case 1:
		return sdk.NewInt(int64(1 + g.intn(9)))
	default:
		return sdk.NewInt(int64(1000+g.intn(1000000)) * g.pickI(1, 1, 10))
	}
}

// one case: 5-9 epochs of the 24h gauges; in 3 cases of 5 the distribution denom is changed after the 2nd-4th
// epoch (in a third of those a second time, back or on to a third denom)
func c19Denom(w *c19World, g *rng, change bool) {
	for _, d := range []string{"ucmdx", "ucmst", "uharbor", "uatom"} {
		w.opPrice(d, g.pickU(1000000, 2000000, 500000), true)
	}
	newDenom := []string{"uharbor", "uatom", "ustake"}[g.intn(3)]
	pool := w.fx.pools[0]
	w.opFarm(1, pool, sdk.NewInt(int64(1000+g.intn(1000000))))
	w.opFarm(2, pool, sdk.NewInt(int64(1000+g.intn(1000000))))
	if g.chance(50) {
		w.opFarm(3, w.fx.pools[2], sdk.NewInt(int64(1000+g.intn(100000))))
	}
	// another gauge's money in the NEW denom: not yet started (its whole deposit stays in custody) or running
	total := g.pickU(3, 5, 10)
	dep := sdk.NewIntFromUint64(total).MulRaw(int64(1000 + g.intn(1000000))).AddRaw(int64(g.intn(int(total))))
	startOff := int64(0)
	if g.chance(60) {
		startOff = 3600000
	}
	w.opCreateGaugeD(c19GaugeSpec{denom: newDenom, dep: dep, total: total, startOff: startOff, durS: 86400, app: w.fx.appL, pool: pool, creator: 80})
	if g.chance(40) { // and one in the old denom
		w.opCreateGaugeD(c19GaugeSpec{denom: "ucmdx", dep: sdk.NewInt(int64(5000 + g.intn(500000))), total: 4, durS: g.pickI(86400, 43200),
			app: w.fx.appL, pool: w.fx.pools[g.intn(3)], creator: 80})
	}
	if g.chance(20) {
		w.opDonateD(newDenom, sdk.NewInt(int64(1+g.intn(1000))))
	}
	nb := 5 + g.intn(5)
	at := 2 + g.intn(3)
	second := -1
	if g.chance(34) {
		second = at + 1 + g.intn(2)
	}
	thirdDenom := []string{"ucmdx", "ucmst"}[g.intn(2)]
	for b := 0; b < nb; b++ {
		if change && b == at {
			w.opDistrDenom(newDenom)
		}
		if change && b == second {
			w.opDistrDenom(thirdDenom)
		}
		cur := w.distrDenom()
		w.opFeesIn(0, cur, c19dAmt(g))
		if g.chance(50) {
			w.opFeesIn(2, cur, c19dAmt(g))
		}
		if g.chance(15) { // fees of a denom that is not (or no longer) the distribution denom stay with the collector
			w.opFeesIn(0, "ucmdx", c19dAmt(g))
		}
		if g.chance(15) {
			w.opFarm(1+g.intn(4), pool, sdk.NewInt(int64(1000+g.intn(100000))))
		}
		w.opTriggerD(g.pickI(86400, 86400, 86401, 100000))
	}
}

func TestC19Denom(t *testing.T) {
	a, base := newApp(t)
	tr := newTracer(t, "c19d.trace")
	defer tr.close()
	r := newRng(seed())
	ncases := envInt("VERIF_CASES", 20)
	only := envInt("VERIF_CASE", -1)
	fx := c19Base(t, a, base)
	for ci := 0; ci < ncases; ci++ {
		cs := r.next()
		if only >= 0 && ci != only {
			continue
		}
		g := newRng(cs)
		w := c19NewWorld(t, a, base, tr, fx)
		change := ci%5 < 3
		tr.p("case %d denom %s", ci, b2s(change))
		w.stD()
		c19Denom(w, g, change)
	}
}
