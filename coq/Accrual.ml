open Base
open BinInt
open BinNums
open Datatypes
open DecArith
open F64
open List

(** val coq_SECONDS_PER_YEAR : coq_Z **)

let coq_SECONDS_PER_YEAR =
  Zpos (Coq_xO (Coq_xO (Coq_xO (Coq_xO (Coq_xO (Coq_xI (Coq_xI (Coq_xI
    (Coq_xI (Coq_xI (Coq_xI (Coq_xO (Coq_xO (Coq_xO (Coq_xO (Coq_xI (Coq_xI
    (Coq_xO (Coq_xO (Coq_xO (Coq_xO (Coq_xI (Coq_xI (Coq_xI
    Coq_xH))))))))))))))))))))))))

(** val years_elapsed : coq_Z -> coq_Z **)

let years_elapsed secs =
  dquo_int (dec_of_int secs) coq_SECONDS_PER_YEAR

(** val lend_secs : coq_Z -> coq_Z -> coq_Z **)

let lend_secs now last =
  let prev = if Z.eqb last Z0 then now else last in Z.sub now prev

(** val obind2 : coq_Z option -> (coq_Z -> 'a1 option) -> 'a1 option **)

let obind2 x f =
  match x with
  | Some v -> f v
  | None -> None

(** val index_accrual :
    coq_Z -> coq_Z -> coq_Z -> coq_Z -> (coq_Z * coq_Z) option **)

let index_accrual amt rate gi secs =
  let years = years_elapsed secs in
  let a = dec_of_int amt in
  obind2 (dmul_c rate years) (fun eff ->
    obind2 (dadd_c coq_P18 eff) (fun f1 ->
      obind2 (dmul_c gi f1) (fun igc ->
        obind2 (dquo_c igc gi) (fun f2 ->
          obind2 (dmul_c a f2) (fun liab ->
            obind2 (dsub_c liab a) (fun new0 -> Some (new0, igc)))))))

(** val lend_reward :
    coq_Z -> coq_Z -> coq_Z -> coq_Z -> coq_Z -> (coq_Z * coq_Z) outcome **)

let lend_reward now last amt rate gi =
  let secs = lend_secs now last in
  if Z.ltb secs Z0
  then Err (Zpos Coq_xH)
  else (match index_accrual amt rate gi secs with
        | Some r -> Ok r
        | None -> Panic)

(** val borrow_interest :
    coq_Z -> coq_Z -> coq_Z -> coq_Z -> coq_Z -> coq_Z -> coq_Z ->
    ((coq_Z * coq_Z) * (coq_Z * coq_Z)) outcome **)

let borrow_interest now last amt rate rrate gi rgi =
  let secs = lend_secs now last in
  if Z.ltb secs Z0
  then Err (Zpos Coq_xH)
  else (match index_accrual amt rate gi secs with
        | Some r1 ->
          (match index_accrual amt rrate rgi secs with
           | Some r2 -> Ok (r1, r2)
           | None -> Panic)
        | None -> Panic)

(** val stable_interest :
    coq_Z -> coq_Z -> coq_Z -> coq_Z -> coq_Z outcome **)

let stable_interest now last amt perc =
  let secs = lend_secs now last in
  if Z.ltb secs Z0
  then Err (Zpos Coq_xH)
  else (match obind2 (dmul_c (dec_of_int amt) perc) (fun x ->
                dmul_c x (years_elapsed secs)) with
        | Some r -> Ok r
        | None -> Panic)

(** val carry_step : coq_Z -> coq_Z -> coq_Z * coq_Z **)

let carry_step acc x =
  let a = dadd acc x in
  if Z.leb coq_P18 a
  then let p = dtrunc_int a in (p, (dsub a (dec_of_int p)))
  else (Z0, a)

(** val carry_run : coq_Z -> coq_Z list -> coq_Z * coq_Z **)

let carry_run acc0 xs =
  fold_left (fun st x ->
    let (paid, acc) = st in
    let (p, acc') = carry_step acc x in ((Z.add paid p), acc')) xs (Z0, acc0)

(** val cmp_x : coq_Z -> coq_Z **)

let cmp_x lsr0 =
  to64 (Z.add coq_P18 lsr0)

(** val cmp_y : coq_Z -> coq_Z **)

let cmp_y secs =
  to64 (years_elapsed secs)

(** val cmp_amtf : coq_Z -> coq_Z **)

let cmp_amtf amt =
  to64 (dec_of_int amt)

(** val calculation_of_rewards :
    (coq_Z -> coq_Z -> coq_Z) -> coq_Z -> coq_Z -> coq_Z -> coq_Z -> coq_Z
    outcome **)

let calculation_of_rewards pow now btime amt lsr0 =
  let secs = Z.sub now btime in
  if Z.ltb secs Z0
  then Err (Zpos Coq_xH)
  else (match int64_c amt with
        | Some a ->
          let f = pow (cmp_x lsr0) (cmp_y secs) in
          let acc = sub64 f coq_F_ONE in
          let new0 = mul64 acc (cmp_amtf a) in
          if negb ((&&) (f_finite f) (f_finite new0))
          then Err (Zpos (Coq_xO Coq_xH))
          else let r = fmt18 new0 in
               if fits_dec r then Ok r else Err (Zpos (Coq_xO Coq_xH))
        | None -> Panic)

(** val h1_ok : coq_Z -> coq_Z -> coq_Z -> bool **)

let h1_ok x y f =
  (||) (negb ((&&) (Z.leb coq_F_ONE x) (Z.leb Z0 y))) (Z.leb coq_F_ONE f)

(** val h2_ok : coq_Z -> coq_Z -> bool **)

let h2_ok y f =
  (||) (negb (Z.eqb y Z0)) (Z.eqb f coq_F_ONE)

(** val h3_ok : coq_Z -> coq_Z -> coq_Z -> coq_Z -> coq_Z -> coq_Z -> bool **)

let h3_ok x y f x' y' f' =
  (||)
    (negb
      ((&&) ((&&) ((&&) (Z.leb coq_F_ONE x) (Z.leb x x')) (Z.leb Z0 y))
        (Z.leb y y'))) (Z.leb f f')

(** val h4_ok : coq_Z -> coq_Z -> coq_Z -> coq_Z -> bool **)

let h4_ok en f1 f2 f12 =
  Z.leb (Z.mul (Z.mul f1 f2) coq_F_P53)
    (Z.mul (Z.mul (Z.add coq_F_P53 en) f12) coq_F_ONE)

(** val holds_C18_nonneg : coq_Z -> bool **)

let holds_C18_nonneg result =
  Z.leb Z0 result

(** val holds_C18_zero_time : coq_Z -> coq_Z -> bool **)

let holds_C18_zero_time secs result =
  (||) (negb (Z.eqb secs Z0)) (Z.eqb result Z0)

(** val holds_C18_monotone :
    coq_Z -> coq_Z -> coq_Z -> coq_Z -> coq_Z -> coq_Z -> coq_Z -> coq_Z ->
    bool **)

let holds_C18_monotone a r t res a' r' t' res' =
  (||) (negb ((&&) ((&&) (Z.leb a a') (Z.leb r r')) (Z.leb t t')))
    (Z.leb res res')

(** val idx_slack : coq_Z -> coq_Z -> coq_Z -> coq_Z -> coq_Z **)

let idx_slack amt gi1 gi2 gi12 =
  Z.mul amt
    (Z.add
      (Z.add (Z.add (Zpos (Coq_xO (Coq_xO Coq_xH))) (Z.div coq_HALF18 gi1))
        (Z.div coq_HALF18 gi2)) (Z.div coq_HALF18 gi12))

(** val holds_C18_idx_subadditive :
    coq_Z -> coq_Z -> coq_Z -> coq_Z -> coq_Z -> coq_Z -> coq_Z -> bool **)

let holds_C18_idx_subadditive amt gi1 gi2 gi12 i1 i2 i12 =
  Z.leb (Z.add i1 i2) (Z.add i12 (idx_slack amt gi1 gi2 gi12))

(** val holds_C18_stable_subadditive : coq_Z -> coq_Z -> coq_Z -> bool **)

let holds_C18_stable_subadditive i1 i2 i12 =
  Z.leb (Z.add i1 i2) (Z.add i12 (Zpos Coq_xH))

(** val holds_C18_carry : coq_Z -> coq_Z list -> coq_Z -> coq_Z -> bool **)

let holds_C18_carry acc0 xs paid acc =
  (&&)
    ((&&) (Z.eqb (Z.add (Z.mul paid coq_P18) acc) (Z.add acc0 (zsum xs)))
      (Z.leb Z0 acc)) (Z.ltb acc coq_P18)
