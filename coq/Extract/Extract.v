(* Extraction of the executable models to OCaml.  ExtrOcamlBasic only: bool, option, list, prod,
   unit, sumbool map to OCaml natives; Z, N, positive, nat stay the extracted inductives.
   No Extract Constant / Extract Inductive directive of our own. *)
From Coq Require Import Extraction ExtrOcamlBasic.
From Comdex Require Import Lib.Base Model.Market.
Extraction Language OCaml.
Set Extraction KeepSingleton.
Separate Extraction
  Base.zlen Base.zsum
  Market.update Market.mstep Market.mrun Market.begin_block Market.bb_ops Market.ghost_step
  Market.ghost0 Market.holds_C17_state Market.kf_C17_1 Market.kf_C17_2 Market.get_latest
  Market.price_in_force Market.sget Market.sset.
