open Datatypes

module Nat =
 struct
  (** val eqb : nat -> nat -> bool **)

  let rec eqb n m =
    match n with
    | O -> (match m with
            | O -> true
            | S _ -> false)
    | S n' -> (match m with
               | O -> false
               | S m' -> eqb n' m')
 end
