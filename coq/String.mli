open Ascii

type string =
| EmptyString
| String of ascii * string

val eqb : string -> string -> bool

val append : string -> string -> string
