open BinNat
open BinNums
open BinPos
open Datatypes

module Z =
 struct
  (** val double : coq_Z -> coq_Z **)

  let double = function
  | Z0 -> Z0
  | Zpos p -> Zpos (Coq_xO p)
  | Zneg p -> Zneg (Coq_xO p)

  (** val succ_double : coq_Z -> coq_Z **)

  let succ_double = function
  | Z0 -> Zpos Coq_xH
  | Zpos p -> Zpos (Coq_xI p)
  | Zneg p -> Zneg (Pos.pred_double p)

  (** val pred_double : coq_Z -> coq_Z **)

  let pred_double = function
  | Z0 -> Zneg Coq_xH
  | Zpos p -> Zpos (Pos.pred_double p)
  | Zneg p -> Zneg (Coq_xI p)

  (** val pos_sub : positive -> positive -> coq_Z **)

  let rec pos_sub x y =
    match x with
    | Coq_xI p ->
      (match y with
       | Coq_xI q -> double (pos_sub p q)
       | Coq_xO q -> succ_double (pos_sub p q)
       | Coq_xH -> Zpos (Coq_xO p))
    | Coq_xO p ->
      (match y with
       | Coq_xI q -> pred_double (pos_sub p q)
       | Coq_xO q -> double (pos_sub p q)
       | Coq_xH -> Zpos (Pos.pred_double p))
    | Coq_xH ->
      (match y with
       | Coq_xI q -> Zneg (Coq_xO q)
       | Coq_xO q -> Zneg (Pos.pred_double q)
       | Coq_xH -> Z0)

  (** val add : coq_Z -> coq_Z -> coq_Z **)

  let add x y =
    match x with
    | Z0 -> y
    | Zpos x' ->
      (match y with
       | Z0 -> x
       | Zpos y' -> Zpos (Pos.add x' y')
       | Zneg y' -> pos_sub x' y')
    | Zneg x' ->
      (match y with
       | Z0 -> x
       | Zpos y' -> pos_sub y' x'
       | Zneg y' -> Zneg (Pos.add x' y'))

  (** val opp : coq_Z -> coq_Z **)

  let opp = function
  | Z0 -> Z0
  | Zpos x0 -> Zneg x0
  | Zneg x0 -> Zpos x0

  (** val sub : coq_Z -> coq_Z -> coq_Z **)

  let sub m n =
    add m (opp n)

  (** val mul : coq_Z -> coq_Z -> coq_Z **)

  let mul x y =
    match x with
    | Z0 -> Z0
    | Zpos x' ->
      (match y with
       | Z0 -> Z0
       | Zpos y' -> Zpos (Pos.mul x' y')
       | Zneg y' -> Zneg (Pos.mul x' y'))
    | Zneg x' ->
      (match y with
       | Z0 -> Z0
       | Zpos y' -> Zneg (Pos.mul x' y')
       | Zneg y' -> Zpos (Pos.mul x' y'))

  (** val pow_pos : coq_Z -> positive -> coq_Z **)

  let pow_pos z =
    Pos.iter (mul z) (Zpos Coq_xH)

  (** val pow : coq_Z -> coq_Z -> coq_Z **)

  let pow x = function
  | Z0 -> Zpos Coq_xH
  | Zpos p -> pow_pos x p
  | Zneg _ -> Z0

  (** val compare : coq_Z -> coq_Z -> comparison **)

  let compare x y =
    match x with
    | Z0 -> (match y with
             | Z0 -> Eq
             | Zpos _ -> Lt
             | Zneg _ -> Gt)
    | Zpos x' -> (match y with
                  | Zpos y' -> Pos.compare x' y'
                  | _ -> Gt)
    | Zneg x' ->
      (match y with
       | Zneg y' -> coq_CompOpp (Pos.compare x' y')
       | _ -> Lt)

  (** val leb : coq_Z -> coq_Z -> bool **)

  let leb x y =
    match compare x y with
    | Gt -> false
    | _ -> true

  (** val ltb : coq_Z -> coq_Z -> bool **)

  let ltb x y =
    match compare x y with
    | Lt -> true
    | _ -> false

  (** val geb : coq_Z -> coq_Z -> bool **)

  let geb x y =
    match compare x y with
    | Lt -> false
    | _ -> true

  (** val gtb : coq_Z -> coq_Z -> bool **)

  let gtb x y =
    match compare x y with
    | Gt -> true
    | _ -> false

  (** val eqb : coq_Z -> coq_Z -> bool **)

  let eqb x y =
    match x with
    | Z0 -> (match y with
             | Z0 -> true
             | _ -> false)
    | Zpos p -> (match y with
                 | Zpos q -> Pos.eqb p q
                 | _ -> false)
    | Zneg p -> (match y with
                 | Zneg q -> Pos.eqb p q
                 | _ -> false)

  (** val max : coq_Z -> coq_Z -> coq_Z **)

  let max n m =
    match compare n m with
    | Lt -> m
    | _ -> n

  (** val abs : coq_Z -> coq_Z **)

  let abs = function
  | Zneg p -> Zpos p
  | x -> x

  (** val to_nat : coq_Z -> nat **)

  let to_nat = function
  | Zpos p -> Pos.to_nat p
  | _ -> O

  (** val of_nat : nat -> coq_Z **)

  let of_nat = function
  | O -> Z0
  | S n0 -> Zpos (Pos.of_succ_nat n0)

  (** val of_N : coq_N -> coq_Z **)

  let of_N = function
  | N0 -> Z0
  | Npos p -> Zpos p

  (** val pos_div_eucl : positive -> coq_Z -> coq_Z * coq_Z **)

  let rec pos_div_eucl a b =
    match a with
    | Coq_xI a' ->
      let (q, r) = pos_div_eucl a' b in
      let r' = add (mul (Zpos (Coq_xO Coq_xH)) r) (Zpos Coq_xH) in
      if ltb r' b
      then ((mul (Zpos (Coq_xO Coq_xH)) q), r')
      else ((add (mul (Zpos (Coq_xO Coq_xH)) q) (Zpos Coq_xH)), (sub r' b))
    | Coq_xO a' ->
      let (q, r) = pos_div_eucl a' b in
      let r' = mul (Zpos (Coq_xO Coq_xH)) r in
      if ltb r' b
      then ((mul (Zpos (Coq_xO Coq_xH)) q), r')
      else ((add (mul (Zpos (Coq_xO Coq_xH)) q) (Zpos Coq_xH)), (sub r' b))
    | Coq_xH ->
      if leb (Zpos (Coq_xO Coq_xH)) b
      then (Z0, (Zpos Coq_xH))
      else ((Zpos Coq_xH), Z0)

  (** val div_eucl : coq_Z -> coq_Z -> coq_Z * coq_Z **)

  let div_eucl a b =
    match a with
    | Z0 -> (Z0, Z0)
    | Zpos a' ->
      (match b with
       | Z0 -> (Z0, a)
       | Zpos _ -> pos_div_eucl a' b
       | Zneg b' ->
         let (q, r) = pos_div_eucl a' (Zpos b') in
         (match r with
          | Z0 -> ((opp q), Z0)
          | _ -> ((opp (add q (Zpos Coq_xH))), (add b r))))
    | Zneg a' ->
      (match b with
       | Z0 -> (Z0, a)
       | Zpos _ ->
         let (q, r) = pos_div_eucl a' b in
         (match r with
          | Z0 -> ((opp q), Z0)
          | _ -> ((opp (add q (Zpos Coq_xH))), (sub b r)))
       | Zneg b' -> let (q, r) = pos_div_eucl a' (Zpos b') in (q, (opp r)))

  (** val div : coq_Z -> coq_Z -> coq_Z **)

  let div a b =
    let (q, _) = div_eucl a b in q

  (** val modulo : coq_Z -> coq_Z -> coq_Z **)

  let modulo a b =
    let (_, r) = div_eucl a b in r

  (** val quotrem : coq_Z -> coq_Z -> coq_Z * coq_Z **)

  let quotrem a b =
    match a with
    | Z0 -> (Z0, Z0)
    | Zpos a0 ->
      (match b with
       | Z0 -> (Z0, a)
       | Zpos b0 ->
         let (q, r) = N.pos_div_eucl a0 (Npos b0) in ((of_N q), (of_N r))
       | Zneg b0 ->
         let (q, r) = N.pos_div_eucl a0 (Npos b0) in
         ((opp (of_N q)), (of_N r)))
    | Zneg a0 ->
      (match b with
       | Z0 -> (Z0, a)
       | Zpos b0 ->
         let (q, r) = N.pos_div_eucl a0 (Npos b0) in
         ((opp (of_N q)), (opp (of_N r)))
       | Zneg b0 ->
         let (q, r) = N.pos_div_eucl a0 (Npos b0) in
         ((of_N q), (opp (of_N r))))

  (** val quot : coq_Z -> coq_Z -> coq_Z **)

  let quot a b =
    fst (quotrem a b)

  (** val rem : coq_Z -> coq_Z -> coq_Z **)

  let rem a b =
    snd (quotrem a b)

  (** val even : coq_Z -> bool **)

  let even = function
  | Z0 -> true
  | Zpos p -> (match p with
               | Coq_xO _ -> true
               | _ -> false)
  | Zneg p -> (match p with
               | Coq_xO _ -> true
               | _ -> false)

  (** val odd : coq_Z -> bool **)

  let odd = function
  | Z0 -> false
  | Zpos p -> (match p with
               | Coq_xO _ -> false
               | _ -> true)
  | Zneg p -> (match p with
               | Coq_xO _ -> false
               | _ -> true)

  (** val div2 : coq_Z -> coq_Z **)

  let div2 = function
  | Z0 -> Z0
  | Zpos p -> (match p with
               | Coq_xH -> Z0
               | _ -> Zpos (Pos.div2 p))
  | Zneg p -> Zneg (Pos.div2_up p)

  (** val log2 : coq_Z -> coq_Z **)

  let log2 = function
  | Zpos p0 ->
    (match p0 with
     | Coq_xI p -> Zpos (Pos.size p)
     | Coq_xO p -> Zpos (Pos.size p)
     | Coq_xH -> Z0)
  | _ -> Z0

  (** val shiftl : coq_Z -> coq_Z -> coq_Z **)

  let shiftl a = function
  | Z0 -> a
  | Zpos p -> Pos.iter (mul (Zpos (Coq_xO Coq_xH))) a p
  | Zneg p -> Pos.iter div2 a p

  (** val shiftr : coq_Z -> coq_Z -> coq_Z **)

  let shiftr a n =
    shiftl a (opp n)
 end
