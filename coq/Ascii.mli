open Bool

type ascii =
| Ascii of bool * bool * bool * bool * bool * bool * bool * bool

val eqb : ascii -> ascii -> bool
