open Ascii
open Guards
open String

val handlers : handler list

val helper_rows : (string * item list) list
