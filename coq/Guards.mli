open Ascii
open Atomic
open BinInt
open BinNums
open Datatypes
open List
open String

type guard =
| GEsm
| GEsmCoolOff
| GEsmCoolOffRemains
| GBreaker of string
| GEsmOrBreaker
| GExists of string
| GOwnerEq of string * string
| GKeyedBySigner of string
| GAdmin of string
| GPrice of string
| GPriceCond of string
| GCallErr of string
| GOther of string

type item =
| IGuard of guard
| IWrite of string
| IWriteSigner of string
| IPriceUnchecked of string
| ICallSub of string * bool
| IEarlyOkVia of string
| IEarlyOk of string
| IUnrecognised of string

type price_handling =
| PChecked
| PIgnored
| POther

type price_use = { pu_in : string; pu_callee : string;
                   pu_handling : price_handling }

type handler = { h_module : string; h_name : string; h_msg : string;
                 h_mints : bool; h_ctl_opaque : bool; h_items : item list;
                 h_price : price_use list }

type msg_type = { mt_module : string; mt_name : string;
                  mt_signer : string option; mt_ids : string list;
                  mt_handler : string }

type rung = { r_chain : string; r_addr : string; r_index : nat }

type wasm_row = { w_variant : string; w_handler : string;
                  w_recognised : bool; w_note : string; w_ladder : rung list }

type sweep_gate =
| SkipIfBreaker
| StartOnlyIfNotBreaker
| GateNone
| GateUnrecognised

type sweep_row = { s_name : string; s_gate : sweep_gate; s_esm : bool;
                   s_write_before : bool }

type err_class =
| EUnauthorized
| EBreaker
| EEsm
| ECoolOff
| EControl
| EPrice
| ENotFound
| EOther

val err_code : err_class -> coq_Z

type octx = { c_esm : bool; c_now : coq_Z; c_end : coq_Z; c_breaker : 
              bool; c_owner_ok : (string -> bool);
              c_keyed_found : (string -> bool); c_exists : (string -> bool);
              c_admin : bool; c_price_ok : bool;
              c_call_ok : (string -> bool); c_other_fires : (string -> bool);
              c_branch : (string -> bool) }

val guard_fails : octx -> guard -> err_class option

val lookup_row : string -> (string * item list) list -> item list option

val exec :
  (string -> 'a1 -> 'a1) -> (string * item list) list -> nat -> octx -> item
  list -> 'a1 -> 'a1 run_result

val scan :
  (string * item list) list -> bool -> (guard -> bool) -> nat -> item list ->
  bool

val scan_fuel : nat

val is_owner_guard : guard -> bool

val is_breaker_guard : guard -> bool

val is_esm_guard : guard -> bool

val is_admin_guard : guard -> bool

val first_write_signer : item list -> bool

val price_all_checked : handler -> bool

val no_unchecked_price : item list -> bool

val ladder_accepts : rung list -> string -> string -> bool

val gov_contracts : string -> string list

val named_networks : string list

val wasm_role : string -> nat option

val designated : string -> string -> string option

val sweep_starts : sweep_row -> bool -> bool
