open BinInt
open BinNums

(** val coq_F_ONE : coq_Z **)

let coq_F_ONE =
  Z.pow (Zpos (Coq_xO Coq_xH)) (Zpos (Coq_xO (Coq_xI (Coq_xO (Coq_xO (Coq_xI
    (Coq_xI (Coq_xO (Coq_xO (Coq_xO (Coq_xO Coq_xH)))))))))))

(** val coq_F_P53 : coq_Z **)

let coq_F_P53 =
  Z.pow (Zpos (Coq_xO Coq_xH)) (Zpos (Coq_xI (Coq_xO (Coq_xI (Coq_xO (Coq_xI
    Coq_xH))))))

(** val rne : coq_Z -> coq_Z -> coq_Z **)

let rne a b =
  let q = Z.div a b in
  let r = Z.modulo a b in
  if Z.ltb (Z.mul (Zpos (Coq_xO Coq_xH)) r) b
  then q
  else if Z.gtb (Z.mul (Zpos (Coq_xO Coq_xH)) r) b
       then Z.add q (Zpos Coq_xH)
       else if Z.even q then q else Z.add q (Zpos Coq_xH)

(** val spacing : coq_Z -> coq_Z **)

let spacing i =
  if Z.ltb i coq_F_P53
  then Zpos Coq_xH
  else Z.pow (Zpos (Coq_xO Coq_xH))
         (Z.sub (Z.log2 i) (Zpos (Coq_xO (Coq_xO (Coq_xI (Coq_xO (Coq_xI
           Coq_xH)))))))

(** val rnd64_nn : coq_Z -> coq_Z -> coq_Z **)

let rnd64_nn n d =
  let n0 = Z.mul n coq_F_ONE in
  let s = spacing (Z.div n0 d) in Z.mul (rne n0 (Z.mul d s)) s

(** val rnd64 : coq_Z -> coq_Z -> coq_Z **)

let rnd64 n d =
  if Z.ltb n Z0 then Z.opp (rnd64_nn (Z.opp n) d) else rnd64_nn n d

(** val f_finite : coq_Z -> bool **)

let f_finite v =
  Z.ltb (Z.abs v)
    (Z.pow (Zpos (Coq_xO Coq_xH)) (Zpos (Coq_xO (Coq_xI (Coq_xO (Coq_xO
      (Coq_xI (Coq_xI (Coq_xO (Coq_xO (Coq_xO (Coq_xO (Coq_xO
      Coq_xH)))))))))))))

(** val coq_P18f : coq_Z **)

let coq_P18f =
  Zpos (Coq_xO (Coq_xO (Coq_xO (Coq_xO (Coq_xO (Coq_xO (Coq_xO (Coq_xO
    (Coq_xO (Coq_xO (Coq_xO (Coq_xO (Coq_xO (Coq_xO (Coq_xO (Coq_xO (Coq_xO
    (Coq_xO (Coq_xI (Coq_xO (Coq_xO (Coq_xI (Coq_xI (Coq_xO (Coq_xI (Coq_xI
    (Coq_xI (Coq_xO (Coq_xO (Coq_xI (Coq_xO (Coq_xI (Coq_xI (Coq_xI (Coq_xO
    (Coq_xO (Coq_xI (Coq_xI (Coq_xO (Coq_xI (Coq_xO (Coq_xI (Coq_xI (Coq_xO
    (Coq_xI (Coq_xI (Coq_xO (Coq_xI (Coq_xO (Coq_xO (Coq_xO (Coq_xO (Coq_xO
    (Coq_xI (Coq_xI (Coq_xI (Coq_xI (Coq_xO (Coq_xI
    Coq_xH)))))))))))))))))))))))))))))))))))))))))))))))))))))))))))

(** val to64 : coq_Z -> coq_Z **)

let to64 dec =
  rnd64 dec coq_P18f

(** val sub64 : coq_Z -> coq_Z -> coq_Z **)

let sub64 a b =
  rnd64 (Z.sub a b) coq_F_ONE

(** val mul64 : coq_Z -> coq_Z -> coq_Z **)

let mul64 a b =
  rnd64 (Z.mul a b) (Z.mul coq_F_ONE coq_F_ONE)

(** val fmt18 : coq_Z -> coq_Z **)

let fmt18 v =
  if Z.ltb v Z0
  then Z.opp (rne (Z.mul (Z.opp v) coq_P18f) coq_F_ONE)
  else rne (Z.mul v coq_P18f) coq_F_ONE

(** val floor64 : coq_Z -> coq_Z **)

let floor64 v =
  Z.div v coq_F_ONE
