(* Further facts about the Dec model, used by C18 / C19 (additions to Lib/DecFacts.v, which is
   shared and not edited). *)
From Comdex Require Import Lib.Base Lib.DecArith Lib.DecFacts.
From Coq Require Import ZifyBool.

Lemma chk_dec_some x r : chk_dec x = Some r -> r = x.
Proof. unfold chk_dec. destruct (fits_dec x); congruence. Qed.

Lemma dmul_c_some a b r : dmul_c a b = Some r -> r = dmul a b.
Proof. apply chk_dec_some. Qed.
Lemma dadd_c_some a b r : dadd_c a b = Some r -> r = a + b.
Proof. apply chk_dec_some. Qed.
Lemma dsub_c_some a b r : dsub_c a b = Some r -> r = a - b.
Proof. apply chk_dec_some. Qed.
Lemma dquo_c_some a b r : dquo_c a b = Some r -> b <> 0 /\ r = dquo a b.
Proof.
  unfold dquo_c. destruct (Z.eqb_spec b 0); [discriminate|]. intros H. split; [assumption|].
  apply chk_dec_some; assumption.
Qed.

Lemma dquo_zero b : dquo 0 b = 0.
Proof. unfold dquo. rewrite Z.mul_0_l. replace (Z.quot 0 b) with 0 by (destruct b; reflexivity). change 0 with (0 * P18) at 1. apply chop_round_exact. Qed.

Lemma dquo_self a : 0 < a -> dquo a a = P18.
Proof.
  intros Ha. pose proof P36_eq as E. unfold dquo.
  replace (a * P36) with (P36 * a) by lia. rewrite Z.quot_mul by lia. rewrite E. apply chop_round_exact.
Qed.

Lemma dquo_le_one a b : 0 <= a -> a <= b -> 0 < b -> dquo a b <= P18.
Proof. intros. rewrite <- (dquo_self b) by lia. apply dquo_mono_l; lia. Qed.

Lemma dquo_ge_one a b : 0 < b -> b <= a -> P18 <= dquo a b.
Proof. intros. rewrite <- (dquo_self b) by lia. apply dquo_mono_l; lia. Qed.

(* multiplying by a factor <= 1 never increases, by a factor >= 1 never decreases (grid lemma) *)
Lemma dmul_le_l a s : 0 <= s -> a <= P18 -> dmul a s <= s.
Proof. intros. unfold dmul. apply chop_round_le_grid. nia. Qed.
Lemma dmul_le_r s a : 0 <= s -> a <= P18 -> dmul s a <= s.
Proof. intros. rewrite dmul_comm. apply dmul_le_l; assumption. Qed.
Lemma dmul_ge_r s a : 0 <= s -> P18 <= a -> s <= dmul s a.
Proof. intros. unfold dmul. apply chop_round_ge_grid. nia. Qed.

Lemma dmul_zero_l d : dmul 0 d = 0.
Proof. rewrite dmul_comm. apply dmul_zero_r. Qed.

(* the quotient is within (1 + HALF18/b) units of a target f when the numerator is within
   HALF18 of b*f/10^18: the error analysis of  Quo(Mul(b, f), b)  *)
Lemma dquo_dmul_cancel b f : 0 < b -> 0 <= f ->
  let F := dquo (dmul b f) b in
  F - f <= 1 + HALF18 / b /\ f - F <= 1 + HALF18 / b.
Proof.
  intros Hb Hf F. dec_consts.
  pose proof (dmul_bounds b f) as Bm. pose proof (dmul_nonneg b f ltac:(lia) Hf) as Nm.
  pose proof (dquo_bounds (dmul b f) b Nm Hb) as Bq. fold F in Bq.
  set (m := dmul b f) in *.
  split.
  - assert ((F - f - 1) * b <= HALF18) by nia.
    assert (F - f - 1 <= HALF18 / b) by (apply Z.div_le_lower_bound; lia). lia.
  - assert ((f - F - 1) * b <= HALF18) by nia.
    assert (f - F - 1 <= HALF18 / b) by (apply Z.div_le_lower_bound; lia). lia.
Qed.
