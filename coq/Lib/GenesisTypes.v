(* Row types of the regenerated genesis table (coq/Gen/GenesisTable.v, written by
   tools/goextract/emit_genesis.go).  Definitions only. *)
From Coq Require Import List ZArith String.
Import ListNotations.
Open Scope Z_scope.

(* shape of the arguments of a keeper setter called by InitGenesis *)
Inductive argkind : Type :=
| AFields                (* every argument is taken from GenesisState fields (the row lists them) *)
| AMax (field : string)  (* a local variable: running maximum of an id over the exported list [field] *)
| ALast (field : string) (* a local variable: the id of the last element of the exported list *)
| ACount (field : string)(* a local variable: the number of elements of the exported list *)
| AConst                 (* a literal, or a local variable that is never assigned (zero) *)
| AUnrec (what : string).

(* one declared store prefix of a module; byte 256 is the pseudo prefix of the parameter subspace *)
Record prefix_row := mkP {
  p_mod : string; p_name : string; p_byte : Z; p_counter : bool;
  p_writers : list string; p_deleters : list string }.

(* ExportGenesis: GenesisState field <- keeper getter; reads = (prefix, stored value looked at) *)
Record export_row := mkE {
  e_mod : string; e_field : string; e_getter : string; e_reads : list (Z * bool) }.

(* InitGenesis: a keeper setter call (in source order), the fields its arguments derive from, the
   prefixes it writes, and what happens when the setter returns an error: 0 it cannot (no non-nil
   error return), 1 InitGenesis returns - everything after it is skipped, 2 the item is dropped;
   3 / 4: as 1 / 2, but every failing return of the setter is guarded by a condition over the
   imported item alone (collector.SetNetFeeCollectedData: the fee is negative), not over other state *)
Record import_row := mkI {
  i_mod : string; i_setter : string; i_fields : list string; i_writes : list Z; i_arg : argkind;
  i_guard : Z }.

(* a setter of InitGenesis whose error depends on OTHER state (guard 1 / 2): [g_sole] every keeper
   function writing one of its prefixes is the setter itself or reached from it; [g_noreads] it
   reads nothing of its own module's store; [g_foreign] the methods it calls on other modules'
   keepers (module, method, prefixes that method reads there; module "?" when not a DeFi keeper) *)
Record guard_row := mkGD {
  g_mod : string; g_setter : string; g_sole : bool; g_noreads : bool;
  g_foreign : list (string * string * list Z) }.

Record unrec_row := mkU { u_mod : string; u_what : string }.

(* ---- (7) what the genesis VALIDATION reads (types.GenesisState.Validate / types.ValidateGenesis,
   run by AppModuleBasic.ValidateGenesis and - liquidity - by InitGenesis itself, which panics on its
   error).  Written by tools/goextract/emit_genesis_validate.go. *)

(* an entry point that runs the validation: [ve_entry] "InitGenesis" | "ValidateGenesis", the Go
   function, the validator it calls, what it does with the error ("panic" | "return" | "ignored") *)
Record val_entry := mkVE {
  ve_mod : string; ve_entry : string; ve_func : string; ve_validator : string; ve_reaction : string }.

(* a collection of the genesis state the validation ranges over: path "<Kind>.<Field>", kind of its
   items, and the collection the loop is nested in ("" at top level) *)
Record val_coll := mkVC { vc_mod : string; vc_coll : string; vc_kind : string; vc_parent : string }.

(* an item validator `x.Validate()` (a method without parameters: a condition over x alone), called
   inside the loop over [vi_coll] on the record / field [vi_path] *)
Record val_item := mkVI { vi_mod : string; vi_coll : string; vi_path : string; vi_callee : string }.

(* a map the validation builds: kind of the records it holds ("" for a duplicate-detection set) and
   the nesting depth of the map type *)
Record val_map := mkVM { vm_mod : string; vm_name : string; vm_kind : string; vm_depth : Z }.

(* one access of such a map inside the loop over [vx_coll]: the map, the kind of record it holds,
   the kind of the record whose field(s) form the key, where that record came from ("item:<coll>" the
   item of the loop, "map:<name>" fetched from another map, "root"), the key field(s), and the access:
   "populate" m[k] = record | "exists" _, ok := m[k] | "fetch" v := m[k] | "fetch-checked" v, ok := m[k]
   | "inner" / "init-inner" / "insert" for the nested duplicate sets *)
Record val_xref := mkVX {
  vx_mod : string; vx_coll : string; vx_map : string; vx_kind : string; vx_owner : string; vx_from : string;
  vx_keys : list string; vx_how : string }.

(* a condition of the validation and the fields it compares: "reject" `if c { return error }`,
   "guard" `if c { ...more checks... }`, "switch" *)
Record val_check := mkVK { vk_mod : string; vk_coll : string; vk_how : string; vk_fields : list string }.
