(* Row types of the regenerated genesis table (coq/Gen/GenesisTable.v, written by
   tools/goextract/emit_genesis.go).  Definitions only. *)
From Coq Require Import List ZArith String.
Import ListNotations.
Open Scope Z_scope.

(* shape of the arguments of a keeper setter called by InitGenesis *)
Inductive argkind : Type :=
| AFields                (* every argument is taken from GenesisState fields (the row lists them) *)
| AMax (field : string)  (* a local variable: running maximum of an id over the exported list [field] *)
| ALast (field : string) (* a local variable: the id of the last element of the exported list *)
| ACount (field : string)(* a local variable: the number of elements of the exported list *)
| AConst                 (* a literal, or a local variable that is never assigned (zero) *)
| AUnrec (what : string).

(* one declared store prefix of a module; byte 256 is the pseudo prefix of the parameter subspace *)
Record prefix_row := mkP {
  p_mod : string; p_name : string; p_byte : Z; p_counter : bool;
  p_writers : list string; p_deleters : list string }.

(* ExportGenesis: GenesisState field <- keeper getter; reads = (prefix, stored value looked at) *)
Record export_row := mkE {
  e_mod : string; e_field : string; e_getter : string; e_reads : list (Z * bool) }.

(* InitGenesis: a keeper setter call (in source order), the fields its arguments derive from, the
   prefixes it writes, and what happens when the setter returns an error: 0 it cannot (no non-nil
   error return), 1 InitGenesis returns - everything after it is skipped, 2 the item is dropped;
   3 / 4: as 1 / 2, but every failing return of the setter is guarded by a condition over the
   imported item alone (collector.SetNetFeeCollectedData: the fee is negative), not over other state *)
Record import_row := mkI {
  i_mod : string; i_setter : string; i_fields : list string; i_writes : list Z; i_arg : argkind;
  i_guard : Z }.

(* a setter of InitGenesis whose error depends on OTHER state (guard 1 / 2): [g_sole] every keeper
   function writing one of its prefixes is the setter itself or reached from it; [g_noreads] it
   reads nothing of its own module's store; [g_foreign] the methods it calls on other modules'
   keepers (module, method, prefixes that method reads there; module "?" when not a DeFi keeper) *)
Record guard_row := mkGD {
  g_mod : string; g_setter : string; g_sole : bool; g_noreads : bool;
  g_foreign : list (string * string * list Z) }.

Record unrec_row := mkU { u_mod : string; u_what : string }.
