(* Facts about the Dec model that every property reuses.  Constants are kept abstract in the
   proofs (only P18 = 2*HALF18 > 0 is used), so lia/nia never see 19-digit numerals. *)
From Comdex Require Import Lib.Base Lib.DecArith.
From Coq Require Import ZifyBool.

Lemma P18_pos : 0 < P18. Proof. reflexivity. Qed.
Lemma P18_half : P18 = 2 * HALF18. Proof. reflexivity. Qed.
Lemma HALF18_pos : 0 < HALF18. Proof. reflexivity. Qed.
Lemma P36_eq : P36 = P18 * P18. Proof. reflexivity. Qed.
Lemma P36_pos : 0 < P36. Proof. reflexivity. Qed.

Global Opaque P18 HALF18 P36.

Ltac dec_consts :=
  pose proof P18_pos; pose proof P18_half; pose proof HALF18_pos.

(* ---------- chop_round on non-negatives ---------- *)
Lemma chop_round_nn_bounds x : 0 <= x ->
  let q := chop_round_nn x in
  0 <= q /\ - HALF18 <= q * P18 - x <= HALF18.
Proof.
  intros Hx. dec_consts. cbv zeta. unfold chop_round_nn.
  pose proof (Z.div_mod x P18 ltac:(lia)) as Hdm.
  pose proof (Z.mod_pos_bound x P18 ltac:(lia)) as Hmb.
  assert (0 <= x / P18) by (apply Z.div_pos; lia).
  destruct (Z.eqb_spec (x mod P18) 0); [nia|].
  destruct (Z.ltb_spec (x mod P18) HALF18); [nia|].
  destruct (Z.gtb_spec (x mod P18) HALF18); [nia|].
  destruct (Z.even (x / P18)); nia.
Qed.

Lemma chop_round_nn_exact k : 0 <= k -> chop_round_nn (k * P18) = k.
Proof.
  intros Hk. dec_consts. unfold chop_round_nn.
  rewrite Z.mod_mul by lia. rewrite Z.div_mul by lia. reflexivity.
Qed.

Lemma chop_round_nn_mono x y : 0 <= x -> x <= y -> chop_round_nn x <= chop_round_nn y.
Proof.
  intros Hx Hxy. dec_consts.
  destruct (Z.eq_dec (x / P18) (y / P18)) as [Heq|Hne].
  - (* same quotient: compare remainders *)
    unfold chop_round_nn. rewrite <- Heq.
    pose proof (Z.div_mod x P18 ltac:(lia)). pose proof (Z.div_mod y P18 ltac:(lia)).
    pose proof (Z.mod_pos_bound x P18 ltac:(lia)). pose proof (Z.mod_pos_bound y P18 ltac:(lia)).
    assert (x mod P18 <= y mod P18) by nia.
    destruct (Z.eqb_spec (x mod P18) 0); destruct (Z.eqb_spec (y mod P18) 0);
      destruct (Z.ltb_spec (x mod P18) HALF18); destruct (Z.ltb_spec (y mod P18) HALF18);
      destruct (Z.gtb_spec (x mod P18) HALF18); destruct (Z.gtb_spec (y mod P18) HALF18);
      destruct (Z.even (x / P18)); lia.
  - assert (x / P18 <= y / P18) by (apply Z.div_le_mono; lia).
    assert (x / P18 + 1 <= y / P18) by lia.
    pose proof (chop_round_nn_bounds x Hx) as [_ Bx]. pose proof (chop_round_nn_bounds y ltac:(lia)) as [_ By].
    (* chop x <= x/P18 + 1 <= y/P18 <= chop y *)
    assert (chop_round_nn x <= x / P18 + 1).
    { unfold chop_round_nn. destruct (_ =? 0); [lia|]. destruct (_ <? _); [lia|].
      destruct (_ >? _); [lia|]. destruct (Z.even _); lia. }
    assert (y / P18 <= chop_round_nn y).
    { unfold chop_round_nn. destruct (_ =? 0); [lia|]. destruct (_ <? _); [lia|].
      destruct (_ >? _); [lia|]. destruct (Z.even _); lia. }
    lia.
Qed.

(* ---------- chop_round on all integers ---------- *)
Lemma chop_round_nonneg x : 0 <= x -> chop_round x = chop_round_nn x.
Proof. intros; unfold chop_round. destruct (Z.ltb_spec x 0); [lia|reflexivity]. Qed.

Lemma chop_round_neg x : x < 0 -> chop_round x = - chop_round_nn (- x).
Proof. intros; unfold chop_round. destruct (Z.ltb_spec x 0); [reflexivity|lia]. Qed.

Lemma chop_round_bounds x : - HALF18 <= chop_round x * P18 - x <= HALF18.
Proof.
  destruct (Z.lt_ge_cases x 0).
  - rewrite chop_round_neg by lia. pose proof (chop_round_nn_bounds (- x) ltac:(lia)) as [_ B]. lia.
  - rewrite chop_round_nonneg by lia. pose proof (chop_round_nn_bounds x ltac:(lia)) as [_ B]. lia.
Qed.

Lemma chop_round_sign x : 0 <= x -> 0 <= chop_round x.
Proof. intros; rewrite chop_round_nonneg by lia. apply chop_round_nn_bounds; lia. Qed.

Lemma chop_round_exact k : chop_round (k * P18) = k.
Proof.
  dec_consts. destruct (Z.lt_ge_cases k 0).
  - rewrite chop_round_neg by nia. replace (- (k * P18)) with ((- k) * P18) by lia.
    rewrite chop_round_nn_exact by lia. lia.
  - rewrite chop_round_nonneg by nia. apply chop_round_nn_exact; lia.
Qed.

Lemma chop_round_mono x y : x <= y -> chop_round x <= chop_round y.
Proof.
  intros Hxy. destruct (Z.lt_ge_cases x 0); destruct (Z.lt_ge_cases y 0).
  - rewrite !chop_round_neg by lia. pose proof (chop_round_nn_mono (- y) (- x) ltac:(lia) ltac:(lia)). lia.
  - rewrite chop_round_neg, chop_round_nonneg by lia.
    pose proof (chop_round_nn_bounds (- x) ltac:(lia)) as [? _].
    pose proof (chop_round_nn_bounds y ltac:(lia)) as [? _]. lia.
  - lia.
  - rewrite !chop_round_nonneg by lia. apply chop_round_nn_mono; lia.
Qed.

(* grid lemma: rounding half-even never crosses a grid point *)
Lemma chop_round_le_grid x k : x <= k * P18 -> chop_round x <= k.
Proof. intros H. rewrite <- (chop_round_exact k). apply chop_round_mono; exact H. Qed.
Lemma chop_round_ge_grid x k : k * P18 <= x -> k <= chop_round x.
Proof. intros H. rewrite <- (chop_round_exact k). apply chop_round_mono; exact H. Qed.

(* ---------- truncation / round-up ---------- *)
Lemma chop_trunc_nn x : 0 <= x -> chop_trunc x = x / P18.
Proof. intros; unfold chop_trunc. dec_consts. apply Z.quot_div_nonneg; lia. Qed.

Lemma chop_trunc_bounds x : 0 <= x -> 0 <= chop_trunc x /\ chop_trunc x * P18 <= x < (chop_trunc x + 1) * P18.
Proof.
  intros Hx. dec_consts. rewrite chop_trunc_nn by lia.
  pose proof (Z.div_mod x P18 ltac:(lia)). pose proof (Z.mod_pos_bound x P18 ltac:(lia)).
  assert (0 <= x / P18) by (apply Z.div_pos; lia). nia.
Qed.

Lemma chop_trunc_mono x y : 0 <= x -> x <= y -> chop_trunc x <= chop_trunc y.
Proof. intros. dec_consts. rewrite !chop_trunc_nn by lia. apply Z.div_le_mono; lia. Qed.

Lemma chop_round_up_bounds x : 0 <= x ->
  x <= chop_round_up x * P18 < x + P18.
Proof.
  intros Hx. dec_consts. unfold chop_round_up. destruct (Z.ltb_spec x 0); [lia|].
  pose proof (Z.div_mod x P18 ltac:(lia)). pose proof (Z.mod_pos_bound x P18 ltac:(lia)).
  destruct (Z.eqb_spec (x mod P18) 0); nia.
Qed.

Lemma chop_trunc_le_round x : 0 <= x -> chop_trunc x <= chop_round x <= chop_trunc x + 1.
Proof.
  intros Hx. dec_consts. rewrite chop_trunc_nn, chop_round_nonneg by lia. unfold chop_round_nn.
  destruct (_ =? 0); [lia|]. destruct (_ <? _); [lia|]. destruct (_ >? _); [lia|]. destruct (Z.even _); lia.
Qed.

(* ---------- Dec operations on non-negative operands ---------- *)
Lemma dmul_nonneg a b : 0 <= a -> 0 <= b -> 0 <= dmul a b.
Proof. intros; unfold dmul; apply chop_round_sign; nia. Qed.

Lemma dmul_mono_l a a' b : 0 <= b -> a <= a' -> dmul a b <= dmul a' b.
Proof. intros; unfold dmul; apply chop_round_mono; nia. Qed.
Lemma dmul_mono_r a b b' : 0 <= a -> b <= b' -> dmul a b <= dmul a b'.
Proof. intros; unfold dmul; apply chop_round_mono; nia. Qed.

Lemma dmul_bounds a b : - HALF18 <= dmul a b * P18 - a * b <= HALF18.
Proof. unfold dmul. apply chop_round_bounds. Qed.

(* multiplying by an integer-valued Dec is exact *)
Lemma dmul_int_exact i d : dmul (dec_of_int i) d = i * d.
Proof. unfold dmul, dec_of_int. replace (i * P18 * d) with ((i * d) * P18) by lia. apply chop_round_exact. Qed.
Lemma dmul_int_exact_r i d : dmul d (dec_of_int i) = d * i.
Proof. unfold dmul, dec_of_int. replace (d * (i * P18)) with ((d * i) * P18) by lia. apply chop_round_exact. Qed.
Lemma dmul_one d : dmul d P18 = d.
Proof. unfold dmul. apply chop_round_exact. Qed.
Lemma dmul_zero_r d : dmul d 0 = 0.
Proof. unfold dmul. rewrite Z.mul_0_r. change 0 with (0 * P18) at 1. apply chop_round_exact. Qed.
Lemma dmul_comm a b : dmul a b = dmul b a.
Proof. unfold dmul. rewrite Z.mul_comm. reflexivity. Qed.

Lemma dtrunc_of_int i : dtrunc_int (dec_of_int i) = i.
Proof. unfold dtrunc_int, dec_of_int. dec_consts. apply Z.quot_mul; lia. Qed.

Lemma dmul_trunc_bounds a b : 0 <= a -> 0 <= b ->
  0 <= dmul_trunc a b /\ dmul_trunc a b * P18 <= a * b < (dmul_trunc a b + 1) * P18.
Proof. intros; unfold dmul_trunc; apply chop_trunc_bounds; nia. Qed.

Lemma dtrunc_int_bounds a : 0 <= a -> 0 <= dtrunc_int a /\ dtrunc_int a * P18 <= a < (dtrunc_int a + 1) * P18.
Proof. intros; apply (chop_trunc_bounds a); assumption. Qed.

Lemma dtrunc_int_mono a b : 0 <= a -> a <= b -> dtrunc_int a <= dtrunc_int b.
Proof. intros; apply chop_trunc_mono; assumption. Qed.

(* quotient: t = floor(a * 10^36 / b) for a >= 0, b > 0 *)
Lemma quo_raw_bounds a b : 0 <= a -> 0 < b ->
  let t := Z.quot (a * P36) b in 0 <= t /\ t * b <= a * P36 < (t + 1) * b.
Proof.
  intros Ha Hb. pose proof P36_pos. cbv zeta.
  rewrite Z.quot_div_nonneg by nia.
  pose proof (Z.div_mod (a * P36) b ltac:(lia)). pose proof (Z.mod_pos_bound (a * P36) b ltac:(lia)).
  assert (0 <= a * P36 / b) by (apply Z.div_pos; nia). nia.
Qed.

Lemma dquo_nonneg a b : 0 <= a -> 0 < b -> 0 <= dquo a b.
Proof. intros; unfold dquo; apply chop_round_sign. apply quo_raw_bounds; assumption. Qed.

Lemma dquo_trunc_nonneg a b : 0 <= a -> 0 < b -> 0 <= dquo_trunc a b.
Proof. intros; unfold dquo_trunc. apply chop_trunc_bounds. apply quo_raw_bounds; assumption. Qed.

Lemma quo_raw_mono_l a a' b : 0 <= a -> a <= a' -> 0 < b -> Z.quot (a * P36) b <= Z.quot (a' * P36) b.
Proof.
  intros. pose proof P36_pos. rewrite !Z.quot_div_nonneg by nia. apply Z.div_le_mono; nia.
Qed.

Lemma quo_raw_anti_r a b b' : 0 <= a -> 0 < b -> b <= b' -> Z.quot (a * P36) b' <= Z.quot (a * P36) b.
Proof.
  intros. pose proof P36_pos. rewrite !Z.quot_div_nonneg by nia. apply Z.div_le_compat_l; nia.
Qed.

Lemma dquo_mono_l a a' b : 0 <= a -> a <= a' -> 0 < b -> dquo a b <= dquo a' b.
Proof. intros; unfold dquo; apply chop_round_mono; apply quo_raw_mono_l; assumption. Qed.
Lemma dquo_anti_r a b b' : 0 <= a -> 0 < b -> b <= b' -> dquo a b' <= dquo a b.
Proof. intros; unfold dquo; apply chop_round_mono; apply quo_raw_anti_r; assumption. Qed.
Lemma dquo_trunc_mono_l a a' b : 0 <= a -> a <= a' -> 0 < b -> dquo_trunc a b <= dquo_trunc a' b.
Proof.
  intros; unfold dquo_trunc; apply chop_trunc_mono; [apply quo_raw_bounds; assumption|].
  apply quo_raw_mono_l; assumption.
Qed.

(* Quo is within one unit (10^-18) of the exact quotient: |dquo a b * b - a * P18| <= b *)
Lemma dquo_bounds a b : 0 <= a -> 0 < b ->
  - b <= dquo a b * b - a * P18 <= b.
Proof.
  intros Ha Hb. dec_consts. pose proof P36_eq.
  pose proof (quo_raw_bounds a b Ha Hb) as (Ht0 & Ht1 & Ht2). cbv zeta in *.
  unfold dquo. set (t := Z.quot (a * P36) b) in *.
  pose proof (chop_round_bounds t) as Hr. set (q := chop_round t) in *.
  (* q*P18 in [t - H, t + H]; t*b in (a*P36 - b, a*P36] *)
  split.
  - (* q*b*P18 >= (t - H) * b >= a*P36 - b - H*b  =>  q*b >= a*P18 - b (integers) *)
    assert (q * P18 * b >= a * P36 - b - HALF18 * b) by nia.
    assert ((q * b - a * P18 + b) * P18 > - P18) by nia. nia.
  - assert (q * P18 * b <= a * P36 + HALF18 * b) by nia.
    assert ((q * b - a * P18 - b) * P18 < 0) by nia. nia.
Qed.

Lemma dquo_trunc_bounds a b : 0 <= a -> 0 < b ->
  dquo_trunc a b * b <= a * P18 < (dquo_trunc a b + 1) * b.
Proof.
  intros Ha Hb. dec_consts. pose proof P36_eq.
  pose proof (quo_raw_bounds a b Ha Hb) as (Ht0 & Ht1 & Ht2). cbv zeta in *.
  unfold dquo_trunc. set (t := Z.quot (a * P36) b) in *.
  pose proof (chop_trunc_bounds t Ht0) as (Hq0 & Hq1 & Hq2). set (q := chop_trunc t) in *.
  split.
  - assert (q * P18 * b <= a * P36) by nia. nia.
  - assert ((q + 1) * P18 * b > a * P36) by nia. nia.
Qed.

Lemma dquo_self_int i : 0 < i -> dquo (dec_of_int i) (dec_of_int i) = P18.
Proof.
  intros Hi. dec_consts. pose proof P36_eq. unfold dquo, dec_of_int.
  replace (i * P18 * P36) with (P36 * (i * P18)) by lia.
  rewrite Z.quot_mul by nia. rewrite H2. apply chop_round_exact.
Qed.

(* dividing two integer-valued Decs: floor-ish of i*10^18/j, rounded half-even at 10^-18 *)
Lemma dquo_ints_raw i j : 0 <= i -> 0 < j ->
  Z.quot (dec_of_int i * P36) (dec_of_int j) = (i * P36) / j.
Proof.
  intros Hi Hj. dec_consts. pose proof P36_pos. unfold dec_of_int.
  rewrite Z.quot_div_nonneg by nia.
  replace (i * P18 * P36) with ((i * P36) * P18) by lia.
  replace (j * P18) with (j * P18) by lia.
  rewrite Z.div_mul_cancel_r by lia. reflexivity.
Qed.
