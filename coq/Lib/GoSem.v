(* Tie (C): the small vocabulary the Go->Gallina translator (tools/goextract/emit_purefuns.go)
   writes coq/Gen/PureFuns.v in.  Every generated definition is a term over Lib/Base.v,
   Lib/DecArith.v and the combinators below, nothing else.  Definitions only (plus the sealed
   [Unrecognised]).

   RESULT OF A GO EVALUATION.  A generated term has type [outcome A] (Lib/Base.v):
     Ok v    the Go code returned normally with value(s) v
     Err 0   the Go code panicked with a value that utils.IsOverflow (/repo types/utils.go:225)
             accepts: a string that contains "overflow" or ends in "out of bound" (lower-cased)
     Panic   the Go code panicked with any other value
   The distinction is needed because utils.SafeMath(f, onOverflow) (types/utils.go:211) recovers
   the first class only.  This is the same convention Model/Pool.v uses inside a SafeMath body.
   A Go [error] RESULT is not an [Err]: it is an ordinary value of type Z (0 = nil), see the
   translator documentation docs/TIE_C.md.

   Which class each cosmossdk.io/math v1.1.2 panic belongs to (read off int.go / dec.go):
     "Int overflow"                      int.go:242,257,271,276  dec.go:267..  -> Err 0
     "NewIntFromBigInt() out of bound"   int.go:115 (TruncateInt, RoundInt)    -> Err 0
     "Int64() out of bound"              int.go:167  dec.go:689,715            -> Err 0
     "Uint64() out of bounds"            int.go:181   (ends in "bounds")       -> Panic
     "Division by zero" / "division-by-zero"  int.go:290,303                   -> Panic
     math/big division by zero (run-time error, not a string)  Dec.Quo*        -> Panic
     nil *big.Int dereference (run-time error)                                 -> Panic *)
From Coq Require Import String.
From Comdex Require Import Lib.Base Lib.DecArith.

Definition lift_ovf (o : option Z) : outcome Z :=
  match o with Some v => Ok v | None => Err 0 end.
Definition lift_pan (o : option Z) : outcome Z :=
  match o with Some v => Ok v | None => Panic end.

(* ---------------- LegacyDec (dec.go) ---------------- *)
(* Add/Sub/Mul/MulTruncate/MulRoundUp/MulInt/MulInt64: compute, then BitLen > 315 panics "Int overflow" *)
Definition g_dadd (a b : Z) : outcome Z := lift_ovf (dadd_c a b).
Definition g_dsub (a b : Z) : outcome Z := lift_ovf (dsub_c a b).
Definition g_dmul (a b : Z) : outcome Z := lift_ovf (dmul_c a b).
Definition g_dmul_trunc (a b : Z) : outcome Z := lift_ovf (dmul_trunc_c a b).
Definition g_dmul_up (a b : Z) : outcome Z := lift_ovf (chk_dec (dmul_up a b)).
Definition g_dmul_int (a i : Z) : outcome Z := lift_ovf (dmul_int_c a i).
(* Quo/QuoTruncate/QuoRoundUp: big.Int.Quo panics on a zero divisor (run-time error, re-raised by
   SafeMath), then the 315-bit check *)
Definition g_dquo (a b : Z) : outcome Z :=
  if b =? 0 then Panic else lift_ovf (chk_dec (dquo a b)).
Definition g_dquo_trunc (a b : Z) : outcome Z :=
  if b =? 0 then Panic else lift_ovf (chk_dec (dquo_trunc a b)).
Definition g_dquo_up (a b : Z) : outcome Z :=
  if b =? 0 then Panic else lift_ovf (chk_dec (dquo_up a b)).
(* QuoInt/QuoInt64: big.Int.Quo only, no size check (dec.go:425,435) *)
Definition g_dquo_int (a i : Z) : outcome Z :=
  if i =? 0 then Panic else Ok (Z.quot a i).
(* TruncateInt/RoundInt: NewIntFromBigInt checks 256 bits; TruncateInt64/RoundInt64: IsInt64 *)
Definition g_dtrunc_int (a : Z) : outcome Z := lift_ovf (dtrunc_int_c a).
Definition g_dround_int (a : Z) : outcome Z := lift_ovf (dround_int_c a).
Definition g_dtrunc_i64 (a : Z) : outcome Z := lift_ovf (int64_c (dtrunc_int a)).
Definition g_dround_i64 (a : Z) : outcome Z := lift_ovf (int64_c (dround_int a)).
(* TruncateDec: NewDecFromBigInt(chop), unchecked *)
Definition dtrunc_dec (a : Z) : Z := dec_of_int (dtrunc_int a).
(* Power: PowerMut (dec.go:507); every MulMut inside checks 315 bits - only the check of the
   RESULT is kept here (as Model/Pool.v does); an intermediate overflow with a fitting result
   cannot happen for |d| >= 1 and is not modelled for |d| < 1 *)
Definition g_dpower (d n : Z) : outcome Z := lift_ovf (chk_dec (dpower d n)).
(* utils.DecApproxSqrt (types/utils.go:126): ApproxSqrt recovers its own panics into an error,
   DecApproxSqrt panics with that error VALUE (not a string: not an overflow for SafeMath).
   As in Model/Pool.v the overflow checks inside the Newton loop are not modelled, only the size
   of the result *)
Definition g_sqrt (d : Z) : outcome Z := lift_pan (chk_dec (dsqrt d)).
(* LegacyMinDec / LegacyMaxDec (dec.go:911,919) *)
Definition min_dec (a b : Z) : Z := if a <? b then a else b.
Definition max_dec (a b : Z) : Z := if a <? b then b else a.
(* LegacyNewDecWithPrec(i, prec) = i * 10^(18-prec)  (dec.go:103; prec > 18 panics) *)
Definition dec_with_prec (i prec : Z) : Z := i * 10 ^ (18 - prec).

(* ---------------- Int (int.go) ---------------- *)
Definition g_iadd (a b : Z) : outcome Z := lift_ovf (iadd_c a b).
Definition g_isub (a b : Z) : outcome Z := lift_ovf (isub_c a b).
Definition g_imul (a b : Z) : outcome Z := lift_ovf (imul_c a b).
Definition g_iquo (a b : Z) : outcome Z := lift_pan (iquo_c a b).
Definition g_imod (a b : Z) : outcome Z := lift_pan (imod_c a b).
Definition g_int64 (a : Z) : outcome Z := lift_ovf (int64_c a).      (* Int.Int64() *)
Definition g_uint64 (a : Z) : outcome Z := lift_pan (uint64_c a).    (* Int.Uint64() *)
Definition is_int64 (a : Z) : bool := match int64_c a with Some _ => true | None => false end.
Definition is_uint64 (a : Z) : bool := match uint64_c a with Some _ => true | None => false end.
(* MinInt / MaxInt (int.go:44,52,324,329) *)
Definition min_int (a b : Z) : Z := if a >? b then b else a.
Definition max_int (a b : Z) : Z := if a <? b then b else a.

(* ---------------- native integers (64-bit; Go arithmetic wraps, division by zero is a run-time
   panic) ---------------- *)
Definition two63 : Z := 9223372036854775808.
Definition wrap_u64 (x : Z) : Z := x mod two64.
Definition wrap_i64 (x : Z) : Z := (x + two63) mod two64 - two63.
Definition g_udiv (a b : Z) : outcome Z := if b =? 0 then Panic else Ok (a / b).
Definition g_umod (a b : Z) : outcome Z := if b =? 0 then Panic else Ok (a mod b).
Definition g_sdiv (a b : Z) : outcome Z := if b =? 0 then Panic else Ok (wrap_i64 (Z.quot a b)).
Definition g_smod (a b : Z) : outcome Z := if b =? 0 then Panic else Ok (Z.rem a b).

(* ---------------- control ---------------- *)
(* utils.SafeMath(f, onOverflow): run f; an overflow-class panic runs onOverflow instead, any other
   panic is re-raised.  [f] and [h] both end in the tuple of the variables either closure assigns;
   the translator only emits this when onOverflow overwrites every variable f assigns and reads
   none of them, so that the state after the handler does not depend on how far f got. *)
Definition safe_math {A} (f h : outcome A) : outcome A :=
  match f with Ok v => Ok v | Err _ => h | Panic => Panic end.

(* outside any SafeMath both classes of panic are the same observable: the call panics *)
Definition collapse {A} (o : outcome A) : outcome A :=
  match o with Ok v => Ok v | Err _ => Panic | Panic => Panic end.
Definition to_option {A} (o : outcome A) : option A :=
  match o with Ok v => Some v | Err _ => None | Panic => None end.

(* A Go construct the translator does not recognise.  The term behaves as a panic and is SEALED
   (opaque), so no equivalence theorem about a definition that contains it can be proved by
   computation; in addition the translator lists every occurrence in gen_<f>_unrecognised and the
   tie files prove that list empty. *)
Definition Unrecognised {A} (where_ : string) : outcome A.
Proof. exact Panic. Qed.
