(* Tie (C): the small vocabulary the Go->Gallina translator (tools/goextract/emit_purefuns.go)
   writes coq/Gen/PureFuns.v in.  Every generated definition is a term over Lib/Base.v,
   Lib/DecArith.v and the combinators below, nothing else.  Definitions only (plus the sealed
   [Unrecognised]).

   RESULT OF A GO EVALUATION.  A generated term has type [outcome A] (Lib/Base.v):
     Ok v    the Go code returned normally with value(s) v
     Err 0   the Go code panicked with a value that utils.IsOverflow (/repo types/utils.go:225)
             accepts: a string that contains "overflow" or ends in "out of bound" (lower-cased)
     Panic   the Go code panicked with any other value
   The distinction is needed because utils.SafeMath(f, onOverflow) (types/utils.go:211) recovers
   the first class only.  This is the same convention Model/Pool.v uses inside a SafeMath body.
   A Go [error] RESULT is not an [Err]: it is an ordinary value of type Z (0 = nil), see the
   translator documentation docs/TIE_C.md.

   Which class each cosmossdk.io/math v1.1.2 panic belongs to (read off int.go / dec.go):
     "Int overflow"                      int.go:242,257,271,276  dec.go:267..  -> Err 0
     "NewIntFromBigInt() out of bound"   int.go:115 (TruncateInt, RoundInt)    -> Err 0
     "Int64() out of bound"              int.go:167  dec.go:689,715            -> Err 0
     "Uint64() out of bounds"            int.go:181   (ends in "bounds")       -> Panic
     "Division by zero" / "division-by-zero"  int.go:290,303                   -> Panic
     math/big division by zero (run-time error, not a string)  Dec.Quo*        -> Panic
     nil *big.Int dereference (run-time error)                                 -> Panic *)
From Coq Require Import String.
From Comdex Require Import Lib.Base Lib.DecArith.

Definition lift_ovf (o : option Z) : outcome Z :=
  match o with Some v => Ok v | None => Err 0 end.
Definition lift_pan (o : option Z) : outcome Z :=
  match o with Some v => Ok v | None => Panic end.

(* ---------------- LegacyDec (dec.go) ---------------- *)
(* Add/Sub/Mul/MulTruncate/MulRoundUp/MulInt/MulInt64: compute, then BitLen > 315 panics "Int overflow" *)
Definition g_dadd (a b : Z) : outcome Z := lift_ovf (dadd_c a b).
Definition g_dsub (a b : Z) : outcome Z := lift_ovf (dsub_c a b).
Definition g_dmul (a b : Z) : outcome Z := lift_ovf (dmul_c a b).
Definition g_dmul_trunc (a b : Z) : outcome Z := lift_ovf (dmul_trunc_c a b).
Definition g_dmul_up (a b : Z) : outcome Z := lift_ovf (chk_dec (dmul_up a b)).
Definition g_dmul_int (a i : Z) : outcome Z := lift_ovf (dmul_int_c a i).
(* Quo/QuoTruncate/QuoRoundUp: big.Int.Quo panics on a zero divisor (run-time error, re-raised by
   SafeMath), then the 315-bit check *)
Definition g_dquo (a b : Z) : outcome Z :=
  if b =? 0 then Panic else lift_ovf (chk_dec (dquo a b)).
Definition g_dquo_trunc (a b : Z) : outcome Z :=
  if b =? 0 then Panic else lift_ovf (chk_dec (dquo_trunc a b)).
Definition g_dquo_up (a b : Z) : outcome Z :=
  if b =? 0 then Panic else lift_ovf (chk_dec (dquo_up a b)).
(* QuoInt/QuoInt64: big.Int.Quo only, no size check (dec.go:425,435) *)
Definition g_dquo_int (a i : Z) : outcome Z :=
  if i =? 0 then Panic else Ok (Z.quot a i).
(* TruncateInt/RoundInt: NewIntFromBigInt checks 256 bits; TruncateInt64/RoundInt64: IsInt64 *)
Definition g_dtrunc_int (a : Z) : outcome Z := lift_ovf (dtrunc_int_c a).
Definition g_dround_int (a : Z) : outcome Z := lift_ovf (dround_int_c a).
Definition g_dtrunc_i64 (a : Z) : outcome Z := lift_ovf (int64_c (dtrunc_int a)).
Definition g_dround_i64 (a : Z) : outcome Z := lift_ovf (int64_c (dround_int a)).
(* TruncateDec: NewDecFromBigInt(chop), unchecked *)
Definition dtrunc_dec (a : Z) : Z := dec_of_int (dtrunc_int a).
(* Power: PowerMut (dec.go:507); every MulMut inside checks 315 bits - only the check of the
   RESULT is kept here (as Model/Pool.v does); an intermediate overflow with a fitting result
   cannot happen for |d| >= 1 and is not modelled for |d| < 1 *)
Definition g_dpower (d n : Z) : outcome Z := lift_ovf (chk_dec (dpower d n)).
(* utils.DecApproxSqrt (types/utils.go:126): ApproxSqrt recovers its own panics into an error,
   DecApproxSqrt panics with that error VALUE (not a string: not an overflow for SafeMath).
   As in Model/Pool.v the overflow checks inside the Newton loop are not modelled, only the size
   of the result *)
Definition g_sqrt (d : Z) : outcome Z := lift_pan (chk_dec (dsqrt d)).
(* LegacyMinDec / LegacyMaxDec (dec.go:911,919) *)
Definition min_dec (a b : Z) : Z := if a <? b then a else b.
Definition max_dec (a b : Z) : Z := if a <? b then b else a.
(* LegacyNewDecWithPrec(i, prec) = i * 10^(18-prec)  (dec.go:103; prec > 18 panics) *)
Definition dec_with_prec (i prec : Z) : Z := i * 10 ^ (18 - prec).

(* ---------------- Int (int.go) ---------------- *)
Definition g_iadd (a b : Z) : outcome Z := lift_ovf (iadd_c a b).
Definition g_isub (a b : Z) : outcome Z := lift_ovf (isub_c a b).
Definition g_imul (a b : Z) : outcome Z := lift_ovf (imul_c a b).
Definition g_iquo (a b : Z) : outcome Z := lift_pan (iquo_c a b).
Definition g_imod (a b : Z) : outcome Z := lift_pan (imod_c a b).
Definition g_int64 (a : Z) : outcome Z := lift_ovf (int64_c a).      (* Int.Int64() *)
Definition g_uint64 (a : Z) : outcome Z := lift_pan (uint64_c a).    (* Int.Uint64() *)
Definition is_int64 (a : Z) : bool := match int64_c a with Some _ => true | None => false end.
Definition is_uint64 (a : Z) : bool := match uint64_c a with Some _ => true | None => false end.
(* MinInt / MaxInt (int.go:44,52,324,329) *)
Definition min_int (a b : Z) : Z := if a >? b then b else a.
Definition max_int (a b : Z) : Z := if a <? b then b else a.

(* ---------------- native integers (64-bit; Go arithmetic wraps, division by zero is a run-time
   panic) ---------------- *)
Definition two63 : Z := 9223372036854775808.
Definition wrap_u64 (x : Z) : Z := x mod two64.
Definition wrap_i64 (x : Z) : Z := (x + two63) mod two64 - two63.
Definition g_udiv (a b : Z) : outcome Z := if b =? 0 then Panic else Ok (a / b).
Definition g_umod (a b : Z) : outcome Z := if b =? 0 then Panic else Ok (a mod b).
Definition g_sdiv (a b : Z) : outcome Z := if b =? 0 then Panic else Ok (wrap_i64 (Z.quot a b)).
Definition g_smod (a b : Z) : outcome Z := if b =? 0 then Panic else Ok (Z.rem a b).

(* ---------------- math/bits (go1.23 src/math/bits/bits.go), operands uint64 = Z in [0, 2^64) ------
   Add64 (bits.go:381-394): "sum = x + y + carry" (mod 2^64), carryOut = the carry out of bit 63.
   "The carry input must be 0 or 1; otherwise the behavior is undefined."  The translator emits the
   pure pair (add64_sum, add64_carry) only when the carry argument is the literal 0 or 1; with any
   other carry argument it emits g_add64, which is Panic outside {0, 1}: an equivalence can then
   only be proved where the carry is shown to be 0 or 1.  For 0 <= x, y < 2^64 and c in {0,1}:
   x + y + c < 2^65, so (x + y + c) / 2^64 is the carry bit ((x&y | (x|y)&^sum) >> 63). *)
Definition add64_sum (x y c : Z) : Z := wrap_u64 (x + y + c).
Definition add64_carry (x y c : Z) : Z := (x + y + c) / two64.
Definition g_add64 (x y c : Z) : outcome (Z * Z) :=
  if (c =? 0) || (c =? 1) then Ok (add64_sum x y c, add64_carry x y c) else Panic.
(* Sub64 (bits.go:426-436): diff = x - y - borrow (mod 2^64), borrowOut = 1 iff x < y + borrow *)
Definition sub64_diff (x y b : Z) : Z := wrap_u64 (x - y - b).
Definition sub64_borrow (x y b : Z) : Z := if x <? y + b then 1 else 0.
Definition g_sub64 (x y b : Z) : outcome (Z * Z) :=
  if (b =? 0) || (b =? 1) then Ok (sub64_diff x y b, sub64_borrow x y b) else Panic.
(* Mul64 (bits.go:466-485): "(hi, lo) = x * y with the product bits' upper half returned in hi and
   the lower half returned in lo" *)
Definition mul64_hi (x y : Z) : Z := (x * y) / two64.
Definition mul64_lo (x y : Z) : Z := (x * y) mod two64.
(* Div64 (bits.go:514-524): "quo = (hi, lo)/y, rem = (hi, lo)%y ... Div64 panics for y == 0
   (division by zero) or y <= hi (quotient overflow)".  Both panics are run-time errors
   (runtime.divideError / runtime.overflowError), not strings: utils.IsOverflow rejects them. *)
Definition g_div64 (hi lo y : Z) : outcome (Z * Z) :=
  if y =? 0 then Panic
  else if y <=? hi then Panic
  else Ok ((hi * two64 + lo) / y, (hi * two64 + lo) mod y).

(* ---------------- *big.Int (math/big), the three uses in amm.InitialPoolCoinSupply ----------------
   A *big.Int is translated as the integer it points to, and only while the pointer cannot be
   shared: a *big.Int variable is assigned from an allocating call only (big.NewInt(k) = k,
   Int.BigInt() = a fresh copy of the Int's value, int.go:100), never copied, and changed only by
   the statement  z.Exp(z, y, nil)  on a local variable z.
   len(b.Text(10)) (intconv.go:15-26): the decimal representation, "-" for a negative number, no
   prefix: the number of decimal digits of |b| (one for 0) plus one for the sign. *)
Fixpoint dec_digits_fuel (fuel : nat) (z : Z) : Z :=
  match fuel with
  | O => 1
  | Datatypes.S f => if z <? 10 then 1 else 1 + dec_digits_fuel f (z / 10)
  end.
(* the recursion divides by 10 at most log10 z <= log2 z times *)
Definition dec_digits (z : Z) : Z := dec_digits_fuel (Datatypes.S (Z.to_nat (Z.log2 z))) z.
Definition dec_text_len (z : Z) : Z := (if z <? 0 then 1 else 0) + dec_digits (Z.abs z).
(* z.Exp(x, y, nil) (int.go:554): "If m == nil or m == 0, z = x**y unless y <= 0 then z = 1" *)
Definition big_exp (x y : Z) : Z := if y <=? 0 then 1 else x ^ y.
(* NewIntFromBigInt (cosmossdk.io/math int.go:109): BitLen > 256 panics "NewIntFromBigInt() out of bound" *)
Definition g_int_of_big (b : Z) : outcome Z := lift_ovf (chk_int b).

(* ---------------- slices of 64-bit natives ([]uint64, []int64, []int) ----------------
   A slice value is the [list Z] of its elements.  Go slices share backing arrays; the list is an
   exact account as long as no two live slice values share an array that one of them changes.
   The translator enforces this syntactically (emit_purefuns_slices.go sliceCopy / genCall): a
   slice is only ever assigned from a call, a literal, nil, x = append(x, ..) or x = x[:0] on the
   same l-value, and a slice passed to a translated function is not changed there.  nil and the
   empty slice are both [] (they differ only under == nil, which is not translated).
   Index expressions (Go spec, "Index expressions": "if x is out of range at run time, a run-time
   panic occurs"; the index may be of any integer type, in range means 0 <= i < len): *)
Definition g_index (s : list Z) (i : Z) : outcome Z :=
  if (i <? 0) || (zlen s <=? i) then Panic
  else match nth_z s (Z.to_nat i) with Some v => Ok v | None => Panic end.
Definition g_set_index (s : list Z) (i v : Z) : outcome (list Z) :=
  if (i <? 0) || (zlen s <=? i) then Panic
  else match set_nth s (Z.to_nat i) v with Some s' => Ok s' | None => Panic end.
(* len(s) = zlen s (Lib/Base.v); append(s, a, b) = s ++ [a; b]; s[:0] = [] (0 <= 0 <= cap always
   holds; any other slice expression depends on the capacity and is not translated) *)

(* ---------------- loops ----------------
   for i := a; i < b; i++ { body }  where the body does not assign i, contains no break / continue /
   return / goto, and b is free of panics and of every variable the loop assigns (so it has the same
   value at every test): the body runs for i = a, a+1, .., b-1 (not at all when b <= a) - i + 1
   cannot wrap because i < b.  The state s is the tuple of the outer variables the body assigns. *)
Fixpoint for_loop {S} (n : nat) (i : Z) (body : Z -> S -> outcome S) (s : S) : outcome S :=
  match n with
  | O => Ok s
  | Datatypes.S m => obind (body i s) (fun s' => for_loop m (i + 1) body s')
  end.
Definition for_range {S} (a b : Z) (body : Z -> S -> outcome S) (s : S) : outcome S :=
  for_loop (Z.to_nat (b - a)) a body s.
(* for i, v := range xs { body }  (Go spec, "For statements with range clause": the range
   expression is evaluated once; for a slice the index runs over 0 .. len-1 of that value).  The
   translator requires that the body assigns no slice element, so v is xs[i] as it was at the
   start.  Called with i = 0. *)
Fixpoint range_loop {S} (xs : list Z) (i : Z) (body : Z -> Z -> S -> outcome S) (s : S) : outcome S :=
  match xs with
  | [] => Ok s
  | x :: r => obind (body i x s) (fun s' => range_loop r (i + 1) body s')
  end.

(* ---------------- the store cell ----------------
   A keeper function that reads, rewrites and re-reads ONE store record (spec.cell: Get(ctx, key)
   returns (record, found); Set(ctx, record) stores the record under the key held by its key field):
   the content of the cell before the call is an input, Set replaces what a later Get of the same
   key returns, the content on return is appended to the results.  A Set whose record carries a key
   field that is not literally the key the cell was read with is guarded by a test; the other
   branch (a write to ANOTHER key, outside the cell) is this sealed constant: nothing can be
   proved about a run that reaches it. *)
Definition out_of_cell {A} : outcome A.
Proof. exact Panic. Qed.

(* ---------------- control ---------------- *)
(* utils.SafeMath(f, onOverflow): run f; an overflow-class panic runs onOverflow instead, any other
   panic is re-raised.  [f] and [h] both end in the tuple of the variables either closure assigns;
   the translator only emits this when onOverflow overwrites every variable f assigns and reads
   none of them, so that the state after the handler does not depend on how far f got. *)
Definition safe_math {A} (f h : outcome A) : outcome A :=
  match f with Ok v => Ok v | Err _ => h | Panic => Panic end.

(* outside any SafeMath both classes of panic are the same observable: the call panics *)
Definition collapse {A} (o : outcome A) : outcome A :=
  match o with Ok v => Ok v | Err _ => Panic | Panic => Panic end.
Definition to_option {A} (o : outcome A) : option A :=
  match o with Ok v => Some v | Err _ => None | Panic => None end.

(* A Go construct the translator does not recognise.  The term behaves as a panic and is SEALED
   (opaque), so no equivalence theorem about a definition that contains it can be proved by
   computation; in addition the translator lists every occurrence in gen_<f>_unrecognised and the
   tie files prove that list empty. *)
Definition Unrecognised {A} (where_ : string) : outcome A.
Proof. exact Panic. Qed.
