(* IEEE-754 binary64 round-to-nearest-even, written directly over Z (no PrimFloat, no Flocq, no
   axioms).  A finite float is represented by the integer  v * 2^1074  (every finite binary64 is a
   multiple of 2^-1074), so comparisons of floats are comparisons of integers and the value 1.0
   is [F_ONE].  Used only for the two float sites of the code base:
     - rewards/keeper/iter.go CalculationOfRewards  (MustFloat64, -, *, FormatFloat 'f' 18)
     - liquidity/keeper/rewards.go GetFarmingRewardsData (int64(math.Floor(d.MustFloat64())))
   math.Pow is NOT modelled (it is a Section variable of the model).  Overflow to +Inf is outside
   the model: [f_finite] says whether a value is below 2^1024.  Definitions and the facts the
   properties need (monotonicity, exactness, relative error). *)
From Comdex Require Import Lib.Base.
From Coq Require Import ZifyBool.

Definition F_ONE : Z := 2 ^ 1074.
Definition F_P52 : Z := 2 ^ 52.
Definition F_P53 : Z := 2 ^ 53.

(* round-half-even of a / b for a >= 0, b > 0 *)
Definition rne (a b : Z) : Z :=
  let q := a / b in
  let r := a mod b in
  if 2 * r <? b then q
  else if 2 * r >? b then q + 1
  else if Z.even q then q else q + 1.

(* spacing (in units of 2^-1074) of the binary64 grid around a non-negative value whose integer
   part (in those units) is I: 1 below 2^53 units (subnormals and the first normal binade),
   2^(bits-53) above *)
Definition spacing (I : Z) : Z :=
  if I <? F_P53 then 1 else 2 ^ (Z.log2 I - 52).

(* nearest binary64 to the rational n / d  (n >= 0, d > 0) *)
Definition rnd64_nn (n d : Z) : Z :=
  let N := n * F_ONE in
  let s := spacing (N / d) in
  rne N (d * s) * s.

(* sign-symmetric *)
Definition rnd64 (n d : Z) : Z := if n <? 0 then - rnd64_nn (- n) d else rnd64_nn n d.

Definition f_finite (v : Z) : bool := Z.abs v <? 2 ^ 2098.

(* Dec -> float64 : LegacyDec.MustFloat64 = strconv.ParseFloat(d.String(), 64), correctly rounded *)
Definition P18f : Z := 1000000000000000000.
Definition to64 (dec : Z) : Z := rnd64 dec P18f.
(* a - b and a * b on floats: exact result, then rounded *)
Definition sub64 (a b : Z) : Z := rnd64 (a - b) F_ONE.
Definition mul64 (a b : Z) : Z := rnd64 (a * b) (F_ONE * F_ONE).
(* strconv.FormatFloat(x,'f',18,64) then NewDecFromStr: the exact binary value rounded half-even
   to 18 decimals, as a scaled Dec integer *)
Definition fmt18 (v : Z) : Z :=
  if v <? 0 then - rne (- v * P18f) F_ONE else rne (v * P18f) F_ONE.
(* int64(math.Floor(x)) for x >= 0 (in int64 range) *)
Definition floor64 (v : Z) : Z := v / F_ONE.

(* ------------------------------------------------------------------------------------------ *)
Lemma F_ONE_pos : 0 < F_ONE. Proof. reflexivity. Qed.
Lemma P18f_pos : 0 < P18f. Proof. reflexivity. Qed.
Lemma F_P53_pos : 0 < F_P53. Proof. reflexivity. Qed.
Lemma F_P53_eq : F_P53 = 2 * F_P52. Proof. reflexivity. Qed.

Lemma rne_bounds a b : 0 <= a -> 0 < b ->
  0 <= rne a b /\ - b <= 2 * (rne a b * b - a) <= b.
Proof.
  intros Ha Hb. unfold rne.
  pose proof (Z.div_mod a b ltac:(lia)). pose proof (Z.mod_pos_bound a b ltac:(lia)).
  assert (0 <= a / b) by (apply Z.div_pos; lia).
  destruct (Z.ltb_spec (2 * (a mod b)) b); [nia|].
  destruct (Z.gtb_spec (2 * (a mod b)) b); [nia|].
  destruct (Z.even (a / b)); nia.
Qed.

Lemma rne_exact k b : 0 <= k -> 0 < b -> rne (k * b) b = k.
Proof.
  intros Hk Hb. unfold rne. rewrite Z.mod_mul, Z.div_mul by lia.
  destruct (Z.ltb_spec (2 * 0) b); [reflexivity|lia].
Qed.

Lemma rne_floor_ceil a b : 0 <= a -> 0 < b -> a / b <= rne a b <= a / b + 1.
Proof.
  intros. unfold rne. destruct (_ <? _); [lia|]. destruct (_ >? _); [lia|]. destruct (Z.even _); lia.
Qed.

Lemma rne_mono a a' b : 0 <= a -> a <= a' -> 0 < b -> rne a b <= rne a' b.
Proof.
  intros Ha Haa Hb.
  destruct (Z.eq_dec (a / b) (a' / b)) as [Heq|Hne].
  - unfold rne. rewrite <- Heq.
    pose proof (Z.div_mod a b ltac:(lia)). pose proof (Z.div_mod a' b ltac:(lia)).
    pose proof (Z.mod_pos_bound a b ltac:(lia)). pose proof (Z.mod_pos_bound a' b ltac:(lia)).
    assert (a mod b <= a' mod b) by nia.
    destruct (Z.ltb_spec (2 * (a mod b)) b); destruct (Z.ltb_spec (2 * (a' mod b)) b);
      destruct (Z.gtb_spec (2 * (a mod b)) b); destruct (Z.gtb_spec (2 * (a' mod b)) b);
      destruct (Z.even (a / b)); lia.
  - assert (a / b <= a' / b) by (apply Z.div_le_mono; lia).
    pose proof (rne_floor_ceil a b Ha Hb). pose proof (rne_floor_ceil a' b ltac:(lia) Hb). lia.
Qed.

Lemma rne_le_grid a k b : 0 <= a -> 0 < b -> a <= k * b -> rne a b <= k.
Proof.
  intros Ha Hb H. assert (0 <= k) by nia. rewrite <- (rne_exact k b) by lia. apply rne_mono; lia.
Qed.
Lemma rne_ge_grid a k b : 0 <= k -> 0 < b -> k * b <= a -> k <= rne a b.
Proof.
  intros Hk Hb H. rewrite <- (rne_exact k b) at 1 by lia. apply rne_mono; nia.
Qed.

(* ---- spacing ---- *)
Lemma spacing_pos I : 0 < spacing I.
Proof. unfold spacing. destruct (Z.ltb_spec I F_P53); [lia|]. apply Z.pow_pos_nonneg; [lia|].
  assert (53 <= Z.log2 I). { apply Z.log2_le_pow2; [pose proof F_P53_pos; lia|]. exact H. } lia. Qed.

(* above 2^53 units: s * 2^52 <= I < s * 2^53 *)
Lemma spacing_big I : F_P53 <= I -> spacing I * F_P52 <= I < spacing I * F_P53.
Proof.
  intros H. pose proof F_P53_pos. unfold spacing. destruct (Z.ltb_spec I F_P53); [lia|].
  assert (HI : 0 < I) by lia. pose proof (Z.log2_spec I HI) as [L1 L2].
  assert (53 <= Z.log2 I). { apply Z.log2_le_pow2; [lia|]. exact H. }
  unfold F_P52, F_P53.
  rewrite <- !Z.pow_add_r by lia.
  replace (Z.log2 I - 52 + 52) with (Z.log2 I) by lia.
  replace (Z.log2 I - 52 + 53) with (Z.succ (Z.log2 I)) by lia. lia.
Qed.

Lemma spacing_mono I J : 0 <= I -> I <= J -> spacing I <= spacing J.
Proof.
  intros HI HIJ. pose proof (spacing_pos J). unfold spacing in *.
  destruct (Z.ltb_spec I F_P53); [destruct (Z.ltb_spec J F_P53); lia|].
  destruct (Z.ltb_spec J F_P53); [lia|].
  apply Z.pow_le_mono_r; [lia|]. pose proof (Z.log2_le_mono I J HIJ). lia.
Qed.

(* two spacings are powers of two: the smaller divides the larger *)
Lemma spacing_pow I : exists e, 0 <= e /\ spacing I = 2 ^ e.
Proof.
  unfold spacing. destruct (Z.ltb_spec I F_P53).
  - exists 0. split; [lia|reflexivity].
  - exists (Z.log2 I - 52). split; [|reflexivity].
    assert (53 <= Z.log2 I). { apply Z.log2_le_pow2; [pose proof F_P53_pos; lia|]. exact H. } lia.
Qed.

(* ---- rnd64 on non-negatives ---- *)
Lemma rnd64_nn_nonneg n d : 0 <= n -> 0 < d -> 0 <= rnd64_nn n d.
Proof.
  intros Hn Hd. unfold rnd64_nn. pose proof F_ONE_pos. pose proof (spacing_pos (n * F_ONE / d)).
  pose proof (rne_bounds (n * F_ONE) (d * spacing (n * F_ONE / d)) ltac:(nia) ltac:(nia)) as [? _]. nia.
Qed.

Lemma rnd64_nn_zero d : 0 < d -> rnd64_nn 0 d = 0.
Proof.
  intros Hd. unfold rnd64_nn. rewrite Z.mul_0_l. rewrite Z.div_0_l by lia.
  change (spacing 0) with 1. rewrite !Z.mul_1_r.
  pose proof (rne_exact 0 d ltac:(lia) Hd) as E. rewrite Z.mul_0_l in E. exact E.
Qed.

(* a grid point g*s (s the spacing at the value) above / below the value bounds the rounding *)
Lemma rnd64_nn_le_grid n d g : 0 <= n -> 0 < d ->
  n * F_ONE <= g * spacing (n * F_ONE / d) * d -> rnd64_nn n d <= g * spacing (n * F_ONE / d).
Proof.
  intros Hn Hd H. unfold rnd64_nn. pose proof F_ONE_pos. set (s := spacing (n * F_ONE / d)) in *.
  pose proof (spacing_pos (n * F_ONE / d)). fold s in H1.
  assert (rne (n * F_ONE) (d * s) <= g). { apply rne_le_grid; nia. } nia.
Qed.
Lemma rnd64_nn_ge_grid n d g : 0 <= n -> 0 < d -> 0 <= g ->
  g * spacing (n * F_ONE / d) * d <= n * F_ONE -> g * spacing (n * F_ONE / d) <= rnd64_nn n d.
Proof.
  intros Hn Hd Hg H. unfold rnd64_nn. pose proof F_ONE_pos. set (s := spacing (n * F_ONE / d)) in *.
  pose proof (spacing_pos (n * F_ONE / d)). fold s in H1.
  assert (g <= rne (n * F_ONE) (d * s)). { apply rne_ge_grid; nia. } nia.
Qed.

Lemma rnd64_nn_mono n n' d : 0 <= n -> n <= n' -> 0 < d -> rnd64_nn n d <= rnd64_nn n' d.
Proof.
  intros Hn Hnn Hd. pose proof F_ONE_pos as HF. pose proof F_P53_pos. pose proof F_P53_eq.
  set (N := n * F_ONE). set (N' := n' * F_ONE).
  assert (HN : 0 <= N) by (unfold N; nia). assert (HNN : N <= N') by (unfold N, N'; nia).
  assert (HI : 0 <= N / d) by (apply Z.div_pos; lia).
  assert (HII : N / d <= N' / d) by (apply Z.div_le_mono; lia).
  pose proof (spacing_mono _ _ HI HII) as Hs.
  pose proof (spacing_pos (N / d)) as Hs0. pose proof (spacing_pos (N' / d)) as Hs0'.
  destruct (Z.eq_dec (spacing (N / d)) (spacing (N' / d))) as [Heq|Hne].
  - unfold rnd64_nn. fold N N'. rewrite <- Heq.
    assert (rne N (d * spacing (N / d)) <= rne N' (d * spacing (N / d))) by (apply rne_mono; nia). nia.
  - (* different binades: s < s'.  Then N'/d >= 2^53 and the grid point B = s*2^53 separates *)
    assert (Hlt : spacing (N / d) < spacing (N' / d)) by lia.
    assert (HJ : F_P53 <= N' / d).
    { destruct (Z.lt_ge_cases (N' / d) F_P53) as [L|L]; [|exact L].
      unfold spacing in Hlt. destruct (Z.ltb_spec (N' / d) F_P53); [|lia].
      destruct (Z.ltb_spec (N / d) F_P53); lia. }
    pose proof (spacing_big _ HJ) as [J1 J2].
    set (s := spacing (N / d)) in *. set (s' := spacing (N' / d)) in *.
    (* upper bound for the smaller: rnd n <= s * 2^53 *)
    assert (Hup : rnd64_nn n d <= F_P53 * s).
    { apply (rnd64_nn_le_grid n d F_P53 Hn Hd). fold N. fold s.
      destruct (Z.lt_ge_cases (N / d) F_P53) as [L|L].
      - assert (s = 1). { unfold s, spacing. destruct (Z.ltb_spec (N / d) F_P53); lia. }
        pose proof (Z.div_mod N d ltac:(lia)). pose proof (Z.mod_pos_bound N d ltac:(lia)). nia.
      - pose proof (spacing_big _ L) as [_ L2]. fold s in L2.
        pose proof (Z.div_mod N d ltac:(lia)). pose proof (Z.mod_pos_bound N d ltac:(lia)). nia. }
    (* lower bound for the larger: rnd n' >= s' * 2^52 *)
    assert (Hlo : F_P52 * s' <= rnd64_nn n' d).
    { apply (rnd64_nn_ge_grid n' d F_P52 ltac:(lia) Hd ltac:(unfold F_P52; lia)). fold N'. fold s'.
      pose proof (Z.div_mod N' d ltac:(lia)). pose proof (Z.mod_pos_bound N' d ltac:(lia)). nia. }
    (* s' >= 2 s since both are powers of two *)
    destruct (spacing_pow (N / d)) as (e & He0 & He). destruct (spacing_pow (N' / d)) as (e' & He0' & He').
    fold s in He. fold s' in He'.
    assert (e < e'). { destruct (Z.lt_ge_cases e e'); [lia|].
      assert (2 ^ e' <= 2 ^ e) by (apply Z.pow_le_mono_r; lia). lia. }
    assert (2 * s <= s').
    { rewrite He, He'. replace e' with (Z.succ e + (e' - e - 1)) by lia.
      rewrite Z.pow_add_r, Z.pow_succ_r by lia.
      assert (1 <= 2 ^ (e' - e - 1)) by (apply (Z.pow_le_mono_r 2 0); lia).
      assert (0 < 2 ^ e) by (apply Z.pow_pos_nonneg; lia). nia. }
    nia.
Qed.

(* relative error: |rnd(n/d) - n/d| <= 2^-53 * n/d + 2^-1075 (the second term only matters for
   subnormals), as  |r*d - N| * 2^53 <= N + d * 2^52  with N = n * 2^1074 *)
Lemma rnd64_nn_err n d : 0 <= n -> 0 < d ->
  - (n * F_ONE + d * F_P52) <= (rnd64_nn n d * d - n * F_ONE) * F_P53 <= n * F_ONE + d * F_P52.
Proof.
  intros Hn Hd. pose proof F_ONE_pos as HF. pose proof F_P53_pos. pose proof F_P53_eq.
  unfold rnd64_nn. set (N := n * F_ONE). assert (HN : 0 <= N) by (unfold N; nia).
  pose proof (spacing_pos (N / d)) as Hs0. set (s := spacing (N / d)) in *.
  pose proof (rne_bounds N (d * s) HN ltac:(nia)) as [_ B]. set (q := rne N (d * s)) in *.
  assert (Hsz : d * s * F_P52 <= N + d * F_P52).
  { destruct (Z.lt_ge_cases (N / d) F_P53) as [L|L].
    - assert (s = 1). { unfold s, spacing. destruct (Z.ltb_spec (N / d) F_P53); lia. } nia.
    - pose proof (spacing_big _ L) as [L1 _]. fold s in L1.
      pose proof (Z.div_mod N d ltac:(lia)). pose proof (Z.mod_pos_bound N d ltac:(lia)). nia. }
  nia.
Qed.

(* ---- rnd64, all signs ---- *)
Lemma rnd64_nonneg n d : 0 <= n -> 0 < d -> 0 <= rnd64 n d.
Proof. intros. unfold rnd64. destruct (Z.ltb_spec n 0); [lia|]. apply rnd64_nn_nonneg; lia. Qed.

Lemma rnd64_zero d : 0 < d -> rnd64 0 d = 0.
Proof. intros. unfold rnd64. cbn. apply rnd64_nn_zero; lia. Qed.

Lemma rnd64_mono n n' d : n <= n' -> 0 < d -> rnd64 n d <= rnd64 n' d.
Proof.
  intros Hnn Hd. unfold rnd64. destruct (Z.ltb_spec n 0); destruct (Z.ltb_spec n' 0).
  - pose proof (rnd64_nn_mono (- n') (- n) d ltac:(lia) ltac:(lia) Hd). lia.
  - pose proof (rnd64_nn_nonneg (- n) d ltac:(lia) Hd). pose proof (rnd64_nn_nonneg n' d ltac:(lia) Hd). lia.
  - lia.
  - apply rnd64_nn_mono; lia.
Qed.

Lemma to64_one : to64 P18f = F_ONE.
Proof. vm_compute. reflexivity. Qed.

Lemma to64_mono a b : a <= b -> to64 a <= to64 b.
Proof. intros. apply rnd64_mono; [assumption|reflexivity]. Qed.
Lemma to64_nonneg a : 0 <= a -> 0 <= to64 a.
Proof. intros. apply rnd64_nonneg; [assumption|reflexivity]. Qed.
Lemma to64_zero : to64 0 = 0.
Proof. apply rnd64_zero. reflexivity. Qed.

Lemma fmt18_nonneg v : 0 <= v -> 0 <= fmt18 v.
Proof.
  intros. unfold fmt18. destruct (Z.ltb_spec v 0); [lia|].
  apply rne_bounds; [pose proof P18f_pos; nia|apply F_ONE_pos].
Qed.
Lemma fmt18_zero : fmt18 0 = 0.
Proof. reflexivity. Qed.
Lemma fmt18_mono v w : 0 <= v -> v <= w -> fmt18 v <= fmt18 w.
Proof.
  intros. unfold fmt18. destruct (Z.ltb_spec v 0); [lia|]. destruct (Z.ltb_spec w 0); [lia|].
  pose proof P18f_pos. apply rne_mono; [nia|nia|apply F_ONE_pos].
Qed.

Global Opaque F_ONE F_P52 F_P53 P18f.
