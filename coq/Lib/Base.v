(* Shared basics: outcome type (ok / error / panic), list helpers used by every model.      *)
From Coq Require Export List ZArith Bool Lia.
Export ListNotations.
Open Scope Z_scope.

(* The result of running a piece of Go code: it returns normally, returns an error of a small
   class (numbered), or panics.  Nothing is totalised into a normal-looking value. *)
Inductive outcome (A : Type) : Type :=
| Ok (a : A)
| Err (code : Z)
| Panic.
Arguments Ok {A} a.
Arguments Err {A} code.
Arguments Panic {A}.

Definition obind {A B} (x : outcome A) (f : A -> outcome B) : outcome B :=
  match x with Ok a => f a | Err c => Err c | Panic => Panic end.

Definition is_ok {A} (x : outcome A) : bool := match x with Ok _ => true | _ => false end.
Definition is_panic {A} (x : outcome A) : bool := match x with Panic => true | _ => false end.

(* Go slice indexing s[i]: None is the run-time panic "index out of range". *)
Fixpoint nth_z {A} (l : list A) (i : nat) : option A :=
  match l, i with
  | [], _ => None
  | x :: _, O => Some x
  | _ :: r, S j => nth_z r j
  end.

(* Go slice assignment s[i] = v: None is the run-time panic. *)
Fixpoint set_nth {A} (l : list A) (i : nat) (v : A) : option (list A) :=
  match l, i with
  | [], _ => None
  | _ :: r, O => Some (v :: r)
  | x :: r, S j => match set_nth r j v with Some r' => Some (x :: r') | None => None end
  end.

Definition zlen {A} (l : list A) : Z := Z.of_nat (length l).

Fixpoint zsum (l : list Z) : Z := match l with [] => 0 | x :: r => x + zsum r end.

Definition two64 : Z := 18446744073709551616.
