(* A small bank ledger as a total function account -> denom -> amount (accounts and denoms are
   small integer ids).  Used by Model/English.v and Model/LimitBid.v so that refunds and payouts
   are explicit.  [send] is bank.SendCoins for ONE coin built with sdk.NewCoins:
     amount < 0  -> sdk.NewCoins panics (invalid coin set)            = LPanic
     amount = 0  -> the coin is dropped by NewCoins, nothing moves    = LOk, unchanged
     balance < amount -> insufficient funds                           = LErr
   All statements about ledgers are pointwise (no functional extensionality needed). *)
From Comdex Require Import Lib.Base.

Definition ledger := Z -> Z -> Z.

Definition lupd (l : ledger) (a d v : Z) : ledger :=
  fun a' d' => if (a' =? a) && (d' =? d) then v else l a' d'.

Inductive lres := LOk (l : ledger) | LErr | LPanic.

Definition send (l : ledger) (from to d amt : Z) : lres :=
  if amt <? 0 then LPanic
  else if amt =? 0 then LOk l
  else if l from d <? amt then LErr
  else let l1 := lupd l from d (l from d - amt) in
       LOk (lupd l1 to d (l1 to d + amt)).

(* bank.MintCoins + SendCoinsFromModuleToAccount(to), net effect on [to] *)
Definition mint_to (l : ledger) (to d amt : Z) : ledger := lupd l to d (l to d + amt).

(* bank.BurnCoins from a module account (after the coins were moved there) *)
Definition burn_from (l : ledger) (from d amt : Z) : lres :=
  if amt <? 0 then LPanic
  else if amt =? 0 then LOk l
  else if l from d <? amt then LErr
  else LOk (lupd l from d (l from d - amt)).

Lemma lupd_same l a d v : lupd l a d v a d = v.
Proof. unfold lupd. rewrite !Z.eqb_refl. reflexivity. Qed.

Lemma lupd_other l a d v a' d' : (a' <> a \/ d' <> d) -> lupd l a d v a' d' = l a' d'.
Proof.
  unfold lupd. intros H. destruct (Z.eqb_spec a' a), (Z.eqb_spec d' d); cbn; try reflexivity.
  destruct H; contradiction.
Qed.

(* what [send] does, pointwise *)
Lemma send_spec l from to d amt l' : send l from to d amt = LOk l' ->
  0 <= amt /\ amt <= Z.max amt (l from d) /\ (0 < amt -> amt <= l from d) /\
  forall a x, l' a x = l a x
                     - (if (a =? from) && (x =? d) then amt else 0)
                     + (if (a =? to) && (x =? d) then amt else 0).
Proof.
  unfold send. destruct (Z.ltb_spec amt 0); [discriminate|].
  destruct (Z.eqb_spec amt 0).
  - intros E. injection E as <-. subst amt. repeat split; try lia.
    intros a x. destruct ((a =? from) && (x =? d)), ((a =? to) && (x =? d)); lia.
  - destruct (Z.ltb_spec (l from d) amt); [discriminate|].
    intros E. injection E as <-. repeat split; try lia.
    intros a x. unfold lupd.
    repeat match goal with |- context[Z.eqb ?p ?q] => destruct (Z.eqb_spec p q); subst end; cbn; lia.
Qed.

Lemma burn_spec l from d amt l' : burn_from l from d amt = LOk l' ->
  0 <= amt /\ forall a x, l' a x = l a x - (if (a =? from) && (x =? d) then amt else 0).
Proof.
  unfold burn_from. destruct (Z.ltb_spec amt 0); [discriminate|].
  destruct (Z.eqb_spec amt 0).
  - intros E. injection E as <-. subst. split; [lia|]. intros a x. destruct ((a =? from) && (x =? d)); lia.
  - destruct (Z.ltb_spec (l from d) amt); [discriminate|].
    intros E. injection E as <-. split; [lia|]. intros a x. unfold lupd.
    destruct (Z.eqb_spec a from), (Z.eqb_spec x d); cbn; subst; lia.
Qed.

Lemma mint_spec l to d amt a x :
  mint_to l to d amt a x = l a x + (if (a =? to) && (x =? d) then amt else 0).
Proof.
  unfold mint_to, lupd. destruct (Z.eqb_spec a to), (Z.eqb_spec x d); cbn; subst; lia.
Qed.
