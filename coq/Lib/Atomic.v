(* The cache-context step: model of utils.ApplyFuncIfNoError (types/utils.go) and of baseapp's
   per-message CacheContext.  A unit of work runs on a branch of the store; its writes are
   committed only when it returns no error and does not panic.  Generic in the store type. *)
From Comdex Require Import Lib.Base.

Section Atomic.
  Variable store : Type.

  (* what a unit of work does on a store: the (possibly partially written) store it leaves on
     its branch, and how it ended *)
  Inductive run_result :=
  | RunOk (s' : store)
  | RunErr (partial : store) (code : Z)
  | RunPanic (partial : store).

  Definition unit_of_work := store -> run_result.

  (* ApplyFuncIfNoError / baseapp message execution *)
  Definition apply (f : unit_of_work) (s : store) : store :=
    match f s with
    | RunOk s' => s'
    | RunErr _ _ => s
    | RunPanic _ => s
    end.

  Definition succeeded (f : unit_of_work) (s : store) : bool :=
    match f s with RunOk _ => true | _ => false end.

  (* all-or-nothing, for EVERY unit of work *)
  Theorem apply_all_or_nothing (f : unit_of_work) (s : store) :
    (succeeded f s = false /\ apply f s = s) \/
    (exists s', f s = RunOk s' /\ apply f s = s').
  Proof.
    unfold apply, succeeded. destruct (f s) as [s'|p c|p].
    - right. exists s'. split; reflexivity.
    - left. split; reflexivity.
    - left. split; reflexivity.
  Qed.

  Corollary apply_failed_noop (f : unit_of_work) (s : store) :
    succeeded f s = false -> apply f s = s.
  Proof. unfold apply, succeeded. destruct (f s); [discriminate|reflexivity|reflexivity]. Qed.

  (* a loop of wrapped units processes EVERY item, whatever the earlier ones did *)
  Definition apply_each {A} (g : A -> unit_of_work) (xs : list A) (s : store) : store :=
    fold_left (fun acc x => apply (g x) acc) xs s.

  Lemma apply_each_app {A} (g : A -> unit_of_work) xs ys s :
    apply_each g (xs ++ ys) s = apply_each g ys (apply_each g xs s).
  Proof. unfold apply_each. apply fold_left_app. Qed.

  (* the store seen by item number k is the result of applying the first k items; a failure of
     item j < k only means item j contributed nothing *)
  Theorem apply_each_processes_all {A} (g : A -> unit_of_work) xs x ys s :
    apply_each g (xs ++ x :: ys) s = apply_each g ys (apply (g x) (apply_each g xs s)).
  Proof. rewrite apply_each_app. reflexivity. Qed.

  (* crash-point form: a unit given as a list of store accesses that fails at access k *)
  Definition access := store -> option store.        (* None = this access fails / panics *)
  Fixpoint run_accesses (acc : list access) (s : store) : run_result :=
    match acc with
    | [] => RunOk s
    | a :: r => match a s with Some s1 => run_accesses r s1 | None => RunPanic s end
    end.

  Theorem crash_at_any_point_noop (acc : list access) (s : store) :
    (exists s', run_accesses acc s = RunOk s') \/ apply (run_accesses acc) s = s.
  Proof.
    destruct (run_accesses acc s) as [s'|p c|p] eqn:E.
    - left. exists s'. reflexivity.
    - right. unfold apply. rewrite E. reflexivity.
    - right. unfold apply. rewrite E. reflexivity.
  Qed.
End Atomic.

Arguments RunOk {store} s'.
Arguments RunErr {store} partial code.
Arguments RunPanic {store} partial.
Arguments apply {store} f s.
Arguments succeeded {store} f s.
Arguments apply_each {store A} g xs s.
Arguments run_accesses {store} acc s.
