(* More facts about the Dec model (used by Proofs/PoolProofs.v): ceilings, exact products with
   integer-valued Decs, quotients of integer-valued Decs, the checked wrappers. *)
From Comdex Require Import Lib.Base Lib.DecArith Lib.DecFacts.
From Coq Require Import ZifyBool.

Lemma obind_ok {A B} (x : outcome A) (f : A -> outcome B) v :
  obind x f = Ok v -> exists a, x = Ok a /\ f a = Ok v.
Proof. destruct x; cbn; intros H; try discriminate. eauto. Qed.

Lemma chk_dec_some x v : chk_dec x = Some v -> v = x.
Proof. unfold chk_dec. destruct (fits_dec x); congruence. Qed.
Lemma chk_int_some x v : chk_int x = Some v -> v = x.
Proof. unfold chk_int. destruct (fits_int x); congruence. Qed.

Lemma scale_le0 a : a * P18 <= 0 -> a <= 0.
Proof. pose proof P18_pos. nia. Qed.
Lemma scale_gt0 a : 0 < a * P18 -> 0 < a.
Proof. pose proof P18_pos. nia. Qed.
Lemma scale_le a b : a * P18 <= b * P18 -> a <= b.
Proof. pose proof P18_pos. nia. Qed.

(* Ceil().TruncateInt() on a non-negative Dec is the integer ceiling *)
Lemma dceil_int_bounds v : 0 <= v ->
  let c := dtrunc_int (dceil v) in 0 <= c /\ v <= c * P18 < v + P18.
Proof.
  intros Hv. dec_consts. cbv zeta. unfold dtrunc_int, dceil.
  rewrite (Z.quot_div_nonneg v P18) by lia. rewrite (Z.rem_mod_nonneg v P18) by lia.
  pose proof (Z.div_mod v P18 ltac:(lia)). pose proof (Z.mod_pos_bound v P18 ltac:(lia)).
  assert (0 <= v / P18) by (apply Z.div_pos; lia).
  destruct (Z.eqb_spec (v mod P18) 0).
  - rewrite Z.quot_mul by lia. nia.
  - destruct (Z.ltb_spec (v mod P18) 0); [lia|]. rewrite Z.quot_mul by lia. nia.
Qed.

(* MulTruncate by an integer-valued Dec is exact *)
Lemma dmul_trunc_int_exact i d : dmul_trunc (dec_of_int i) d = i * d.
Proof.
  dec_consts. unfold dmul_trunc, chop_trunc, dec_of_int.
  replace (i * P18 * d) with ((i * d) * P18) by lia. apply Z.quot_mul; lia.
Qed.

(* QuoTruncate of two integer-valued Decs: floor (i * 10^18 / j) *)
Lemma dquo_trunc_ints_bounds i j : 0 <= i -> 0 < j ->
  let q := dquo_trunc (dec_of_int i) (dec_of_int j) in
  0 <= q /\ q * j <= i * P18 < (q + 1) * j.
Proof.
  intros Hi Hj. dec_consts. cbv zeta.
  assert (Ha : 0 <= dec_of_int i) by (unfold dec_of_int; nia).
  assert (Hb : 0 < dec_of_int j) by (unfold dec_of_int; nia).
  pose proof (dquo_trunc_bounds _ _ Ha Hb) as [B1 B2].
  pose proof (dquo_trunc_nonneg _ _ Ha Hb).
  unfold dec_of_int in *. split; [assumption|].
  set (q := dquo_trunc (i * P18) (j * P18)) in *.
  assert (H3 : (q * j - i * P18) * P18 <= 0) by lia.
  assert (H4 : 0 < ((q + 1) * j - i * P18) * P18) by lia.
  apply scale_le0 in H3. apply scale_gt0 in H4. lia.
Qed.

(* Quo of two integer-valued Decs: within one unit of the last place, and never above a grid
   point that bounds the exact quotient *)
Lemma dquo_ints_bounds i j : 0 <= i -> 0 < j ->
  let q := dquo (dec_of_int i) (dec_of_int j) in
  0 <= q /\ - j <= q * j - i * P18 <= j.
Proof.
  intros Hi Hj. dec_consts. cbv zeta.
  assert (Ha : 0 <= dec_of_int i) by (unfold dec_of_int; nia).
  assert (Hb : 0 < dec_of_int j) by (unfold dec_of_int; nia).
  pose proof (dquo_bounds _ _ Ha Hb) as B. pose proof (dquo_nonneg _ _ Ha Hb).
  unfold dec_of_int in *. split; [assumption|].
  set (q := dquo (i * P18) (j * P18)) in *.
  assert (H3 : (- j) * P18 <= (q * j - i * P18) * P18) by lia.
  assert (H4 : (q * j - i * P18) * P18 <= j * P18) by lia.
  apply scale_le in H3. apply scale_le in H4. lia.
Qed.

Lemma dquo_ints_le_grid i j k : 0 <= i -> 0 < j -> i * P18 <= k * j ->
  dquo (dec_of_int i) (dec_of_int j) <= k.
Proof.
  intros Hi Hj H. dec_consts. pose proof P36_eq. pose proof P36_pos.
  unfold dquo. apply chop_round_le_grid. rewrite dquo_ints_raw by assumption.
  apply Z.div_le_upper_bound; [lia|]. nia.
Qed.

Lemma dquo_ints_ge_grid i j k : 0 <= i -> 0 < j -> k * j <= i * P18 ->
  k <= dquo (dec_of_int i) (dec_of_int j).
Proof.
  intros Hi Hj H. dec_consts. pose proof P36_eq. pose proof P36_pos.
  unfold dquo. apply chop_round_ge_grid. rewrite dquo_ints_raw by assumption.
  apply Z.div_le_lower_bound; [lia|]. nia.
Qed.
