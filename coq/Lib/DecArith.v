(* Exact model of cosmossdk.io/math v1.1.2: Int (big.Int with a 256-bit overflow check) and
   LegacyDec (big.Int scaled by 10^18, 315-bit overflow check), read off dec.go / int.go.
   A Dec value is its scaled integer.  big.Int.Quo truncates toward zero, hence Z.quot/Z.rem.
   Pure (unchecked) operations first; the checked variants return None exactly where the Go
   code panics (overflow, division by zero).  Definitions only. *)
From Comdex Require Import Lib.Base.

Definition P18 : Z := 1000000000000000000.          (* precisionReuse *)
Definition HALF18 : Z := 500000000000000000.        (* fivePrecision *)
Definition P36 : Z := P18 * P18.                    (* squaredPrecisionReuse *)

(* chopPrecisionAndRound: banker's rounding of x / 10^18 *)
Definition chop_round_nn (x : Z) : Z :=             (* for x >= 0 *)
  let q := x / P18 in
  let r := x mod P18 in
  if r =? 0 then q
  else if r <? HALF18 then q
  else if r >? HALF18 then q + 1
  else if Z.even q then q else q + 1.

Definition chop_round (x : Z) : Z :=
  if x <? 0 then - chop_round_nn (- x) else chop_round_nn x.

(* chopPrecisionAndRoundUp *)
Definition chop_round_up (x : Z) : Z :=
  if x <? 0 then - ((- x) / P18)
  else let q := x / P18 in if x mod P18 =? 0 then q else q + 1.

(* chopPrecisionAndTruncate *)
Definition chop_trunc (x : Z) : Z := Z.quot x P18.

(* ---- LegacyDec, unchecked ---- *)
Definition dec_of_int (i : Z) : Z := i * P18.                    (* NewDecFromInt / NewDec *)
Definition dadd (a b : Z) : Z := a + b.
Definition dsub (a b : Z) : Z := a - b.
Definition dmul (a b : Z) : Z := chop_round (a * b).             (* Mul *)
Definition dmul_trunc (a b : Z) : Z := chop_trunc (a * b).       (* MulTruncate *)
Definition dmul_up (a b : Z) : Z := chop_round_up (a * b).       (* MulRoundUp *)
Definition dmul_int (a i : Z) : Z := a * i.                      (* MulInt, MulInt64 *)
Definition dquo (a b : Z) : Z := chop_round (Z.quot (a * P36) b).        (* Quo, b <> 0 *)
Definition dquo_trunc (a b : Z) : Z := chop_trunc (Z.quot (a * P36) b).  (* QuoTruncate *)
Definition dquo_up (a b : Z) : Z := chop_round_up (Z.quot (a * P36) b).  (* QuoRoundUp *)
Definition dquo_int (a i : Z) : Z := Z.quot a i.                 (* QuoInt, QuoInt64 *)
Definition dtrunc_int (a : Z) : Z := Z.quot a P18.               (* TruncateInt *)
Definition dround_int (a : Z) : Z := chop_round a.               (* RoundInt *)
Definition dceil (a : Z) : Z :=                                  (* Ceil, as a Dec *)
  let q := Z.quot a P18 in let r := Z.rem a P18 in
  (if r =? 0 then q else if r <? 0 then q else q + 1) * P18.
Definition dceil_int (a : Z) : Z := dceil a / P18.               (* Ceil().TruncateInt() *)

(* PowerMut: square-and-multiply exactly as coded; [fuel] bounds the number of halvings *)
Fixpoint dpower_loop (fuel : nat) (d tmp i : Z) : Z :=
  match fuel with
  | O => dmul d tmp
  | S f =>
      if i >? 1 then
        let tmp' := if Z.odd i then dmul tmp d else tmp in
        dpower_loop f (dmul d d) tmp' (i / 2)
      else dmul d tmp
  end.
Definition dpower (d power : Z) : Z :=
  if power =? 0 then P18 else dpower_loop 64 d P18 power.

(* ApproxRoot(2): Newton iteration with the 300-iteration cap as fuel *)
Fixpoint dsqrt_loop (fuel : nat) (d guess delta : Z) : Z :=
  match fuel with
  | O => guess
  | S f =>
      if Z.abs delta >? 1 then
        let prev := if guess =? 0 then 1 else guess in
        let delta1 := dquo d prev - guess in
        let delta2 := Z.shiftr delta1 1 in
        dsqrt_loop f d (guess + delta2) delta2
      else guess
  end.
Definition dsqrt_nn (d : Z) : Z :=
  if (d =? 0) || (d =? P18) then d else dsqrt_loop 300 d P18 P18.
Definition dsqrt (d : Z) : Z := if d <? 0 then - dsqrt_nn (- d) else dsqrt_nn d.

(* ---- overflow checks ---- *)
Definition two256 : Z := 2 ^ 256.
Definition two315 : Z := 2 ^ 315.
Definition fits_int (x : Z) : bool := Z.abs x <? two256.     (* BitLen <= 256 *)
Definition fits_dec (x : Z) : bool := Z.abs x <? two315.     (* BitLen <= 315 *)

Definition chk_dec (x : Z) : option Z := if fits_dec x then Some x else None.
Definition chk_int (x : Z) : option Z := if fits_int x then Some x else None.

(* checked variants: None = the Go call panics *)
Definition dadd_c (a b : Z) := chk_dec (a + b).
Definition dsub_c (a b : Z) := chk_dec (a - b).
Definition dmul_c (a b : Z) := chk_dec (dmul a b).
Definition dmul_trunc_c (a b : Z) := chk_dec (dmul_trunc a b).
Definition dmul_int_c (a i : Z) := chk_dec (a * i).
Definition dquo_c (a b : Z) := if b =? 0 then None else chk_dec (dquo a b).
Definition dquo_trunc_c (a b : Z) := if b =? 0 then None else chk_dec (dquo_trunc a b).
Definition dquo_up_c (a b : Z) := if b =? 0 then None else chk_dec (dquo_up a b).
Definition dquo_int_c (a i : Z) := if i =? 0 then None else Some (Z.quot a i).
Definition dtrunc_int_c (a : Z) := chk_int (dtrunc_int a).
Definition dround_int_c (a : Z) := chk_int (dround_int a).

(* sdk.Int *)
Definition iadd_c (a b : Z) := chk_int (a + b).
Definition isub_c (a b : Z) := chk_int (a - b).
(* Int.Mul first checks BitLen(a)+BitLen(b)-1 > 256, then the result *)
Definition bitlen (x : Z) : Z := match Z.abs x with 0 => 0 | y => Z.log2 y + 1 end.
Definition imul_c (a b : Z) :=
  if bitlen a + bitlen b - 1 >? 256 then None else chk_int (a * b).
Definition iquo_c (a b : Z) := if b =? 0 then None else Some (Z.quot a b).
Definition imod_c (a b : Z) := if b =? 0 then None else Some (Z.modulo a (Z.abs b)).  (* big.Int.Mod: Euclidean *)
Definition int64_c (a : Z) : option Z :=
  if (- 9223372036854775808 <=? a) && (a <=? 9223372036854775807) then Some a else None.
Definition uint64_c (a : Z) : option Z :=
  if (0 <=? a) && (a <? two64) then Some a else None.

Definition omap2 (f : Z -> Z -> option Z) (a b : option Z) : option Z :=
  match a, b with Some x, Some y => f x y | _, _ => None end.
