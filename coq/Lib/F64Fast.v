(* The float operations of Lib/F64.v whose divisor is a power of two (a - b, a * b, the 18-decimal
   formatting), computed with shifts instead of Z.div on 2000-5000 bit operands, and the proofs
   that they are EQUAL to the Lib/F64.v definitions.  The extracted model that the correspondence
   run executes uses these; the theorems are stated over the Lib/F64.v forms. *)
From Comdex Require Import Lib.Base Lib.F64.
From Coq Require Import ZifyBool.

(* rne a (2^e) *)
Definition rne_p2 (a e : Z) : Z :=
  let q := Z.shiftr a e in
  let r := a - Z.shiftl q e in
  let b := Z.shiftl 1 e in
  if 2 * r <? b then q
  else if 2 * r >? b then q + 1
  else if Z.even q then q else q + 1.

Lemma rne_p2_eq a e : 0 <= e -> rne_p2 a e = rne a (2 ^ e).
Proof.
  intros He. unfold rne_p2, rne.
  assert (0 < 2 ^ e) by (apply Z.pow_pos_nonneg; lia).
  rewrite Z.shiftr_div_pow2, !Z.shiftl_mul_pow2 by lia. rewrite Z.mul_1_l.
  rewrite (Z.mod_eq a (2 ^ e)) by lia. rewrite (Z.mul_comm (2 ^ e) (a / 2 ^ e)). reflexivity.
Qed.

(* spacing I = 2 ^ spacing_exp I *)
Definition spacing_exp (I : Z) : Z := if I <? F_P53 then 0 else Z.log2 I - 52.
Lemma spacing_exp_eq I : spacing I = 2 ^ spacing_exp I.
Proof. unfold spacing, spacing_exp. destruct (I <? F_P53); reflexivity. Qed.
Lemma spacing_exp_nonneg I : 0 <= spacing_exp I.
Proof.
  unfold spacing_exp. destruct (Z.ltb_spec I F_P53); [lia|].
  assert (53 <= Z.log2 I). { apply Z.log2_le_pow2; [pose proof F_P53_pos; lia|]. exact H. } lia.
Qed.

Lemma F_ONE_eq : F_ONE = 2 ^ 1074. Proof. reflexivity. Qed.

(* rnd64_nn n (2^k) *)
Definition rnd64_nn_p2 (n k : Z) : Z :=
  let N := Z.shiftl n 1074 in
  let e := spacing_exp (Z.shiftr N k) in
  Z.shiftl (rne_p2 N (k + e)) e.

Lemma rnd64_nn_p2_eq n k : 0 <= k -> rnd64_nn_p2 n k = rnd64_nn n (2 ^ k).
Proof.
  intros Hk. unfold rnd64_nn_p2, rnd64_nn.
  rewrite (Z.shiftl_mul_pow2 n 1074) by lia. rewrite <- F_ONE_eq.
  rewrite Z.shiftr_div_pow2 by lia. set (I := n * F_ONE / 2 ^ k).
  pose proof (spacing_exp_nonneg I). rewrite Z.shiftl_mul_pow2 by lia.
  rewrite rne_p2_eq by lia. rewrite Z.pow_add_r by lia. rewrite <- spacing_exp_eq. reflexivity.
Qed.

Definition rnd64_p2 (n k : Z) : Z := if n <? 0 then - rnd64_nn_p2 (- n) k else rnd64_nn_p2 n k.
Lemma rnd64_p2_eq n k : 0 <= k -> rnd64_p2 n k = rnd64 n (2 ^ k).
Proof. intros. unfold rnd64_p2, rnd64. rewrite !rnd64_nn_p2_eq by lia. reflexivity. Qed.

Definition sub64f (a b : Z) : Z := rnd64_p2 (a - b) 1074.
Definition mul64f (a b : Z) : Z := rnd64_p2 (a * b) 2148.
Definition fmt18f (v : Z) : Z := if v <? 0 then - rne_p2 (- v * P18f) 1074 else rne_p2 (v * P18f) 1074.

Lemma sub64f_eq a b : sub64f a b = sub64 a b.
Proof. unfold sub64f, sub64. rewrite rnd64_p2_eq by lia. rewrite F_ONE_eq. reflexivity. Qed.
Lemma mul64f_eq a b : mul64f a b = mul64 a b.
Proof.
  unfold mul64f, mul64. rewrite rnd64_p2_eq by lia. rewrite F_ONE_eq, <- Z.pow_add_r by lia. reflexivity.
Qed.
Lemma fmt18f_eq v : fmt18f v = fmt18 v.
Proof. unfold fmt18f, fmt18. rewrite !rne_p2_eq by lia. rewrite F_ONE_eq. reflexivity. Qed.

(* ---- general divisor d (Dec -> float64: d = 10^18): rne a (d * 2^e) with one small division ---- *)
Definition rne_dp2 (a d e : Z) : Z :=
  let q := Z.shiftr a e / d in
  let b := Z.shiftl d e in
  let r := a - q * b in
  if 2 * r <? b then q
  else if 2 * r >? b then q + 1
  else if Z.even q then q else q + 1.

Lemma rne_dp2_eq a d e : 0 < d -> 0 <= e -> rne_dp2 a d e = rne a (d * 2 ^ e).
Proof.
  intros Hd He. unfold rne_dp2, rne.
  assert (0 < 2 ^ e) by (apply Z.pow_pos_nonneg; lia).
  rewrite Z.shiftr_div_pow2, Z.shiftl_mul_pow2 by lia.
  rewrite Z.div_div by lia. rewrite (Z.mul_comm (2 ^ e) d).
  rewrite (Z.mod_eq a (d * 2 ^ e)) by nia. rewrite (Z.mul_comm (d * 2 ^ e) (a / (d * 2 ^ e))). reflexivity.
Qed.

Definition rnd64_nn_f (n d : Z) : Z :=
  let N := Z.shiftl n 1074 in
  let e := spacing_exp (N / d) in
  Z.shiftl (rne_dp2 N d e) e.
Lemma rnd64_nn_f_eq n d : 0 < d -> rnd64_nn_f n d = rnd64_nn n d.
Proof.
  intros Hd. unfold rnd64_nn_f, rnd64_nn.
  rewrite (Z.shiftl_mul_pow2 n 1074) by lia. rewrite <- F_ONE_eq. set (I := n * F_ONE / d).
  pose proof (spacing_exp_nonneg I). rewrite Z.shiftl_mul_pow2 by lia.
  rewrite rne_dp2_eq by lia. rewrite <- spacing_exp_eq. reflexivity.
Qed.
Definition rnd64_f (n d : Z) : Z := if n <? 0 then - rnd64_nn_f (- n) d else rnd64_nn_f n d.
Lemma rnd64_f_eq n d : 0 < d -> rnd64_f n d = rnd64 n d.
Proof. intros. unfold rnd64_f, rnd64. rewrite !rnd64_nn_f_eq by lia. reflexivity. Qed.

Definition to64f (dec : Z) : Z := rnd64_f dec P18f.
Lemma to64f_eq dec : to64f dec = to64 dec.
Proof. unfold to64f, to64. apply rnd64_f_eq. apply P18f_pos. Qed.
